"""Codec engine: descriptors of Codec.tla -> schemas, wire classes -> JSON values, packed generation, sandbox execution."""
from __future__ import annotations

import json
import subprocess
from pathlib import Path

from . import gen, tlc
from .common import VENV_PY, VERIF

WIRE = {"null": None, "t": True, "f": False, "i0": 0, "se": "", "i1": 1, "i2": 2, "i7": 7, "f15": 1.5, "f10": 1.0, "s": "abc", "ds": "2020-01-02",
        "dts": "2020-01-02T03:04:05+00:00", "dt0": "2020-01-02T00:00:00", "us": "12345678-1234-5678-1234-567812345678",
        "m1": "a", "m2": "b", "objv": {"v": 1}, "objw": {"w": 2}, "objvw": {"v": 1, "w": 2}, "obj0": {}, "arr0": [], "arri": [1, 2],
        "arrd": ["2020-01-02"], "arro": [{"v": 1}], "arrs": ["abc"]}
WIRESEQ = ["absent", "null", "t", "f", "i0", "i1", "i2", "i7", "f15", "f10", "se", "s", "ds", "dts", "dt0", "us", "m1", "m2", "objv", "objw",
           "objvw", "obj0", "arr0", "arri", "arrd", "arro", "arrs"]
UNION_KINDS = ["none", "str", "int", "date", "datetime", "uuid", "enums", "enumi", "modelM", "modelN", "listint", "listM"]
COMPONENTS = {
    "ES": {"type": "string", "enum": ["", "a", "b"]},
    "EI": {"type": "integer", "enum": [0, 1, 2]},
    "O": {"type": "object", "properties": {"o": {"type": "string"}}},
    "M": {"type": "object", "required": ["v"], "properties": {"v": {"type": "integer"}}},
    "N": {"type": "object", "required": ["w"], "properties": {"w": {"type": "integer"}}},
    "S": {"type": "object", "required": ["v"], "properties": {"v": {"type": "integer"}}, "additionalProperties": False},
}


def ref(n):
    return {"$ref": f"#/components/schemas/{n}"}


def leaf_schema(k: str) -> dict:
    return {"any": {}, "bool": {"type": "boolean"}, "int": {"type": "integer"}, "float": {"type": "number"}, "str": {"type": "string"},
            "date": {"type": "string", "format": "date"}, "datetime": {"type": "string", "format": "date-time"},
            "uuid": {"type": "string", "format": "uuid"}, "enums": ref("ES"), "enumi": ref("EI"), "none": {"type": "null"},
            "modelM": ref("M"), "modelN": ref("N"), "modelS": ref("S"), "modelO": ref("O"), "listint": {"type": "array", "items": {"type": "integer"}},
            "listdate": {"type": "array", "items": {"type": "string", "format": "date"}},
            "listM": {"type": "array", "items": ref("M")}}[k]


def schema_of(d: dict) -> dict:
    """Descriptor -> property schema (OpenAPI 3.1 spelling; nullable = null member appended last)."""
    if d["kind"] == "union":
        members = [leaf_schema(k) for k in d["ms"]]
        if d.get("nest"):
            members = [{"oneOf": members[: d["nest"]]}] + members[d["nest"]:]
        if d["nul"] and "none" not in d["ms"]:
            members.append({"type": "null"})
        return {"oneOf": members}
    s = leaf_schema(d["kind"])
    if d["nul"]:
        if "$ref" in s or s == {}:
            return {"oneOf": [s, {"type": "null"}]} if s != {} else {}
        s = dict(s)
        s["type"] = [s["type"], "null"]
    return s


def wire_class(v) -> str:
    for k, x in WIRE.items():
        if type(x) is type(v) and x == v:
            return k
    return "other:" + json.dumps(v, default=repr)[:60]


def pack(descs: list[dict], prefix: str = "T") -> tuple[dict, list[dict]]:
    """One model class per descriptor, all in one document."""
    schemas = dict(COMPONENTS)
    cases = []
    for i, d in enumerate(descs):
        cls = f"{prefix}{i}"
        # every other holder forbids additional properties: the generated decoder takes another path (nothing is left over to keep)
        schemas[cls] = {"type": "object", "properties": {"p": schema_of(d)}, **({"required": ["p"]} if d["req"] else {}), **({"additionalProperties": False} if i % 2 else {})}
        cases.append({"cls": cls, "prop": "p", "closed": bool(i % 2), "wires": [[w, w != "absent", WIRE.get(w)] for w in WIRESEQ], "construct_empty": True})
    return gen.mkdoc(schemas=schemas), cases


def run_sandbox(parent: Path, pkg: str, cases: list[dict], timeout: int = 600) -> dict:
    job = {"parent": str(parent), "pkg": pkg, "cases": cases}
    p = subprocess.run([VENV_PY, "-I", str(VERIF / "harness" / "runners" / "codec_runner.py")], input=json.dumps(job),
                       capture_output=True, text=True, timeout=timeout)
    if p.returncode != 0:
        return {"__crash__": p.stderr[-3000:]}
    return json.loads(p.stdout.strip().splitlines()[-1])


def enumerate_descriptors(scratch_dir: Path, arity: int = 2, union_kinds=None):
    cfg = tlc.write_cfg(scratch_dir / "codec.cfg", {"UnionKinds": set(union_kinds or UNION_KINDS), "Arity": arity, "EmitJson": True},
                        ["Emit", "LawK1", "LawK4", "LawK6"])
    return tlc.run_tlc("CodecMC.tla", cfg, workers=1, extra=["-continue"], timeout=1800)


PYMAP = {"date": "date", "datetime": "datetime", "UUID": "UUID", "Enum:ES": "EnumS", "Enum:EI": "EnumI", "Model:M": "M", "Model:N": "N", "Model:S": "S", "Model:O": "O",
         "Unset": "Unset"}


def project_dec(r: dict):
    """Runner observation -> (abstract decode outcome, abstract encode outcome) in Codec.tla's vocabulary."""
    if r["dec"] != "ok":
        return "raise", "raise"
    py = r["py"]
    if py == "Unset":
        dec = ["Unset", "absent"]
    else:
        dec = [PYMAP.get(py, "list" if py.startswith("list[") and py not in ("list[]", "list[int]", "list[str]", "list[dict]") else "raw"), None]
    if r.get("enc_raise"):
        enc = "raise"
    elif not r.get("enc_present"):
        enc = "absent"
    else:
        enc = wire_class(r["enc"])
    return dec, enc


def screen_validity(items: list[tuple[dict, list]], components: dict | None = None) -> list[list[bool]]:
    """Independent schema-validity screening with jsonschema (python3-vt)."""
    job = {"components": components if components is not None else COMPONENTS, "items": [[s, inst] for s, inst in items]}
    p = subprocess.run(["python3-vt", str(VERIF / "harness" / "runners" / "validity.py")], input=json.dumps(job), capture_output=True,
                       text=True, timeout=600)
    if p.returncode != 0:
        raise RuntimeError("validity screening failed: " + p.stderr[-2000:])
    return json.loads(p.stdout.strip().splitlines()[-1])


def observe(scratch_dir: Path, arity: int = 2, union_kinds=None, cfg: dict | None = None):
    """TLC enumeration -> packed generation -> sandbox observation.  Returns (tlc result, descriptors, cases, observations, gen result)."""
    res = enumerate_descriptors(scratch_dir, arity, union_kinds)
    descs = list(res.printed)
    if len(descs) < 50:
        raise tlc.TlcFailure("codec universe emitted too few descriptors")
    all_cases, all_out, gens = [], {"results": {}, "meta": {}}, []
    CH = 700
    for ci in range(0, len(descs), CH):
        chunk = descs[ci:ci + CH]
        doc, cases = pack([p["d"] for p in chunk], prefix=f"T{ci // CH}X")
        pkg = f"pk{ci // CH}"
        g = gen.generate(doc, scratch_dir / pkg, **(cfg or {}))
        gens.append(g)
        if g["exc"] or g["rejected"]:
            raise RuntimeError(f"packed codec document failed to generate: {g['exc'] or g['diags'][:2]}")
        out = run_sandbox(scratch_dir, pkg, cases)
        if "__crash__" in out:
            raise RuntimeError("codec sandbox crashed: " + out["__crash__"])
        all_cases += cases
        all_out["results"].update(out["results"])
        all_out["meta"].update(out["meta"])
    return res, descs, all_cases, all_out, gens
