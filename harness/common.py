"""Shared paths, seeds, scratch management. Stdlib only."""
from __future__ import annotations

import hashlib
import os
import shutil
import sys
import tempfile
from pathlib import Path

VERIF = Path(__file__).resolve().parent.parent
REPO = Path(os.environ.get("OPC_REPO", "/repo")).resolve()
VENV_PY = os.environ.get("OPC_PY", "/venv/bin/python")
SPEC = VERIF / "spec"
GUARD = "OPC_VERIF_TRACE"  # the hooks guard (a file path); unset => hooks inert
NCPU = min(16, int(os.environ.get("VERIF_NCPU", "0")) or os.cpu_count() or 4)


def ensure_repo_on_path() -> None:
    """Make `import openapi_python_client` resolve to REPO's working tree (not a stale install)."""
    p = str(REPO)
    if p in sys.path:
        sys.path.remove(p)
    sys.path.insert(0, p)


def seed() -> int:
    try:
        return int(os.environ.get("VERIF_SEED", "0"))
    except ValueError:
        return 0


def scratch(prefix: str = "opcv-") -> Path:
    base = os.environ.get("OPC_SCRATCH") or tempfile.gettempdir()
    return Path(tempfile.mkdtemp(prefix=prefix, dir=base))


def rmtree(p: Path | str) -> None:
    shutil.rmtree(p, ignore_errors=True)


def repo_tree_hash() -> str:
    """Hash of the generator's sources in REPO's working tree (for cache keys / evidence)."""
    h = hashlib.sha256()
    root = REPO / "openapi_python_client"
    for f in sorted(root.rglob("*")):
        if f.is_file() and "__pycache__" not in f.parts:
            h.update(str(f.relative_to(root)).encode())
            h.update(f.read_bytes())
    return h.hexdigest()[:16]
