"""C16 support: the reference document, configurations of Config.tla -> real generator runs, facet extraction from real trees, the undo maps of
renaming options, tree comparison helpers."""
from __future__ import annotations

import ast
import contextlib
import io
import json
import multiprocessing as mp
import os
import re
import traceback
from pathlib import Path

from . import gen
from .common import NCPU

S = {"type": "string"}
BLOB = "application/vnd.Acme.Blob"          # media types are written as the document writes them, capitals included


def reference_document() -> dict:
    thing = {"type": "object", "required": ["id"], "description": "A thing — with a non-ASCII dash.",
             "properties": {"id": {"type": "integer", "description": "The id."},
                            "1st": {"type": "string", "description": "Starts with a digit."},
                            "kind": {"type": "string", "enum": ["a", "b"], "description": "The kind."},
                            "format": {"$ref": "#/components/schemas/Format"},
                            "inner": {"title": "Titled", "type": "object", "description": "An inline model with a title.", "properties": {"x": S}},
                            "note": {"type": "string", "description": "A note."}}}
    ok_thing = {"200": {"description": "ok", "content": {"application/json": {"schema": {"$ref": "#/components/schemas/Thing"}}}}}
    paths = {
        "/things": {"post": {"operationId": "createThing", "tags": ["alpha", "beta"], "requestBody": {"required": True, "content": {"application/json": {"schema": {"$ref": "#/components/schemas/Thing"}}}},
                             "parameters": [{"name": "mode", "in": "query", "schema": {"type": "string", "enum": ["fast", "slow"]}}],
                             "responses": dict(ok_thing, **{"201": {"description": "created", "content": {"application/json": {"schema": {"type": "object", "properties": {"ok": {"type": "boolean"}}}}}}})}},
        "/things/{id}": {"get": {"operationId": "getThing", "tags": ["alpha"],
                                 "parameters": [{"name": "id", "in": "path", "required": True, "schema": {"type": "integer"}},
                                                {"name": "kind", "in": "query", "schema": {"type": "string", "enum": ["a", "b"]}}],
                                 "responses": ok_thing}},
        # two DIFFERENT operations whose module names coincide, under different tags
        "/v1/items": {"get": {"operationId": "listItems", "tags": ["v1"], "responses": ok_thing}},
        "/v2/items/{shelf}": {"get": {"operationId": "list_items", "tags": ["v2"], "parameters": [{"name": "shelf", "in": "path", "required": True, "schema": S}], "responses": ok_thing}},
        "/blob": {"post": {"operationId": "uploadBlob", "requestBody": {"required": True, "content": {BLOB: {"schema": {"type": "string", "format": "binary"}}}},
                           "responses": {"200": {"description": "ok", "content": {BLOB: {"schema": {"type": "string", "format": "binary"}}}}}}},
    }
    # an enum whose class name in snake case is a builtin: its module is format_, its helper names derive from the class name
    d = gen.mkdoc({"Thing": thing, "Format": {"type": "string", "enum": ["json", "xml", 'say "hi"', "C:\\temp", "two\nlines"]}}, paths, title="My API")
    d["info"]["version"] = "1.2.3"
    return d


DEFAULT = {"pno": "off", "pkgo": "off", "pvo": "off", "co": "none", "fp": "off", "upp": "on", "le": "off", "doa": "off", "gat": "off", "cto": "off", "meta": "poetry",
           "enc": "utf-8", "tpl": "off", "hooks": "empty"}
DOMAIN = {"co": ["none", "class", "module", "both"], "meta": ["none", "poetry", "setup", "pdm"], "hooks": ["default", "empty", "custom"], "enc": ["utf-8", "utf-16"]}
CUSTOM_ERRORS = '"""Custom errors module rendered from a user template."""\n\nCUSTOM_TEMPLATE_MARKER = "{{ package_name }}"\n\n\nclass UnexpectedStatus(Exception):\n' \
                '    def __init__(self, status_code: int, content: bytes):\n        self.status_code = status_code\n        self.content = content\n' \
                '        super().__init__(f"Unexpected status code: {status_code}")\n\n\n__all__ = ["UnexpectedStatus"]\n'


def domain(o: str) -> list[str]:
    return DOMAIN.get(o, ["off", "on"])


def config_kwargs(c: dict) -> dict:
    cf: dict = {}
    if c["pno"] == "on":
        cf["project_name_override"] = "proj-o"
    if c["pkgo"] == "on":
        cf["package_name_override"] = "pkg_o"
    if c["pvo"] == "on":
        cf["package_version_override"] = "9.9.9"
    if c["co"] != "none":
        ov = {}
        if c["co"] in ("class", "both"):
            ov["class_name"] = "Renamed"
        if c["co"] in ("module", "both"):
            ov["module_name"] = "custom_mod"
        cf["class_overrides"] = {"Thing": ov}
    if c["fp"] == "on":
        cf["field_prefix"] = "attr_"
    if c["upp"] == "off":
        cf["use_path_prefixes_for_title_model_names"] = False
    if c["le"] == "on":
        cf["literal_enums"] = True
    if c["doa"] == "on":
        cf["docstrings_on_attributes"] = True
    if c["gat"] == "on":
        cf["generate_all_tags"] = True
    if c["cto"] == "on":
        cf["content_type_overrides"] = {BLOB: "application/octet-stream"}
    if c["hooks"] == "default":
        cf["post_hooks"] = None          # ConfigFile's default: the flavour's ruff commands
    elif c["hooks"] == "empty":
        cf["post_hooks"] = []
    elif c["hooks"] == "custom":
        cf["post_hooks"] = ["touch hook_marker"]
    return cf


def _run(job):
    c, workdir, doc = job
    from openapi_python_client import Project
    from openapi_python_client.parser import GeneratorData
    from openapi_python_client.parser.errors import GeneratorError

    workdir = Path(workdir)
    workdir.mkdir(parents=True, exist_ok=True)
    tpl = None
    if c["tpl"] == "on":
        tpl = workdir.parent / (workdir.name + "-templates")
        tpl.mkdir(exist_ok=True)
        (tpl / "errors.py.jinja").write_text(CUSTOM_ERRORS)
    cfg = gen.make_config(out=None, meta=c["meta"], file_encoding=c["enc"], **config_kwargs(c))
    old = os.getcwd()
    os.chdir(workdir)
    buf = io.StringIO()
    try:
        with gen.time_limit(90), contextlib.redirect_stdout(buf):
            data = GeneratorData.from_dict(doc or reference_document(), config=cfg)
            if isinstance(data, GeneratorError):
                return {"exc": None, "rejected": True, "diags": gen.diag_list([data]), "hooks": cfg.post_hooks}
            errs = Project(openapi=data, config=cfg, custom_template_path=tpl).build()
            return {"exc": None, "rejected": False, "diags": gen.diag_list(errs), "hooks": list(cfg.post_hooks)}
    except Exception:  # noqa: BLE001
        return {"exc": traceback.format_exc(limit=-8), "rejected": False, "diags": [], "hooks": []}
    finally:
        os.chdir(old)


def generate_configs(jobs: list[tuple]) -> list[dict]:
    """jobs: [(config dict, empty working directory, document or None)]; the generator runs with cwd = working directory and no output path."""
    if not jobs:
        return []
    procs = min(NCPU - 2, max(1, len(jobs) // 2))
    with mp.get_context("fork").Pool(procs) as pool:
        return pool.map(_run, jobs, chunksize=1)


# ---------------------------------------------------------------- facets of a real tree
def read_tree(root: Path, enc: str) -> dict[str, str]:
    out = {}
    for p in sorted(root.rglob("*")):
        if p.is_file() and "__pycache__" not in p.parts and ".ruff_cache" not in p.parts:
            b = p.read_bytes()
            try:
                out[str(p.relative_to(root))] = b.decode(enc)
            except UnicodeDecodeError:
                out[str(p.relative_to(root))] = "<<UNDECODABLE as %s>> " % enc + b[:40].hex()
    return out


def facets(workdir: Path, c: dict, res: dict) -> dict:
    """Project the real output of one run to the facet record of Config.tla."""
    workdir = Path(workdir)
    tops = sorted(p.name for p in workdir.iterdir())
    f: dict = {"tops": tops}
    if len(tops) != 1:
        return f
    proj = workdir / tops[0]
    f["projdir"] = tops[0]
    pkgs = [p.parent for p in proj.rglob("client.py") if (p.parent / "models").is_dir()]
    if len(pkgs) != 1:
        f["pkgpath"] = ["?"]
        return f
    pkg = pkgs[0]
    f["pkgpath"] = [tops[0]] + list(pkg.relative_to(proj).parts)
    f["pkgname"] = pkg.name
    metas = {p.name for p in proj.iterdir() if p.is_file() and p.name != "hook_marker"} if pkg != proj else set()
    if (pkg / "py.typed").exists():
        metas.add("py.typed")
    f["metafiles"] = sorted(metas)
    tree = read_tree(proj, c["enc"])
    f["tree"] = tree
    rel = (str(pkg.relative_to(proj)) + "/") if pkg != proj else ""
    # version / project name as written into the metadata
    version, projname, flavour = "n/a", None, "none"
    if "pyproject.toml" in tree:
        import tomllib
        try:
            t = tomllib.loads(tree["pyproject.toml"])
        except Exception:  # noqa: BLE001
            t = {}
        if "poetry" in t.get("tool", {}):
            flavour, version, projname = "poetry", t["tool"]["poetry"].get("version"), t["tool"]["poetry"].get("name")
        elif "project" in t:
            flavour, version, projname = "pdm", t["project"].get("version"), t["project"].get("name")
        else:
            flavour = "setup"
    if "setup.py" in tree:
        flavour = "setup"
        m = re.search(r'version="([^"]*)"', tree["setup.py"])
        version = m.group(1) if m else None
        m = re.search(r'name="([^"]*)"', tree["setup.py"])
        projname = m.group(1) if m else None
    f["version"], f["flavour"] = version, flavour
    f["projname"] = projname
    # model class / module / attribute names
    models = {k[len(rel) + 7:-3]: v for k, v in tree.items() if k.startswith(rel + "models/") and k.endswith(".py") and not k.endswith("__init__.py")}
    f["model_modules"] = sorted(models)
    classes = {}
    for mod, src in models.items():
        try:
            t = ast.parse(src)
        except SyntaxError:
            continue
        for n in t.body:
            if isinstance(n, ast.ClassDef):
                classes[n.name] = (mod, n)
            if isinstance(n, ast.Assign) and isinstance(n.targets[0], ast.Name) and isinstance(n.value, ast.Subscript) and getattr(n.value.value, "id", "") == "Literal":
                classes[n.targets[0].id] = (mod, n)
    f["classes"] = sorted(classes)
    main = next(((name, mod, node) for name, (mod, node) in classes.items() if isinstance(node, ast.ClassDef) and any(
        isinstance(b, ast.AnnAssign) and getattr(b.target, "id", "").endswith("1st") for b in node.body)), None)
    if main:
        name, mod, node = main
        f["classname"], f["modname"] = name, mod
        fields = [b.target.id for b in node.body if isinstance(b, ast.AnnAssign) and isinstance(b.target, ast.Name)]
        f["fieldname"] = next((x for x in fields if x.endswith("1st")), None)
        doc = ast.get_docstring(node) or ""
        attr_doc = any(isinstance(b, ast.Expr) and isinstance(getattr(b, "value", None), ast.Constant) and isinstance(b.value.value, str) and i > 0 and isinstance(node.body[i - 1], ast.AnnAssign)
                       for i, b in enumerate(node.body))
        f["attrdoc"] = "on" if attr_doc and "Attributes:" not in doc else "off" if (not attr_doc and "Attributes:" in doc) else "mixed"
    f["titled"] = next((n for n in classes if n.endswith("Titled")), None)
    f["enums"] = sorted(n for n, (mod, node) in classes.items() if isinstance(node, ast.Assign) or any("Enum" in ast.dump(b) for b in node.bases))
    kinds = f["enums"]
    reprs = {("literal" if isinstance(classes[n][1], ast.Assign) else "class") for n in kinds}
    f["enumrepr"] = reprs.pop() if len(reprs) == 1 else "mixed:" + ",".join(sorted(reprs))
    # api placements
    pl = set()
    for k in tree:
        if k.startswith(rel + "api/") and k.endswith(".py") and not k.endswith("__init__.py"):
            parts = k[len(rel) + 4:-3].split("/")
            if len(parts) == 2:
                pl.add((parts[0], parts[1]))
    f["placements"] = sorted(pl)
    blob = next((v for k, v in tree.items() if k.endswith("/upload_blob.py")), None)
    if blob is None:
        f["blob"] = "omitted"
    else:
        f["blob"] = "octet" if re.search(r"body:\s*File\b", blob) and '_kwargs["content"]' in blob else "other"
        m = re.search(r'headers\["Content-Type"\] = "([^"]*)"', blob)
        f["blob_sent_as"] = m.group(1) if m else None
    f["encoding_ok"] = not any(v.startswith("<<UNDECODABLE") for v in tree.values())
    errs = tree.get(rel + "errors.py", "")
    f["custom"] = "on" if "CUSTOM_TEMPLATE_MARKER" in errs else "off"
    f["hook_marker"] = (proj / "hook_marker").exists()
    f["hooks"] = res.get("hooks")
    return f


def canonical(tree: dict[str, str], real: dict, base: dict, c: dict) -> dict[str, str]:
    """Undo the renaming options: every name an option introduced (they are unique strings) is replaced by the name the default
    configuration gives (facets `base` of the default run of the same document)."""
    pairs = []
    for k in ("projname", "pkgname", "classname", "modname", "fieldname", "version"):
        a, dflt = real.get(k), base.get(k)
        if a and dflt and a != "n/a" and dflt != "n/a" and a != dflt:
            pairs.append((a, dflt))
            if k == "classname":
                pairs.append((snake(a), snake(dflt)))          # modules of classes derived from the renamed class
                pairs.append((snake(a).upper(), snake(dflt).upper()))      # constants of literal enums derived from it
    if c.get("fp") == "on" and not real.get("fieldname"):
        pairs.append(("attr_", "field_"))
    pairs = sorted(set(pairs), key=lambda p: -len(p[0]))

    def sub(s: str) -> str:
        for i, (a, _) in enumerate(pairs):
            s = s.replace(a, f"\x00{i}\x00")
        for i, (_, b) in enumerate(pairs):
            s = s.replace(f"\x00{i}\x00", b)
        if real.get("titled") == "Titled" and base.get("titled") == "ThingTitled":      # use_path_prefixes_for_title_model_names off: the parent prefix is missing
            s = re.sub(r"(?<![A-Za-z0-9])Titled(?![a-z0-9])", "ThingTitled", s)
            s = re.sub(r"(?<![A-Za-z0-9_])titled(?![A-Za-z0-9])", "thing_titled", s)
        return s
    return {sub(k): sub(v) for k, v in tree.items()}


def snake(name: str) -> str:
    return re.sub(r"(?<!^)(?=[A-Z])", "_", name).lower()


def lines_multiset(s: str) -> list[str]:
    return sorted(x.rstrip() for x in s.splitlines() if x.strip())


def strip_docstrings(src: str) -> str:
    try:
        t = ast.parse(src)
    except SyntaxError:
        return "<<SYNTAX ERROR>>" + src
    for n in ast.walk(t):
        if isinstance(n, (ast.ClassDef, ast.FunctionDef, ast.AsyncFunctionDef, ast.Module)):
            n.body = [b for i, b in enumerate(n.body) if not (isinstance(b, ast.Expr) and isinstance(getattr(b, "value", None), ast.Constant) and isinstance(b.value.value, str))] or [ast.Pass()]
    return ast.dump(t)
