"""Endpoint engine: operations of Endpoint.tla -> OpenAPI operations, packed generation, sandboxed calls through httpx.MockTransport."""
from __future__ import annotations

import base64
import json
import subprocess
from concurrent.futures import ThreadPoolExecutor
from pathlib import Path

from . import gen, tlc
from .common import VENV_PY, VERIF

S = {"type": "string"}
KIND_SCHEMA = {"str": S, "int": {"type": "integer"}, "float": {"type": "number"}, "bool": {"type": "boolean"},
               "enum": {"$ref": "#/components/schemas/Sort"}, "date": {"type": "string", "format": "date"},
               "uuid": {"type": "string", "format": "uuid"}, "list": {"type": "array", "items": S}, "listform": {"type": "array", "items": S}}
COMPONENTS = {"schemas": {
    "Sort": {"type": "string", "enum": ["a", "b"]},
    "BodyModel": {"type": "object", "required": ["v"], "properties": {"v": {"type": "integer"}, "name": S}},
    "FormModel": {"type": "object", "properties": {"a": S, "b": {"type": "integer"}}},
    "MultiModel": {"type": "object", "properties": {"a": S, "b": {"type": "integer"}}},
    "Out": {"type": "object", "required": ["v"], "properties": {"v": {"type": "integer"}}}}}
SERVED = {"model": ("application/json", json.dumps({"v": 1}).encode()), "text": ("text/plain", b"hello"), "none": (None, b""),
          "list": ("application/problem+json", json.dumps([{"v": 1}, {"v": 2}]).encode()), "int": ("application/json", b"5"),
          "file": ("application/octet-stream", b"\x00\x01bytes"), "x": ("text/plain", b"teapot"), "t0int": ("application/json", b"5"),
          "const": ("application/json", b'"accepted"'), "ndjson": ("text/x-ndjson", b'{"a": 1}\n{"a": 2}\n')}
EXPECT_PARSED = {"model": "model:Out", "text": "text", "none": "None", "list": "list:model:Out", "int": "int", "file": "file", "None": "None", "t0int": "None", "const": "text", "ndjson": "text"}


def body_spec(b: str):
    js = {"schema": {"$ref": "#/components/schemas/BodyModel"}}
    fm = {"schema": {"$ref": "#/components/schemas/FormModel"}}
    return {"none": None, "json": {"content": {"application/json": js}},
            "jsonarr": {"content": {"application/json": {"schema": {"type": "array", "items": {"$ref": "#/components/schemas/BodyModel"}}}}},
            "form": {"content": {"application/x-www-form-urlencoded": fm}},
            "multi": {"content": {"multipart/form-data": {"schema": {"$ref": "#/components/schemas/MultiModel"}}}},
            "octet": {"content": {"application/octet-stream": {"schema": {"type": "string", "format": "binary"}}}},
            "json|form:json": {"content": {"application/json": js, "application/x-www-form-urlencoded": fm}},
            "json|form:form": {"content": {"application/json": js, "application/x-www-form-urlencoded": fm}},
            "vnd+json": {"content": {"application/vnd.api+json": js}},
            "json;param": {"content": {"application/vnd.acme+json; version=2": js}}}[b]


def resp_spec(r: dict) -> dict:
    how = r["how"]
    out = {"schema": {"$ref": "#/components/schemas/Out"}}
    content = {"model": {"application/json": out}, "text": {"text/plain": {"schema": S}}, "none": None,
               "list": {"application/problem+json": {"schema": {"type": "array", "items": {"$ref": "#/components/schemas/Out"}}}},
               "int": {"application/json": {"schema": {"type": "integer"}}},
               "file": {"application/octet-stream": {"schema": {"type": "string", "format": "binary"}}},
               # a media type listed without a schema (only an example) before one that has a schema
               "t0int": {"text/plain": {"example": "5"}, "application/json": {"schema": {"type": "integer"}}},
               "const": {"application/json": {"schema": {"const": "accepted"}}},
               # a text media type whose subtype ends in the letters "json" without being JSON (newline-delimited JSON)
               "ndjson": {"text/x-ndjson": {"schema": S}}}[how]
    return {"description": "d", **({"content": content} if content else {})}


def op_key(op: dict) -> str:
    return json.dumps(op, sort_keys=True)


def concretize_op(op: dict, idx: int, method: str = "post", pathitem_level: frozenset = frozenset(), reverse_path: bool = False) -> tuple[str, dict, dict]:
    """-> (path, path item, info).  Parameters whose index is in pathitem_level are declared on the path item instead of the operation."""
    pathps = [p for p in op["ps"] if p["loc"] == "path"]
    if reverse_path:
        pathps = list(reversed(pathps))
    path = f"/op{idx}" + "".join("/{%s}" % p["n"] for p in pathps) + "/end"
    def pdef(p):
        return {"name": p["n"], "in": p["loc"], "required": bool(p["req"]), "schema": KIND_SCHEMA[p["kind"]], **({"style": "form"} if p["kind"] == "listform" else {})}
    o = {"operationId": f"op{idx}", "tags": ["t"], "responses": {str(r["status"]): resp_spec(r) for r in op["rs"]}}
    oparams = [pdef(p) for i, p in enumerate(op["ps"]) if i not in pathitem_level]
    piparams = [pdef(p) for i, p in enumerate(op["ps"]) if i in pathitem_level]
    if oparams:
        o["parameters"] = oparams
    b = body_spec(op["body"])
    if b:
        o["requestBody"] = b
    if op["secured"]:
        o["security"] = [{"bearer": []}]
    item = {method: o}
    if piparams:
        item["parameters"] = piparams
    return path, item, {"module": f"t.op{idx}", "path": path, "method": method}


def pack_ops(ops: list[dict], start: int = 0, **kw) -> tuple[dict, list[dict]]:
    paths, infos = {}, []
    for i, op in enumerate(ops):
        path, item, info = concretize_op(op, start + i, **kw)
        paths[path] = item
        infos.append(info)
    comps = json.loads(json.dumps(COMPONENTS))
    comps["securitySchemes"] = {"bearer": {"type": "http", "scheme": "bearer"}}
    return gen.mkdoc(paths=paths, components=comps), infos


def python_names(doc: dict) -> dict:
    """operationId -> {(location, wire name): python argument name}, taken from the real parser."""
    data, exc = gen.parse(doc)
    if exc is not None or data is None or not hasattr(data, "endpoint_collections_by_tag"):
        raise RuntimeError("packed endpoint document did not parse: " + str(exc or getattr(data, "detail", ""))[:500])
    out = {}
    diags = {}
    for col in data.endpoint_collections_by_tag.values():
        for e in col.endpoints:
            out[e.name] = {(loc.value, p.name): str(p.python_name) for loc, p in e.iter_all_parameters()}
        for er in col.parse_errors:
            diags[(er.header or "")[:80]] = (er.detail or "")[:200]
    return out, diags


def run_calls(parent: Path, pkg: str, calls: list[dict], timeout: int = 900) -> dict:
    chunks = [calls[i:i + 1500] for i in range(0, len(calls), 1500)]

    def one(chunk):
        p = subprocess.run([VENV_PY, "-I", str(VERIF / "harness" / "runners" / "endpoint_runner.py")],
                           input=json.dumps({"parent": str(parent), "pkg": pkg, "calls": chunk}), capture_output=True, text=True, timeout=timeout)
        if p.returncode != 0:
            return {"__crash__": p.stderr[-3000:]}
        return json.loads(p.stdout.strip().splitlines()[-1])

    out = {}
    with ThreadPoolExecutor(max_workers=12) as ex:
        for r in ex.map(one, chunks):
            out.update(r)
    return out


def served_spec(how: str, status: int) -> dict:
    ctype, body = SERVED[how]
    return {"status": status, "ctype": ctype, "body_b64": base64.b64encode(body).decode()}


def enumerate_universe(universe: str, max_params: int, scratch_dir: Path, parts: int = 10, max_resp: int = 3):
    def one(part):
        cfg = tlc.write_cfg(scratch_dir / f"ep-{universe}-{part}.cfg", {"Universe": universe, "MaxParams": max_params, "EmitJson": True, "Part": part,
                                                                       "Parts": parts if universe == "request" else 1, "MaxResp": max_resp}, ["E1", "E3", "E4", "Emit"], props=["Terminates"])
        return tlc.run_tlc("EndpointMC.tla", cfg, workers=1, timeout=1800, heap="3g")
    if universe == "response":
        return [one(0)]
    with ThreadPoolExecutor(max_workers=parts) as ex:
        return list(ex.map(one, range(parts)))
