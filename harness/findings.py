"""known_findings.json discipline: open entries print KNOWN-FINDING and do not fail; fixed entries suppress nothing."""
from __future__ import annotations

import fnmatch
import json

from .common import VERIF

_PATH = VERIF / "known_findings.json"


def load() -> list[dict]:
    if not _PATH.exists():
        return []
    return json.loads(_PATH.read_text())["findings"]


def match_open(prop: str, key: str, entries: list[dict] | None = None) -> dict | None:
    for e in entries if entries is not None else load():
        if e.get("status") != "open" or e.get("property") != prop:
            continue
        pat = e["key"]
        if pat == key or (("*" in pat or "?" in pat) and fnmatch.fnmatchcase(key, pat)):
            return e
    return None
