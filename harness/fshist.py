"""FsHistory engine: command histories replayed through the real CLI in a sentinel-filled sandbox, snapshots, traces."""
from __future__ import annotations

import json
import os
import shutil
from pathlib import Path

from . import gen, tlc
from .common import GUARD

S = {"type": "string"}


def _doc(models: list[str], tag: str, op: str, bad: bool = False) -> dict:
    schemas = {m: {"type": "object", "properties": {"v": S}} for m in models}
    if bad:
        schemas["Bad"] = {"type": "array"}
    paths = {f"/{op}": {"get": {"operationId": op, "tags": [tag],
                                 "responses": {"200": {"description": "d", "content": {"application/json": {"schema": {"$ref": f"#/components/schemas/{models[0]}"}}}}}}}}
    return gen.mkdoc(schemas=schemas, paths=paths, title="My Test API")


DOCS = {
    "d1": json.dumps(_doc(["M1"], "t1", "op1")).encode(),
    "d2": json.dumps(_doc(["M2"], "t2", "op2")).encode(),
    "dWarn": json.dumps(_doc(["M1"], "t1", "op1", bad=True)).encode(),
    "dBad": json.dumps({"openapi": "3.0.0", "info": {"title": "My Test API"}}).encode(),
    "dJunk": b'{"openapi": "3.0.0", "info": {{{ not json',
}
HOOKS = {"ok": ["true"], "missing": ["no-such-command-opcv --x"], "fail": ["false"]}
FLAV_FILE = {"poetry": "setup.py", "pdm": "setup.py", "none": "pyproject.toml", "setup": "CHANGELOG.md"}
USERFILES = {"u_top": "USER_NOTES.txt", "u_flav": "{flav}", "u_pkg": "{pkg}/user_helpers.py", "u_models": "{pkg}/models/stale_user.py",
             "u_api": "{pkg}/api/stale_user.py"}


EXTRA_USER = ["CHANGELOG.md", "MANIFEST.in", "setup.cfg", "poetry.lock", "LICENSE"]


class Sandbox:
    """root/work (cwd) with out dir 'out' + sibling sentinels in work and in root."""

    def __init__(self, root: Path, meta: str):
        self.root, self.meta = root, meta
        self.work = root / "work"
        self.work.mkdir(parents=True)
        (root / "ROOT_SENTINEL.txt").write_text("root sentinel")
        (self.work / "sibling").mkdir()
        (self.work / "sibling" / "keep.txt").write_text("sibling sentinel")
        (self.work / "SENTINEL.txt").write_text("work sentinel")
        for k, b in DOCS.items():
            (root / f"{k}.json").write_bytes(b)
        self.out = self.work / "out"
        self.pkg = "" if meta == "none" else "my_test_api_client"
        self.events: list[dict] = []

    def pkgdir(self) -> Path:
        return self.out / self.pkg if self.pkg else self.out

    def userpath(self, key: str) -> Path:
        if key == "sib":
            return self.work / "sibling" / "user_extra.txt"
        rel = USERFILES[key].replace("{flav}", FLAV_FILE[self.meta])
        rel = rel.format(pkg=self.pkg) if self.pkg else rel.replace("{pkg}/", "")
        return self.out / rel

    def snap_all(self) -> dict:
        return gen.snapshot(self.root)

    def touch(self, key: str) -> None:
        p = self.userpath(key)
        p.parent.mkdir(parents=True, exist_ok=True)
        p.write_text(f"user content {key}")
        if key == "u_flav":
            # project-level files that packaging tools know by name and no flavour generates: they are the user's, whatever a template mentions
            for extra in EXTRA_USER:
                q = self.out / extra
                if not q.exists():
                    q.write_text("user content u_flav")
        self.events.append({"ev": "touch", "p": key})

    def run(self, c: dict, tracefile: Path | None = None):
        cfgp = self.root / "cfg.json"
        cfgp.write_text(json.dumps({"post_hooks": HOOKS[c["hk"]]}))
        args = ["generate", "--path", str(self.root / f"{c['doc']}.json"), "--meta", self.meta, "--output-path", str(self.out),
                "--config", str(cfgp)]
        if c["ow"]:
            args.append("--overwrite")
        if c["fow"]:
            args.append("--fail-on-warning")
        self.events.append({"ev": "cmd", "doc": c["doc"], "ow": c["ow"], "fow": c["fow"], "hk": c["hk"]})
        if tracefile is not None:
            open(tracefile, "w").close()
            os.environ[GUARD] = str(tracefile)
        try:
            code, output, exc = gen.cli_inproc(args, self.work)
        finally:
            os.environ.pop(GUARD, None)
        if tracefile is not None:
            for line in open(tracefile, encoding="utf-8"):
                e = json.loads(line)
                if e["ev"] in ("fs", "exit"):
                    e.pop("seq", None)
                    self.events.append(e)
        self.events.append({"ev": "snap", "present": self.abstract_present(), "outdir": self.out.exists()})
        return code, output, exc

    def abstract_present(self) -> list[str]:
        """Project the real tree to FsHistory.tla's artefact paths."""
        out, pk = self.out, self.pkgdir()
        pres = []
        def ex(p): return p.exists()
        if ex(pk / "__init__.py"):
            pres.append("pkg")
        if self.meta != "none" and ex(out / "pyproject.toml"):
            pres.append("meta")
        if self.meta == "none" and ex(pk / "__init__.py"):
            pres.append("meta")       # no metadata files for this flavour: the step is a no-op, the artefact is vacuous
        if ex(pk / "models" / "__init__.py"):
            pres.append("models/init")
        if ex(pk / "api" / "__init__.py"):
            pres.append("api/init")
        if ex(pk / "client.py"):
            pres.append("client")
        for m in ("m1", "m2"):
            if ex(pk / "models" / f"{m}.py"):
                pres.append(f"models/{m}")
        for t in ("t1", "t2"):
            if ex(pk / "api" / t):
                pres.append(f"api/{t}")
        for k in USERFILES:
            if ex(self.userpath(k)):
                pres.append(k)
        if ex(self.userpath("sib")):
            pres.append("sib")
        return sorted(pres)


def fresh_tree(doc_key: str, meta: str, hk: str, scratch: Path) -> dict:
    """Snapshot (rel path -> bytes) of a fresh generation of the document into an empty location."""
    d = scratch / f"fresh-{doc_key}-{meta}-{hk}"
    if d.exists():
        shutil.rmtree(d)
    sb = Sandbox(d, meta)
    sb.run({"doc": doc_key, "ow": False, "fow": False, "hk": hk})
    snap = gen.snapshot(sb.out, content=True)
    shutil.rmtree(d)
    return snap


def validate_traces(events: list[dict], scratch_dir: Path):
    path = scratch_dir / "fs.ndjson"
    path.write_text("\n".join(json.dumps(e) for e in events) + "\n")
    cfg = tlc.write_cfg(scratch_dir / "fstrace.cfg", {"CrashPoints": set(), "MaxCmds": 99, "MaxTouches": 99, "Docs": set(DOCS), "HookKinds": set(HOOKS),
                                                     "Touches": {"u_top", "u_flav", "u_pkg", "u_models", "u_api", "sib"}},
                        ["NoClobber", "Converges", "NoStale", "ExitLaw", "RejectedWritesNothing"], spec="TSpec", post="Post")
    res = tlc.run_tlc("FsTrace.tla", cfg, workers=1, env={"TRACE_FILE": str(path)}, timeout=1200)
    post = [p for p in res.printed if isinstance(p, dict) and "law" in p]
    if not post:
        raise tlc.TlcFailure("FsTrace produced no verdict:\n" + res.out[-3000:])
    v = post[0]
    if v["consumed"] != len(events):
        raise tlc.TlcFailure(f"FsTrace consumed {v['consumed']} of {len(events)} lines:\n" + res.out[-1500:])
    return v, res
