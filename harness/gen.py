"""Drivers of the real generator (in-process; REPO's working tree) and tree snapshots."""
from __future__ import annotations

import contextlib
import hashlib
import io
import json
import os
import signal
import subprocess
import traceback
from pathlib import Path
from typing import Any

from .common import REPO, VENV_PY, ensure_repo_on_path

ensure_repo_on_path()

BASE_DOC = {"openapi": "3.1.0", "info": {"title": "t", "version": "1"}, "paths": {}}


def mkdoc(schemas: dict | None = None, paths: dict | None = None, *, version: str = "3.1.0", title: str = "t",
          components: dict | None = None) -> dict:
    d: dict[str, Any] = {"openapi": version, "info": {"title": title, "version": "1"}, "paths": paths or {}}
    comps = dict(components or {})
    if schemas is not None:
        comps["schemas"] = schemas
    if comps:
        d["components"] = comps
    return d


def make_config(out: Path | str | None = None, meta: str = "none", overwrite: bool = True,
                source: Path | str = Path("x.json"), file_encoding: str = "utf-8", **cf: Any):
    from openapi_python_client.config import Config, ConfigFile, MetaType

    cf.setdefault("post_hooks", [])
    return Config.from_sources(ConfigFile(**cf), MetaType(meta), source, file_encoding, overwrite,
                               Path(out) if out is not None else None)


class Timeout(Exception):
    pass


@contextlib.contextmanager
def time_limit(seconds: int):
    """Hang detection that does not depend on how busy the machine is: the limit is on the CPU time this process consumes (ITIMER_PROF - a
    non-terminating loop burns CPU), with a far larger wall-clock backstop (ITIMER_REAL) for the unlikely blocked-forever case.  A wall-clock
    limit alone turned heavy machine load into `HANG` verdicts (false alarms seen while nine sweeps ran at once)."""
    def h(signum, frame):  # noqa: ARG001
        raise Timeout()

    old_prof = signal.signal(signal.SIGPROF, h)
    old_alrm = signal.signal(signal.SIGALRM, h)
    signal.setitimer(signal.ITIMER_PROF, float(seconds))
    signal.setitimer(signal.ITIMER_REAL, float(max(120, seconds * 30)))
    try:
        yield
    finally:
        signal.setitimer(signal.ITIMER_PROF, 0)
        signal.setitimer(signal.ITIMER_REAL, 0)
        signal.signal(signal.SIGPROF, old_prof)
        signal.signal(signal.SIGALRM, old_alrm)


def parse(doc: Any, limit: int = 20, **cf: Any):
    """GeneratorData.from_dict on the real parser. Returns (data_or_error, exception_text|None)."""
    from openapi_python_client.parser import GeneratorData

    cfg = make_config(out="/nonexistent-opcv", **cf)
    try:
        with time_limit(limit):
            return GeneratorData.from_dict(doc, config=cfg), None
    except Timeout:
        return None, "HANG"
    except Exception:  # noqa: BLE001
        return None, traceback.format_exc(limit=-8)


def diag_list(errors) -> list[dict]:
    out = []
    for e in errors:
        out.append({"level": e.level.value, "header": e.header or "", "detail": e.detail or "",
                    "cls": type(e).__name__})
    return out


def generate(doc: Any, out: Path | str, limit: int = 60, custom_template_path=None, **cf: Any):
    """Parse + Project.build() in-process into `out`. Returns dict(diags=[...], exc=str|None, rejected=bool)."""
    from openapi_python_client import Project
    from openapi_python_client.parser import GeneratorData
    from openapi_python_client.parser.errors import GeneratorError

    cfg = make_config(out=out, **cf)
    buf = io.StringIO()
    try:
        with time_limit(limit), contextlib.redirect_stdout(buf):
            data = GeneratorData.from_dict(doc, config=cfg)
            if isinstance(data, GeneratorError):
                return {"diags": diag_list([data]), "exc": None, "rejected": True}
            errs = Project(openapi=data, config=cfg, custom_template_path=custom_template_path).build()
            return {"diags": diag_list(errs), "exc": None, "rejected": False}
    except Timeout:
        return {"diags": [], "exc": "HANG", "rejected": False}
    except Exception:  # noqa: BLE001
        return {"diags": [], "exc": traceback.format_exc(limit=-10), "rejected": False}


def snapshot(root: Path | str, content: bool = False) -> dict[str, Any]:
    """relative path -> sha256 (or bytes) for every file under root; directories as path/ -> 'dir'."""
    root = Path(root)
    snap: dict[str, Any] = {}
    if not root.exists():
        return snap
    for p in sorted(root.rglob("*")):
        rel = str(p.relative_to(root))
        if "__pycache__" in p.parts or ".ruff_cache" in p.parts:
            continue
        if p.is_dir():
            snap[rel + "/"] = "dir"
        else:
            b = p.read_bytes()
            snap[rel] = b if content else hashlib.sha256(b).hexdigest()
    return snap


def cli(args: list[str], cwd: Path | str, env: dict | None = None, timeout: int = 120):
    """Run the real CLI in a subprocess (true exit code, stdout, stderr)."""
    e = dict(os.environ)
    e["PYTHONPATH"] = str(REPO)
    e.update(env or {})
    try:
        r = subprocess.run([VENV_PY, "-m", "openapi_python_client", *args], cwd=str(cwd), capture_output=True,
                           text=True, timeout=timeout, env=e)
        return r.returncode, r.stdout, r.stderr
    except subprocess.TimeoutExpired:
        return -999, "", "HANG"


def cli_inproc(args: list[str], cwd: Path | str):
    """Run the CLI through typer's runner, in-process (fast). Returns (exit_code, output, exception_text)."""
    from typer.testing import CliRunner

    from openapi_python_client.cli import app

    old = os.getcwd()
    os.chdir(cwd)
    try:
        r = CliRunner().invoke(app, args, catch_exceptions=True)
    finally:
        os.chdir(old)
    exc = None
    if r.exception is not None and not isinstance(r.exception, SystemExit):
        exc = "".join(traceback.format_exception(type(r.exception), r.exception, r.exception.__traceback__, limit=8))
    return r.exit_code, r.output, exc


def dump(doc: Any, path: Path | str) -> Path:
    path = Path(path)
    path.write_text(json.dumps(doc), encoding="utf-8")
    return path
