"""MediaType engine: every media type of MediaType.tla's universe written into a real document (a response and a request body per media type,
content_type_overrides for the overridden ones), classified by the real parser; the REAL outcomes are judged by TLC (MediaTypeTrace.tla:
operational conformance = drift, laws M1/M2 for responses and M4 for bodies = violations) and the Content-Type is compared with the string
as written."""
from __future__ import annotations

import json
import re
from pathlib import Path

from . import gen, tlc

S = {"type": "string"}
PARAM = {"none": "", "charset": "; charset=utf-8", "version": ";version=2"}
PARAM_CAP = {"charset": "; chArset=utf-8", "version": ";Version=2"}
TARGET = {"json": "application/json", "octet": "application/octet-stream"}


def spell(m: dict) -> str:
    top = "*" if m["top"] == "star" else m["top"]
    sub = "*" if m["sub"] == "star" else m["sub"]
    if m["cap"] == "type":
        if top != "*":
            top = top[0].upper() + top[1:]
        elif sub != "*":
            sub = sub[0].upper() + sub[1:]
        else:
            return ""            # */* has no letter to capitalise: not concretisable
    par = PARAM_CAP[m["param"]] if m["cap"] == "param" else PARAM[m["param"]]
    return f"{top}/{sub}{par}"


def enumerate_cases(d: Path):
    cfg = tlc.write_cfg(d / "mediatype.cfg", {}, ["M1", "M2", "M3", "M4", "Emit"])
    res = tlc.run_tlc("MediaTypeMC.tla", cfg, workers=1, timeout=900, extra=["-continue"])
    if res.violated:
        raise tlc.TlcFailure(f"MediaType.tla: {res.violated} violated on the model\n{res.counterexample[:1200]}")
    cases = [c for c in res.printed if isinstance(c, dict) and "declbody" in c]
    if len(cases) < 1500:
        raise tlc.TlcFailure(f"MediaTypeMC emitted only {len(cases)} cases")
    return res, cases


def observe(d: Path):
    res, cases = enumerate_cases(d)
    cases = [c for c in cases if spell(c["m"])]
    # one document (and one configuration) per (override target, where the capital is): the overrides of a configuration are keyed by exactly the
    # strings of its own group, so a capitalised key has no lower-case twin next to it
    for ovr, cap in [(o, k) for o in ("none", "json", "octet") for k in ("none", "type", "param")]:
        mine = [c for c in cases if c["m"]["ovr"] == ovr and c["m"]["cap"] == cap]
        # two media types that are written identically (the capital lands on the same letter) are one document key
        paths, overrides = {}, {}
        for n, c in enumerate(mine):
            mt = spell(c["m"])
            c["mt"] = mt
            schema = {"type": "string", "format": "binary"} if c["source"] == "bytes" else S
            paths[f"/r{n}"] = {"get": {"operationId": f"r{n}", "tags": ["t"], "responses": {"200": {"description": "d", "content": {mt: {"schema": schema}}}}}}
            paths[f"/b{n}"] = {"post": {"operationId": f"b{n}", "tags": ["t"], "requestBody": {"content": {mt: {"schema": {"$ref": "#/components/schemas/M"}}}},
                                        "responses": {"204": {"description": "d"}}}}
            if ovr != "none":
                overrides[mt] = TARGET[ovr]
        doc = gen.mkdoc(schemas={"M": {"type": "object", "properties": {"a": S}}}, paths=paths)
        data, exc = gen.parse(doc, limit=120, **({"content_type_overrides": overrides} if overrides else {}))
        if exc is not None or data is None or not hasattr(data, "endpoint_collections_by_tag"):
            for c in mine:
                c["real"] = {"error": (exc or str(getattr(data, "detail", "")))[-300:]}
            continue
        eps, diag = {}, {}
        for col in data.endpoint_collections_by_tag.values():
            for e in col.endpoints:
                eps[e.name] = e
            for er in col.parse_errors:
                diag.setdefault((er.header or ""), []).append(er.detail or "")
        def warn_of(opid: str) -> str:
            return " | ".join(x for h, ds in diag.items() if re.search(rf"/{opid}(\W|$)", h) for x in ds)
        for n, c in enumerate(mine):
            r, b = eps.get(f"r{n}"), eps.get(f"b{n}")
            real = {}
            if r is None:
                real["source"] = "endpoint-missing"
            else:
                rs = [x for x in r.responses if int(x.status_code) == 200]
                attr = rs[0].source["attribute"] if rs else None
                real["source"] = {"response.json()": "json", "response.text": "text", "response.content": "bytes"}.get(attr, "unsupported" if not rs else f"other:{attr}")
                real["response_named"] = bool(rs) or c["mt"].split(";")[0].strip().lower() in warn_of(f"r{n}").lower() or "200" in warn_of(f"r{n}")
            if b is None or not b.bodies:
                w = warn_of(f"b{n}")
                real["body"] = "invalid" if "Invalid content type" in w else ("unsupported" if "Unsupported content type" in w or b is None or not b.bodies else "?")
                real["body_warning"] = w[:160]
            else:
                real["body"] = b.bodies[0].body_type.value
                real["content_type"] = b.bodies[0].content_type
            c["real"] = real
    return res, cases


def judge(rep, prop: str, d: Path) -> None:
    """prop = C04: responses (M1, M2); prop = C03: request bodies (M4) and the Content-Type as written."""
    sub = d / "mediatype"
    sub.mkdir(exist_ok=True)
    res, cases = observe(sub)
    rep.tlc(res)
    trace = []
    for c in cases:
        r = c.get("real", {})
        if "error" in r:
            rep.violate(f"{prop}/media-types/document-not-parsed/{c['m']['ovr']}", f"the media-type document ({c['m']['ovr']}) did not parse: {r['error']}")
            return
        src = r["source"] if r["source"] in ("json", "text", "bytes", "unsupported") else "unsupported"
        body = r["body"] if r["body"] in ("json", "data", "files", "content", "invalid", "unsupported") else "unsupported"
        trace.append({"tid": len(trace) + 1, "m": c["m"], "source": src, "body": body})
        rep.count(1, (prop, "media-type", c["mt"], c["m"]["ovr"]))
    good = next(i for i, e in enumerate(trace) if e["source"] == "json")
    corrupted = dict(trace[good], tid=len(trace) + 1, source="text")
    path = sub / "mediatype.ndjson"
    path.write_text("\n".join(json.dumps(e) for e in trace + [corrupted]) + "\n")
    tres = tlc.run_tlc("MediaTypeTrace.tla", "MediaTypeTrace.cfg", workers=1, env={"TRACE_FILE": str(path)}, timeout=900)
    rep.tlc(tres)
    post = [x for x in tres.printed if isinstance(x, dict) and "nonconforming" in x]
    if not post or post[0]["consumed"] != len(trace) + 1:
        raise tlc.TlcFailure("MediaTypeTrace did not consume the observations")
    if corrupted["tid"] not in set(post[0]["nonconforming"]) or corrupted["tid"] not in set(post[0]["lawR"]):
        raise tlc.TlcFailure("binding self-test failed: MediaTypeTrace accepted a corrupted observation")
    rep.traces += len(trace)
    bytid = {e["tid"]: (e, c) for e, c in zip(trace, cases)}
    for t in [x for x in post[0]["nonconforming"] if x in bytid][:12]:
        e, c = bytid[t]
        rep.drifted(mode="mediatype", media_type=c["mt"], override=c["m"]["ovr"], model={"source": c["source"], "body": c["body"]}, real={"source": e["source"], "body": e["body"]})
    extra = len([x for x in post[0]["nonconforming"] if x in bytid]) - 12
    if extra > 0:
        rep.extra["spec_drift"] = rep.extra.get("spec_drift", 0) + extra
    if prop == "C04":
        for t in post[0]["lawR"]:
            if t in bytid:
                e, c = bytid[t]
                rep.violate(f"C04/media-type-class/{c['mt']}/ovr={c['m']['ovr']}/{e['source']}", f"a response documented as {c['mt']!r}" + (f" (overridden to {TARGET[c['m']['ovr']]})" if c["m"]["ovr"] != "none" else "")
                            + f" is a {c['decl']} media type but is decoded as {e['source']}", media_type=c["mt"], case=c["m"], real=c["real"])
    if prop == "C03":
        for t in post[0]["lawB"]:
            if t in bytid:
                e, c = bytid[t]
                rep.violate(f"C03/body-media-type-class/{c['mt']}/ovr={c['m']['ovr']}/{e['body']}", f"a request body declared as {c['mt']!r}" + (f" (overridden to {TARGET[c['m']['ovr']]})" if c["m"]["ovr"] != "none" else "")
                            + f" is a {c['declbody']} body but is sent as {e['body']}", media_type=c["mt"], case=c["m"], real=c["real"])
        for c in cases:
            r = c["real"]
            if "content_type" in r and r["content_type"] != c["mt"]:
                rep.violate(f"C03/content-type-not-as-written/{c['mt']}", f"declared media type {c['mt']!r} is sent as Content-Type {r['content_type']!r}", case=c["m"])
    rep.sample({"media_type": cases[5]["mt"], "model": {"source": cases[5]["source"], "body": cases[5]["body"], "declared_class": cases[5]["decl"]}})
