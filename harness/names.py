"""Token <-> character table shared by Names.tla and the Python side, identifier oracles, failure classification."""
from __future__ import annotations

import keyword
import re
import unicodedata

TOK = {"LE": "é", "UE": "É", "SQ2": "²", "FWA": "ａ", "FWUA": "Ａ", "AD": "١",
       "BSL": "\\", "DQ": '"', "BN": "\u09f4", "CM": "\u0301"}
CHR = {v: k for k, v in TOK.items()}
_W = re.compile(r"\w")


def conc(tokens) -> str:
    return "".join(TOK.get(t, t) for t in tokens)


def abst(s: str) -> list[str]:
    return [CHR.get(c, c) for c in s]


def valid_ident(n: str) -> bool:
    return isinstance(n, str) and n.isidentifier() and not keyword.iskeyword(n)


def norm(n: str) -> str:
    return unicodedata.normalize("NFKC", n)


def why_invalid(n: str) -> str:
    """Canonical reason class for a derived name that is not a valid non-keyword identifier."""
    if n == "":
        return "empty"
    if keyword.iskeyword(n):
        return "keyword"
    reasons = set()
    for i, c in enumerate(n):
        ok = c.isidentifier() if i == 0 else ("a" + c).isidentifier()
        if ok:
            continue
        if c in ". -":
            reasons.add("delimiter-kept")
        elif _W.match(c) and not ("a" + c).isidentifier():
            reasons.add("w-not-xid")
        elif i == 0 and ("a" + c).isidentifier():
            reasons.add("bad-start")
        else:
            reasons.add("cat-" + unicodedata.category(c))
    return "+".join(sorted(reasons)) or "unknown"


def signature(c: str) -> tuple:
    """The 13 predicates the generator / Python evaluate on one character (DESIGN §2)."""
    return (bool(_W.match(c)), c in ". _-", "A" <= c <= "Z", "a" <= c <= "z", c.isupper(), c.islower(),
            ("a" + c).isidentifier(), c.isidentifier(), unicodedata.normalize("NFKC", c) != c, c.lower() != c,
            c.upper() != c, len(c.lower()) > 1 or len(c.upper()) > 1, c.capitalize() != c.upper())


SIG_NAMES = ["w", "delim", "AZ", "az", "isupper", "islower", "xcont", "xstart", "nfkc", "lower!=", "upper!=", "multi",
             "cap!=upper"]
