"""C17 support: spellings of Notation.tla <-> concrete schemas, documents holding a spelling at every position class, projection of the real
property back to the model's descriptor, carriers (JSON/YAML x path/URL) for the loader leg."""
from __future__ import annotations

import copy
import http.server
import json
import re
import threading
from pathlib import Path

from . import gen, tlc

S = {"type": "string"}
ENUMV = {"a": "a", "b": "b", "NULL": None, "i1": 1, "i2": 2}
COMPONENTS = {
    "M": {"type": "object", "description": "The M model.", "example": {"m": "em"}, "properties": {"m": S}, "required": ["m"]},
    "N": {"type": "object", "description": "The N model.", "properties": {"n": {"type": "integer"}}, "required": ["n"]},
    "E": {"type": "string", "enum": ["x", "y"], "description": "The E enum.", "example": "x"},
    "D": {"type": "object", "description": "A model with an inline nested object.", "properties": {"deep": {"type": "object", "properties": {"z": {"type": "string"}}}}},
}
POSITIONS = ["prop", "req", "items", "addl", "param", "body", "resp", "comp", "member", "allof", "toparray", "topunion"]


def show(s: dict) -> str:
    if s["ref"]:
        return "$" + s["ref"]
    o = []
    if s["ts"]:
        o.append("type=" + ("(" + ",".join(s["ts"]) + ")" if s["tl"] else s["ts"][0]))
    if s["nul"]:
        o.append("nullable")
    if s["en"]:
        o.append("enum(" + ",".join(s["en"]) + ")")
    for k in ("one", "any", "all"):
        if s[k]:
            o.append(k + "Of(" + ", ".join(show(x) for x in s[k]) + ")")
    if s["props"]:
        o.append("props")
    if s["fmt"]:
        o.append(s["fmt"])
    if s.get("df"):
        o.append("default")
    return "{" + " ".join(o) + "}"


def show_d(x: dict) -> str:
    return x["k"] + "".join(map(str, x["p"])) + ("(" + ",".join(show_d(m) for m in x["m"]) + ")" if x["m"] else "") + ("=" + ",".join(x["v"]) if x["v"] else "")


def concretize(s: dict) -> dict:
    if s["ref"]:
        return {"$ref": "#/components/schemas/" + s["ref"]}
    o: dict = {}
    if s["ts"]:
        o["type"] = list(s["ts"]) if s["tl"] else s["ts"][0]
    if s["nul"]:
        o["nullable"] = True
    if s["en"]:
        o["enum"] = [ENUMV[v] for v in s["en"]]
    for k, key in (("one", "oneOf"), ("any", "anyOf"), ("all", "allOf")):
        if s[k]:
            o[key] = [concretize(x) for x in s[k]]
    if s["fmt"]:
        o["format"] = s["fmt"]
    if s["props"]:
        o["properties"] = {"inner": S}
    if "array" in s["ts"]:
        o["items"] = S
    if s.get("df"):
        o["default"] = _default_value(s)
    return o


def _default_value(s: dict):
    """A value of the spelling's type: 1 where an integer is admitted, a date for dates, "a" for strings and string enums."""
    if "integer" in s["ts"] or "i1" in s["en"]:
        return 1
    if s["fmt"] == "date":
        return "2020-01-02"
    for m in s["one"] + s["any"] + s["all"]:
        v = _default_value(m)
        if v != "a":
            return v
    return "a"


def describable(s: dict) -> bool:
    subs = s["one"] + s["any"] + s["all"]
    return not s["ref"] and not any(x["ref"] for x in subs)


def is_bare_ref(s: dict) -> bool:
    return bool(s["ref"])


def document(s: dict, positions=POSITIONS, version: str = "3.1.0", comp: bool = True, describe: bool = False) -> dict:
    """One document holding the spelling at every requested position class."""
    t = concretize(s)
    # what the schema is for travels with it at its outermost level (a bare reference cannot carry siblings, a wrapper of one reference documents the
    # reference's target: neither is described)
    if describe and "$ref" not in t:          # decided on the spelling the rewrites started from (describable), the same for all its rewrites
        t["description"] = "What this value is for."
    schemas = copy.deepcopy(COMPONENTS)
    holder: dict = {"type": "object", "properties": {"anchor": S}, "required": []}
    if "prop" in positions:
        holder["properties"]["p_prop"] = copy.deepcopy(t)
    if "req" in positions:
        holder["properties"]["p_req"] = copy.deepcopy(t)
        holder["required"].append("p_req")
    if "items" in positions:
        holder["properties"]["p_items"] = {"type": "array", "items": copy.deepcopy(t)}
    if "addl" in positions:
        schemas["Bag"] = {"type": "object", "additionalProperties": copy.deepcopy(t)}
    if "member" in positions:
        holder["properties"]["p_member"] = {"oneOf": [copy.deepcopy(t), {"type": "integer"}]}
    if "comp" in positions and comp and not is_bare_ref(s):
        schemas["Tgt"] = copy.deepcopy(t)
        holder["properties"]["p_comp"] = {"$ref": "#/components/schemas/Tgt"}
    if "toparray" in positions:          # a component that is an array of the spelling, used by a property
        schemas["TopArr"] = {"type": "array", "items": copy.deepcopy(t)}
        holder["properties"]["p_toparr"] = {"$ref": "#/components/schemas/TopArr"}
    if "topunion" in positions:          # a component that is a union with the spelling as a member
        schemas["TopUni"] = {"oneOf": [copy.deepcopy(t), {"type": "integer"}]}
        holder["properties"]["p_topuni"] = {"$ref": "#/components/schemas/TopUni"}
    if "allof" in positions:
        schemas["Child"] = {"allOf": [{"$ref": "#/components/schemas/N"}, {"type": "object", "properties": {"p_inh": copy.deepcopy(t)}}]}
    if not holder["required"]:
        del holder["required"]
    schemas["Holder"] = holder
    paths = {}
    op: dict = {"operationId": "theOp", "tags": ["t"], "responses": {"200": {"description": "ok"}}}
    if "param" in positions:
        op["parameters"] = [{"name": "q", "in": "query", "schema": copy.deepcopy(t)}]
    if "body" in positions:
        op["requestBody"] = {"content": {"application/json": {"schema": copy.deepcopy(t)}}}
    if "resp" in positions:
        op["responses"]["200"]["content"] = {"application/json": {"schema": copy.deepcopy(t)}}
    paths["/op"] = {"post": op}
    return gen.mkdoc(schemas, paths, version=version)


# ---------------------------------------------------------------- projection of the real property to the model's descriptor
def _path(name: str, root: str) -> list[int]:
    rest = name[len(root):] if name.startswith(root) else name
    return [int(x) for x in re.findall(r"_type_(\d+)", rest)]


def project(prop, root: str = "p") -> dict:
    n = type(prop).__name__
    p = _path(prop.name, root)
    d = {"k": "?", "p": p, "m": [], "v": [], "df": getattr(prop, "default", None) is not None and n != "NoneProperty"}
    if n == "UnionProperty":
        d["k"] = "union"
        d["m"] = [dict(project(x, root), df=False) for x in prop.inner_properties]          # members' defaults are never used
        return d
    if n in ("EnumProperty", "LiteralEnumProperty"):
        cname = str(prop.class_info.name)
        if cname in COMPONENTS:
            d["k"], d["v"] = "ref", [cname]
        else:
            vals = list(prop.values.values()) if isinstance(prop.values, dict) else sorted(prop.values, key=str)
            inv = {v: k for k, v in ENUMV.items() if v is not None}
            d["k"], d["v"] = "enum", [inv.get(v, str(v)) for v in vals]
        return d
    if n == "ModelProperty":
        cname = str(prop.class_info.name)
        if cname in COMPONENTS:
            d["k"], d["v"] = "ref", [cname]
        else:
            d["k"] = "model"
            names = {q.name for q in list(prop.required_properties or []) + list(prop.optional_properties or [])}
            d["v"] = [src for src, pn in (("M", "m"), ("N", "n"), ("D", "deep"), ("props", "inner")) if pn in names]
        return d
    d["k"] = {"NoneProperty": "none", "StringProperty": "str", "DateProperty": "date", "IntProperty": "int", "FloatProperty": "num", "BooleanProperty": "bool",
              "ListProperty": "list", "AnyProperty": "any"}.get(n, n)
    return d


def real_outcome(s: dict, literal_enums: bool = False) -> dict:
    """property_from_data of the real parser on the spelling (name `p` inside a parent `Holder`), with M, N, E already parsed."""
    from openapi_python_client import schema as oai
    from openapi_python_client.parser.properties import Schemas, build_schemas, property_from_data

    cfg = gen.make_config(out="/nonexistent-opcv", literal_enums=literal_enums)
    comps = {k: oai.Schema.model_validate(v) for k, v in COMPONENTS.items()}
    schemas = build_schemas(components=comps, schemas=Schemas(), config=cfg)
    t = concretize(s)
    data = oai.Reference.model_validate(t) if "$ref" in t else oai.Schema.model_validate(t)
    try:
        with gen.time_limit(20):
            prop, _ = property_from_data(name="p", required=True, data=data, schemas=schemas, parent_name="Holder", config=cfg)
    except Exception as e:  # noqa: BLE001
        return {"k": "crash:" + type(e).__name__, "p": [], "m": [], "v": [], "df": False}
    if type(prop).__name__ == "PropertyError":
        return {"k": "err", "p": [], "m": [], "v": [], "df": False}
    d = project(prop)
    if d["k"] == "union" and not d["p"]:
        pass
    return d


def family(cur: dict) -> str:
    """wrapper-of-wrapper: a single-member composition whose only member is itself a pure single-reference wrapper."""
    def pure(s):
        mem = s["all"] + s["any"] + s["one"]
        return not s["ref"] and len(mem) == 1 and bool(mem[0]["ref"])

    def walk(s):
        if s["ref"]:
            return False
        mem = s["all"] + s["any"] + s["one"]
        if len(mem) == 1 and pure(mem[0]):
            return True
        return any(walk(m) for m in mem)
    return "wrapper-of-wrapper" if walk(cur) else "rewrite"


def enumerate_pairs(max_steps: int, double_wrap: bool, workdir: Path):
    cfg = tlc.write_cfg(workdir / f"notation{int(double_wrap)}.cfg", {"MaxSteps": max_steps, "DoubleWrap": bool(double_wrap)},
                        ["Emit", "Equiv", "N1Identity"], view="View")
    res = tlc.run_tlc("NotationMC.tla", cfg, workers=1, extra=["-continue"], timeout=1200)
    return res


# ---------------------------------------------------------------- carriers (loader leg)
def to_yaml(doc, flow: bool = False, explicit_start: bool = False) -> bytes:
    import io

    from ruamel.yaml import YAML

    y = YAML(typ="safe", pure=True)
    y.default_flow_style = flow
    y.sort_base_mapping_type_on_output = False       # key order is content (property order), not notation
    y.explicit_start = explicit_start
    y.width = 100000 if flow else 120
    buf = io.BytesIO()
    y.dump(doc, buf)
    return buf.getvalue()


def serialise(doc, ser: str) -> bytes:
    if ser == "json":
        return json.dumps(doc).encode()
    if ser == "json_pretty":
        return json.dumps(doc, indent=2, ensure_ascii=False).encode()
    if ser == "json_tabs":
        return json.dumps(doc, indent="\t").encode()
    if ser == "json_ascii_escapes":
        return json.dumps(doc, ensure_ascii=True, separators=(",", ":")).encode()
    if ser == "yaml_block":
        return to_yaml(doc)
    if ser == "yaml_flow":
        return to_yaml(doc, flow=True)
    if ser == "yaml_start":
        return to_yaml(doc, explicit_start=True)
    raise KeyError(ser)


class Loopback:
    """http.server on 127.0.0.1 serving registered byte strings with a chosen Content-Type header."""

    def __init__(self):
        self.table: dict[str, tuple[bytes, str | None]] = {}
        table = self.table

        class H(http.server.BaseHTTPRequestHandler):
            def do_GET(self):  # noqa: N802
                ent = table.get(self.path)
                if ent is None:
                    self.send_response(404)
                    self.end_headers()
                    return
                body, ct = ent
                self.send_response(200)
                if ct is not None:
                    self.send_header("Content-Type", ct)
                self.send_header("Content-Length", str(len(body)))
                self.end_headers()
                self.wfile.write(body)

            def log_message(self, *a):  # noqa: ARG002
                pass

        self.srv = http.server.ThreadingHTTPServer(("127.0.0.1", 0), H)
        self.port = self.srv.server_address[1]
        self.th = threading.Thread(target=self.srv.serve_forever, daemon=True)
        self.th.start()

    def put(self, path: str, body: bytes, ct: str | None) -> str:
        self.table[path] = (body, ct)
        return f"http://127.0.0.1:{self.port}{path}"

    def close(self):
        self.srv.shutdown()
        self.srv.server_close()
