"""Ops engine: TLC enumeration of abstract operations (Ops.tla), concretisation, real-parser replay, projection."""
from __future__ import annotations

import multiprocessing as mp
from concurrent.futures import ThreadPoolExecutor

from . import gen, tlc
from .common import NCPU

BODIES = ["none", "json", "form", "multi", "octet", "json+unsup", "unsup", "badschema", "json+badschema", "noschema", "json+mpjson",
          "ref", "refchain", "refcycle", "refdangling"]
LAWS = ["Census", "Containment", "Downgrades", "Precedence", "RefTransparent"]
S = {"type": "string"}
MODEL = {"$ref": "#/components/schemas/Model"}
BADSCHEMA = {"type": "array"}          # array without items


def conc_param(p: dict) -> dict:
    how, n, loc = p["how"], p["n"], p["loc"]
    if how == "ref":
        return {"$ref": "#/components/parameters/AQuery"}
    if how == "dangling":
        return {"$ref": "#/components/parameters/Nope"}
    d = {"name": n, "in": loc, "required": loc == "path" or how == "ok" and loc == "path"}
    if how == "ok":
        d["schema"] = S
        d["required"] = loc == "path"
    elif how == "badschema":
        d["schema"] = BADSCHEMA
    elif how == "optional":
        d["schema"] = S
        d["required"] = False
    elif how == "badloc":
        d["schema"] = {"type": "array", "items": S}
    elif how == "noschema":
        d["content"] = {"application/json": {"schema": S}}
    return d


def conc_body(b: str):
    js = {"schema": MODEL}
    obj = {"schema": {"type": "object", "properties": {"f": S}}}
    table = {
        "json": {"content": {"application/json": js}},
        "form": {"content": {"application/x-www-form-urlencoded": obj}},
        "multi": {"content": {"multipart/form-data": obj}},
        "octet": {"content": {"application/octet-stream": {"schema": {"type": "string", "format": "binary"}}}},
        "json+unsup": {"content": {"application/json": js, "application/xml": js}},
        "unsup": {"content": {"application/xml": js}},
        "badschema": {"content": {"application/json": {"schema": BADSCHEMA}}},
        "json+badschema": {"content": {"application/vnd.x+json": {"schema": BADSCHEMA}, "application/json": js}},
        "noschema": {"content": {"application/json": {}}},
        "json+mpjson": {"content": {"application/json": js, "application/merge-patch+json": {"schema": {"type": "object", "properties": {"patch": S}}}}},
        "ref": {"$ref": "#/components/requestBodies/Good"},
        "refchain": {"$ref": "#/components/requestBodies/Chain"},
        "refcycle": {"$ref": "#/components/requestBodies/CycA"},
        "refdangling": {"$ref": "#/components/requestBodies/Nope"},
    }
    return table.get(b)


def conc_resp(r: dict) -> dict:
    how = r["how"]
    if how == "model":
        return {"description": "d", "content": {"application/json": {"schema": MODEL}}}
    if how == "text":
        return {"description": "d", "content": {"text/plain": {"schema": S}}}
    if how == "none":
        return {"description": "d"}
    if how == "ref":
        return {"$ref": "#/components/responses/Good"}
    if how == "bad":
        return {"description": "d", "content": {"application/json": {"schema": BADSCHEMA}}}
    if how == "badkey":
        return {"description": "d", "content": {"application/json": {"schema": MODEL}}}
    if how == "unsup":
        return {"description": "d", "content": {"application/xml": {"schema": MODEL}}}
    if how == "dangling":
        return {"$ref": "#/components/responses/Nope"}
    raise ValueError(how)


COMPONENTS = {
    "schemas": {"Model": {"type": "object", "properties": {"v": {"type": "integer"}}}},
    "parameters": {"AQuery": {"name": "a", "in": "query", "schema": S}},
    "requestBodies": {"Good": {"content": {"application/json": {"schema": MODEL}}},
                      "Chain": {"$ref": "#/components/requestBodies/Good"},
                      "CycA": {"$ref": "#/components/requestBodies/CycB"}, "CycB": {"$ref": "#/components/requestBodies/CycA"}},
    "responses": {"Good": {"description": "d", "content": {"application/json": {"schema": MODEL}}}},
}


def inline_op(op: dict, sites: set | None = None) -> dict:
    """The operation with reference sites (all, or the given subset of {'param','piparam','body','resp'}) written inline."""
    import copy
    o = copy.deepcopy(op)
    sites = sites or {"param", "piparam", "body", "resp"}
    if "param" in sites:
        for p in o["ps"]:
            if p["how"] == "ref":
                p["how"] = "ok"
    if "piparam" in sites:
        for p in o["pips"]:
            if p["how"] == "ref":
                p["how"] = "ok"
    if "body" in sites and o["body"] in ("ref", "refchain"):
        o["body"] = "json"
    if "resp" in sites:
        for r in o["rs"]:
            if r["how"] == "ref":
                r["how"] = "model"
    return o


def ref_sites(op: dict) -> set:
    s = set()
    if any(p["how"] == "ref" for p in op["ps"]):
        s.add("param")
    if any(p["how"] == "ref" for p in op["pips"]):
        s.add("piparam")
    if op["body"] in ("ref", "refchain"):
        s.add("body")
    if any(r["how"] == "ref" for r in op["rs"]):
        s.add("resp")
    return s


# a first operation that uses the same components in a CONFLICTING context (path parameter `a` next to the shared query `a`)
def context_paths(inline: bool) -> dict:
    aq = {"name": "a", "in": "query", "schema": S} if inline else {"$ref": "#/components/parameters/AQuery"}
    body = conc_body("json") if inline else {"$ref": "#/components/requestBodies/Good"}
    resp = conc_resp({"how": "model"}) if inline else {"$ref": "#/components/responses/Good"}
    return {"/ctx/{a}": {"put": {"operationId": "ctxOp", "parameters": [{"name": "a", "in": "path", "required": True, "schema": S}, aq],
                                 "requestBody": body, "responses": {"200": resp}}}}


def path_of(op: dict) -> str:
    return "/x/{id}" if op["pathvar"] else "/x"


def concretize(op: dict, method: str = "post", extra_paths: dict | None = None) -> dict:
    o = {"operationId": "theOp", "responses": {r["key"]: conc_resp(r) for r in op["rs"]}}
    if op["ps"]:
        o["parameters"] = [conc_param(p) for p in op["ps"]]
    b = conc_body(op["body"])
    if b is not None:
        o["requestBody"] = b
    item = {method: o}
    if op["pips"]:
        item["parameters"] = [conc_param(p) for p in op["pips"]]
    paths = dict(extra_paths or {})
    paths[path_of(op)] = item
    import copy
    return gen.mkdoc(paths=paths, components=copy.deepcopy(COMPONENTS))


def project(data, op: dict, method: str = "post") -> dict:
    path = path_of(op)
    col = data.endpoint_collections_by_tag.get("default")
    eps = [e for e in (col.endpoints if col else []) if e.method == method and e.name == "theOp"]
    texts = []
    for e in (col.parse_errors if col else []):
        texts.append((e.header or "") + "\n" + (e.detail or "") + "\n" + (repr(e.data) if e.data is not None else ""))
    out = {"generated": bool(eps), "texts": texts, "named": any(f"{method.upper()} {path}" in t for t in texts),
           "schema_errors": len(data.errors)}
    if eps:
        e = eps[0]
        out["handled"] = sorted(str(int(r.status_code)) for r in e.responses)
        out["btypes"] = sorted({str(b.body_type.value) for b in e.bodies})
        out["bmedia"] = sorted(str(b.content_type) for b in e.bodies)
        out["params"] = sorted((p.name, loc.value) for loc, p in e.iter_all_parameters())
    return out


def warned_status(texts: list[str], key: str) -> bool:
    return any(f"status code {key}" in t for t in texts)


def warned_media(texts: list[str], m: str) -> bool:
    return any(m in t for t in texts)


def enumerate_ops(max_params: int, max_resps: int, scratch_dir, bodies=None, parts: int = 12, timeout: int = 1800):
    consts = {"MaxParams": max_params, "MaxResps": max_resps, "Parts": parts, "EmitJson": True, "Bodies": set(bodies or BODIES)}

    def one(part):
        cfg = tlc.write_cfg(scratch_dir / f"ops-{part}.cfg", {**consts, "Part": part}, LAWS + ["Emit"],
                            props=["Terminates", "Progress"])
        return tlc.run_tlc("OpsMC.tla", cfg, workers=1, timeout=timeout, heap="3g")

    with ThreadPoolExecutor(max_workers=min(parts, 14)) as ex:
        return list(ex.map(one, range(parts)))


_HANGS = mp.Value("i", 0)


def _replay_one(op):
    if _HANGS.value >= 3:
        return {"exc": "SKIPPED after 3 hangs"}
    doc = concretize(op)
    data, exc = gen.parse(doc, limit=4)
    if exc == "HANG":
        with _HANGS.get_lock():
            _HANGS.value += 1
    if exc is not None or data is None:
        return {"exc": exc or "rejected"}
    from openapi_python_client.parser.errors import GeneratorError
    if isinstance(data, GeneratorError):
        return {"exc": "REJECTED: " + (data.detail or "")[:300]}
    return project(data, op)


def replay_many(ops: list[dict]) -> list[dict]:
    _HANGS.value = 0
    if len(ops) < 2000:
        return [_replay_one(o) for o in ops]
    with mp.get_context("fork").Pool(NCPU - 2) as pool:
        return pool.map(_replay_one, ops, chunksize=500)
