"""ParamWire engine: parameters x value classes of ParamWire.tla -> one operation per parameter, generated under both enum styles, every
atom sent through the real generated function (sync_detailed and asyncio_detailed) against httpx.MockTransport; laws W1 (C11), W2 (C03),
W3 (C10) evaluated on the REAL outcomes; model prediction compared (drift) and the observations re-validated by ParamWireTrace.tla."""
from __future__ import annotations

import json
import subprocess
from pathlib import Path

from . import gen, tlc
from .common import VENV_PY, VERIF

S = {"type": "string"}
KIND_SCHEMA = {"str": S, "int": {"type": "integer"}, "float": {"type": "number"}, "bool": {"type": "boolean"},
               "enum": {"type": "string", "enum": ["a", "b"]}, "enumi": {"type": "integer", "enum": [1, 2]},
               "date": {"type": "string", "format": "date"}, "datetime": {"type": "string", "format": "date-time"}, "uuid": {"type": "string", "format": "uuid"},
               "list": {"type": "array", "items": S}, "listint": {"type": "array", "items": {"type": "integer"}},
               "listenum": {"type": "array", "items": {"type": "string", "enum": ["a", "b"]}},
               "null": {"type": "null"}, "any": {}, "const": {"const": "k"}, "uis": {"oneOf": [{"type": "integer"}, S]},
               "model": {"type": "object", "properties": {"a": S}}}
RECOVERABLE = {"canon", "pycap", "spacedt", "spread", "json", "filepart"}
BODY_CT = {"form": "application/x-www-form-urlencoded", "multipart": "multipart/form-data"}
LAWS = ["W1", "W2", "W3", "KnownExact", "Emit"]


def pkey(p: dict) -> tuple:
    return (p["loc"], p["kind"], p["req"], p["nul"])


def enumerate_cases(scratch_dir: Path):
    cfg = tlc.write_cfg(scratch_dir / "paramwire.cfg", {"EmitJson": True}, LAWS + ["W1Strict", "W2Strict"], props=["Terminates"])
    res = tlc.run_tlc("ParamWireMC.tla", cfg, workers=1, timeout=900, extra=["-continue"])
    bad = [v for v in res.violated if v not in ("W1Strict", "W2Strict")]
    if bad:
        raise tlc.TlcFailure(f"ParamWire.tla: {bad} violated on the model\n{res.counterexample[:1500]}")
    cases = [c for c in res.printed if isinstance(c, dict) and "knownRejected" in c]
    if len(cases) < 1700:
        raise tlc.TlcFailure(f"ParamWireMC emitted only {len(cases)} cases")
    return res, cases


def build_doc(params: list[dict]) -> tuple[dict, dict]:
    paths, mods, schemas = {}, {}, {}
    for n, p in enumerate(params):
        sch = KIND_SCHEMA[p["kind"]]
        if p["nul"]:
            sch = {"oneOf": [sch, {"type": "null"}]}
        if p["loc"] == "json":
            paths[f"/o{n}"] = {"post": {"operationId": f"o{n}", "tags": ["t"], "requestBody": {"required": True, "content": {"application/json": {"schema": sch}}},
                                        "responses": {"204": {"description": "d"}}}}
            mods[pkey(p)] = f"t.o{n}"
            continue
        if p["loc"] in BODY_CT:
            # a property `p` of the body model (next to an ordinary property `z`)
            schemas[f"B{n}"] = {"type": "object", "properties": {"p": sch, "z": S}, **({"required": ["p"]} if p["req"] else {})}
            paths[f"/o{n}"] = {"post": {"operationId": f"o{n}", "tags": ["t"], "requestBody": {"content": {BODY_CT[p["loc"]]: {"schema": {"$ref": f"#/components/schemas/B{n}"}}}},
                                        "responses": {"204": {"description": "d"}}}}
            mods[pkey(p)] = f"t.o{n}"
            continue
        path = f"/o{n}" + ("/{p}" if p["loc"] == "path" else "")
        paths[path] = {"get": {"operationId": f"o{n}", "tags": ["t"], "parameters": [{"name": "p", "in": p["loc"], "required": p["req"], "schema": sch}],
                               "responses": {"204": {"description": "d"}}}}
        mods[pkey(p)] = f"t.o{n}"
    return gen.mkdoc(schemas=schemas or None, paths=paths), mods


def observe(scratch_dir: Path):
    """-> (tlc result, cases with c['real'][variant] observations, generation problems)"""
    res, cases = enumerate_cases(scratch_dir)
    problems = []
    for style in ("class", "literal"):
        mine = [c for c in cases if c["p"]["style"] == style]
        params = list({pkey(c["p"]): c["p"] for c in mine}.values())
        doc, mods = build_doc(params)
        pkg = f"pw_{style}"
        g = gen.generate(doc, scratch_dir / pkg, literal_enums=(style == "literal"))
        if g["exc"] or g["rejected"]:
            problems.append((style, (g["exc"] or json.dumps(g["diags"]))[-600:]))
            continue
        warned = " ".join(d["header"] + d["detail"] for d in g["diags"])
        jobs = []
        for k, c in enumerate(mine):
            for variant in ("sync_detailed", "asyncio_detailed"):
                jobs.append({"id": f"{k}:{variant}", "module": mods[pkey(c["p"])], "loc": c["p"]["loc"], "kind": c["p"]["kind"], "atom": c["a"], "variant": variant,
                             "body_class": ("B" + mods[pkey(c["p"])][3:]) if c["p"]["loc"] in BODY_CT else None})
        p = subprocess.run([VENV_PY, "-I", str(VERIF / "harness" / "runners" / "paramwire_runner.py")],
                           input=json.dumps({"parent": str(scratch_dir), "pkg": pkg, "cases": jobs}), capture_output=True, text=True, timeout=900)
        if p.returncode != 0:
            problems.append((style, "runner crashed: " + p.stderr[-600:]))
            continue
        out = json.loads(p.stdout.strip().splitlines()[-1])
        for k, c in enumerate(mine):
            c["real"] = {v: out[f"{k}:{v}"] for v in ("sync_detailed", "asyncio_detailed")}
            c["omitted_by_generator"] = f"/o{mods[pkey(c['p'])][3:]}" in warned and all("harness_error" in o for o in c["real"].values())
    return res, cases, problems


def kind_key(c: dict) -> str:
    return "union" if c["union"] else c["p"]["kind"]


def drift_of(c: dict):
    """operational prediction versus the real outcome (None when they agree)"""
    r = c.get("real", {}).get("sync_detailed")
    if r is None or "t" not in r:
        return {"mode": "paramwire", "p": c["p"], "a": c["a"], "predicted": c["out"], "real": r}
    if (r["t"], r["f"]) != (c["out"]["t"], c["out"]["f"]):
        return {"mode": "paramwire", "p": c["p"], "a": c["a"], "predicted": c["out"], "real": {"t": r["t"], "f": r["f"], "text": r.get("text", "")[:80]}}
    return None


def validate_trace(rep, cases: list[dict], scratch_dir: Path) -> None:
    """code -> spec: the real outcomes go back through TLC (ParamWireTrace.tla); one corrupted observation must be rejected (binding self-test)"""
    trace = []
    for c in cases:
        r = c.get("real", {}).get("sync_detailed")
        if r and "t" in r and r["t"] in ("placed", "notsent", "raise"):
            trace.append({"tid": len(trace) + 1, "p": c["p"], "a": c["a"], "t": r["t"],
                          "f": r["f"] if r["f"] in ("canon", "pycap", "spacedt", "pyrepr", "spread", "bare", "json", "filepart", "empty", "nonetext", "-") else "other"})
    if not trace:
        raise tlc.TlcFailure("ParamWire: nothing observed")
    good = next(i for i, e in enumerate(trace) if e["t"] == "placed" and e["f"] == "canon")
    corrupted = dict(trace[good], tid=len(trace) + 1, t="raise", f="-")
    path = scratch_dir / "paramwire.ndjson"
    path.write_text("\n".join(json.dumps(e) for e in trace + [corrupted]) + "\n")
    res = tlc.run_tlc("ParamWireTrace.tla", "ParamWireTrace.cfg", workers=1, env={"TRACE_FILE": str(path)}, timeout=900)
    rep.tlc(res)
    post = [x for x in res.printed if isinstance(x, dict) and "nonconforming" in x]
    if not post or post[0]["consumed"] != len(trace) + 1:
        raise tlc.TlcFailure("ParamWireTrace did not consume the observations")
    bad = set(post[0]["nonconforming"])
    if corrupted["tid"] not in bad:
        raise tlc.TlcFailure("binding self-test failed: ParamWireTrace accepted a corrupted observation")
    rep.traces += len(trace)
    for t in sorted(bad - {corrupted["tid"]})[:10]:
        rep.drifted(mode="paramwire-trace", obs=trace[t - 1])


def judge(rep, prop: str, scratch_dir: Path) -> None:
    """Run the ParamWire universe and report the law that belongs to `prop` (C11: W1, C03: W2 + variants agree, C10: W3)."""
    d = scratch_dir / "paramwire"
    d.mkdir(exist_ok=True)
    res, cases, problems = observe(d)
    rep.tlc(res)
    rep.extra["paramwire_design_counterexamples"] = {"W1Strict": "W1Strict" in res.violated, "W2Strict": "W2Strict" in res.violated,
                                                     "cases": sum(1 for c in cases if c["knownRejected"] or c["knownGarbage"])}
    for style, why in problems:
        rep.violate(f"{prop}/paramwire/package-not-generated/{style}", f"the parameter matrix document did not generate under enum style {style}: {why}")
    seen_drift = 0
    for c in cases:
        p, a = c["p"], c["a"]
        if "real" not in c:
            continue
        r, r2 = c["real"]["sync_detailed"], c["real"]["asyncio_detailed"]
        if "harness_error" in r:
            # the spec says the generator accepts this parameter; if the operation is absent the acceptance table drifted
            rep.drifted(mode="paramwire-accept", p=p, a=a, error=r["harness_error"][:160])
            continue
        rep.count(1, (json.dumps(p, sort_keys=True), a))
        dr = drift_of(c)
        if dr and seen_drift < 12:
            seen_drift += 1
            rep.drifted(**dr)
        elif dr:
            rep.extra["spec_drift"] = rep.extra.get("spec_drift", 0) + 1
        if not r.get("admitted", True):
            rep.drifted(mode="paramwire-atoms", p=p, a=a, hint=r.get("hint"))          # the annotation does not admit a class the spec lists
            continue
        kk, suffix = kind_key(c), ("/literal" if p["style"] == "literal" and p["kind"] in ("enum", "enumi", "listenum") else "")
        replay = {"parameter": p, "atom": a, "observed": r, "asyncio": r2, "predicted": c["out"]}
        if prop == "C11" and c["judged"] and a != "U" and r["t"] == "raise":
            rep.violate(f"C11/param-value-rejected/{p['loc']}/{kk}/{c['py']}",
                        f"a {p['loc']} parameter annotated {r.get('hint')} admits {a!r} but the call raises {r.get('text')}", **replay)
        if prop == "C03":
            if c["judged"] and a not in ("U", "N", "l0") and r["t"] != "raise" and not (r["t"] == "placed" and r["f"] in RECOVERABLE):
                rep.violate(f"C03/param-wire-form/{p['loc']}/{kk}/{c['py']}/{r['t']}-{r['f']}",
                            f"{p['loc']} parameter of kind {p['kind']} ({'nullable' if p['nul'] else 'plain'}): value {a!r} reaches the wire as {r.get('text')!r:.100} ({r['t']}/{r['f']})", **replay)
            if (r["t"], r["f"], r.get("text")) != (r2.get("t"), r2.get("f"), r2.get("text")):
                rep.violate(f"C03/param-variants-differ/{p['loc']}/{kk}/{c['py']}", f"blocking sends {r.get('text')!r:.80} ({r['t']}), asyncio {r2.get('text')!r:.80} ({r2.get('t')})", **replay)
            if r.get("requests", 1) != 1 and r["t"] != "raise":
                rep.violate(f"C03/param-request-count/{p['loc']}/{kk}/{a}", f"{r.get('requests')} requests for one call", **replay)
        if prop == "C10":
            if a == "U" and r["t"] != "notsent":
                rep.violate(f"C10/param-unset-transmitted/{p['loc']}/{kk}{suffix}", f"an omitted optional {p['loc']} parameter is transmitted: {r['t']} {r.get('text')!r:.80}", **replay)
            if a == "N" and p["loc"] == "query" and r["t"] != "notsent":
                rep.violate(f"C10/param-none-transmitted/query/{kk}{suffix}", f"None for a nullable query parameter reaches the wire as {r.get('text')!r:.80}", **replay)
            if a == "U" and not p["req"] and r.get("admitted") is False:
                rep.violate(f"C10/param-optional-not-omittable/{p['loc']}/{kk}", f"annotation {r.get('hint')} does not admit UNSET", **replay)
    validate_trace(rep, cases, d)
    rep.sample({"paramwire": {"parameter": cases[0]["p"], "atom": cases[0]["a"], "law": {"C11": "W1", "C03": "W2", "C10": "W3"}.get(prop)}})
