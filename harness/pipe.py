"""Pipeline engine: TLC enumeration of abstract documents (Pipeline.tla), concretisation, real-parser replay, projection."""
from __future__ import annotations

import json
import re
from concurrent.futures import ThreadPoolExecutor

from . import gen, tlc
from .common import NCPU

NAMES = ["Alpha", "Beta", "Gamma", "Delta"]
DANGLING = "Zeta"
KINDS_NO_T = ["obj", "objinl", "enum", "prim", "arrnoitems", "enummixed", "objbadprop", "objbaddef"]
KINDS_T = ["objref", "objarr", "allof", "wrap", "arr", "topref", "objrefbad"]
KINDS_T_UNION = ["union", "unionarr"]
MODEL_KINDS = {"obj", "objref", "objarr", "objinl", "allof", "objbadprop", "objbaddef", "objrefbad"}
LAWS = ["Census", "Containment", "NoFalseAlarm", "ImportsClosed", "InlineFollowsOwner", "RoundsBounded"]


VARIANT = None      # how "a reference through an array" is written: None (items) | "tuple" (prefixItems) | "nested" (array of arrays) | "addl" (additionalProperties)


def ref(t: str) -> dict:
    return {"$ref": f"#/components/schemas/{t}"}


def array_of(t: str) -> dict:
    s = {"type": "string"}
    if VARIANT == "tuple":
        return {"type": "array", "prefixItems": [ref(t), s]}
    if VARIANT == "nested":
        return {"type": "array", "items": {"type": "array", "items": ref(t)}}
    if VARIANT == "addl":
        return {"type": "object", "additionalProperties": ref(t)}
    return {"type": "array", "items": ref(t)}


def concretize_shape(k: str, t: str, good_twin: bool = False) -> dict:
    """Abstract shape -> OpenAPI schema.  good_twin=True gives the repaired version of a faulty shape."""
    s = {"type": "string"}
    if k == "obj":
        return {"type": "object", "properties": {"p": s}}
    if k == "objref":
        return {"type": "object", "properties": {"r": ref(t)}}
    if k == "objarr":
        return {"type": "object", "properties": {"r": array_of(t)}}
    if k == "objinl":
        return {"type": "object", "properties": {"i": {"type": "object", "properties": {"q": s}}}}
    if k == "allof":
        return {"allOf": [ref(t), {"type": "object", "properties": {"own": s}}]}
    if k == "wrap":
        return {"allOf": [ref(t)]}
    if k == "arr":
        return array_of(t) if VARIANT != "addl" else {"type": "array", "items": ref(t)}
    if k == "union":
        return {"oneOf": [ref(t), s]}
    if k == "unionarr":
        return {"oneOf": [array_of(t) if VARIANT != "addl" else {"type": "array", "items": ref(t)}, s]}
    if k == "enum":
        return {"type": "string", "enum": ["a", "b"]}
    if k == "prim":
        return s
    if k == "arrnoitems":
        return {"type": "array", "items": s} if good_twin else {"type": "array"}
    if k == "enummixed":
        return {"enum": ["a", "b"]} if good_twin else {"enum": ["a", 1]}
    if k == "objbadprop":
        return {"type": "object", "properties": {"b": {"type": "array", "items": s} if good_twin else {"type": "array"}}}
    if k == "objbaddef":
        return {"type": "object", "properties": {"b": {"type": "integer", "default": 1 if good_twin else "x"}}}
    if k == "objrefbad":
        return {"type": "object", "properties": {"r": ref(t), "b": {"type": "array", "items": s} if good_twin else {"type": "array"}}}
    if k == "topref":
        return ref(t)
    raise ValueError(k)


def concretize(adoc: list[dict]) -> dict:
    return gen.mkdoc(schemas={s["name"]: concretize_shape(s["k"], s["t"]) for s in adoc})


def refs_inside(schema) -> set[str]:
    out = set()
    if isinstance(schema, dict):
        for k, v in schema.items():
            if k == "$ref" and isinstance(v, str):
                out.add(v.rsplit("/", 1)[-1])
            else:
                out |= refs_inside(v)
    elif isinstance(schema, list):
        for v in schema:
            out |= refs_inside(v)
    return out


def project(data, names: list[str], adoc: list[dict] | None = None) -> dict:
    """Real GeneratorData -> abstract outcome: classes per schema name, inline classes, diagnosed names."""
    models = {str(m.class_info.name): m for m in data.models}
    enums = {str(e.class_info.name) for e in data.enums}
    gen_names = sorted(n for n in names if n in models or n in enums)
    inline = sorted(c for c in list(models) + list(enums) if c not in names)
    texts = [(e.header or "") + "\n" + (e.detail or "") for e in data.errors]
    diagnosed = {n for n in names if any(re.search(rf"/components/schemas/{n}\b", t) for t in texts)}
    # a top-level `$ref` component is reported with its content (the Reference) as `data`, which the CLI prints
    if adoc is not None:
        for s in adoc:
            if s["k"] == "topref" and any(getattr(getattr(e, "data", None), "ref", None) == f"#/components/schemas/{s['t']}"
                                          and "Reference schemas are not supported" in (e.detail or "") for e in data.errors):
                diagnosed.add(s["name"])
    diagnosed = sorted(diagnosed)
    return {"gen": gen_names, "inline": inline, "diagnosed": diagnosed, "ndiags": len(data.errors), "texts": texts}


def enumerate_docs(nnames: int, kinds_no_t=None, kinds_t=None, emit: bool = True, parts: int = 12, timeout: int = 1800,
                   scratch_dir=None):
    """Run PipelineMC over the universe (partitioned over `parts` single-worker JVMs when emitting)."""
    kinds_no_t = kinds_no_t or KINDS_NO_T
    kinds_t = kinds_t or KINDS_T
    consts = {"Names": set(NAMES[:nnames]), "Dangling": DANGLING, "NNames": nnames, "KindsNoT": set(kinds_no_t),
              "KindsT": set(kinds_t), "Parts": parts if emit else 1, "EmitJson": emit}

    def one(part):
        cfg = tlc.write_cfg(scratch_dir / f"pipe-{nnames}-{part}.cfg", {**consts, "Part": part}, LAWS + ["Emit"],
                            props=["RoundRanks", "Terminates"])
        return tlc.run_tlc("PipelineMC.tla", cfg, workers=1 if emit else NCPU, timeout=timeout, heap="3g" if emit else "8g")

    if not emit:
        return [one(0)]
    with ThreadPoolExecutor(max_workers=min(parts, 14)) as ex:
        return list(ex.map(one, range(parts)))


# ---------------------------------------------------------------------------------------------- code -> spec (hook traces)
PFX = "/components/schemas/"


def _strip(n: str) -> str:
    return n[len(PFX):] if n.startswith(PFX) else n


def record_trace(doc: dict, adoc: list[dict] | None, tid: int, tmpfile) -> tuple[list[dict], str | None]:
    """Run the real parser with the hooks on; return normalised events (first = the abstract document)."""
    import os

    from .common import GUARD

    names = list((doc.get("components") or {}).get("schemas") or {}) if isinstance(doc, dict) else []
    if adoc is None:
        adoc = [{"name": n, "k": "opaque", "t": ""} for n in names]
    kinds = {s["name"]: s["k"] for s in adoc}
    known = all(k != "opaque" for k in kinds.values())
    open(tmpfile, "w").close()
    os.environ[GUARD] = str(tmpfile)
    try:
        _, exc = gen.parse(doc)
    finally:
        os.environ.pop(GUARD, None)
    raw = [json.loads(x) for x in open(tmpfile, encoding="utf-8") if x.strip()]

    def cls_tag(c: str):
        if known and c in kinds:
            return ["m" if kinds[c] in MODEL_KINDS else "e", c]
        if known and c.endswith("I") and c[:-1] in kinds:
            return ["i", c[:-1]]
        return ["x", c]

    def root_tag(r: str):
        if r.startswith(PFX):
            return ["ref", _strip(r)]
        if known and r in kinds:
            return ["cls", r]
        if known and r.endswith("I") and r[:-1] in kinds:
            return ["icls", r[:-1]]
        return ["cls", r]

    out = [{"tid": tid, "ev": "doc", "doc": adoc}]
    for e in raw:
        ev = e["ev"]
        if ev == "create_try":
            o = {"tid": tid, "ev": ev, "name": e["name"], "outcome": e["outcome"]}
            if e["outcome"] == "ok":
                o.update(by_ref=[_strip(x) for x in e["by_ref"]], cls=[cls_tag(c) for c in e["by_name"]],
                         to_proc=[_strip(x) for x in e["to_process"]])
            out.append(o)
        elif ev in ("create_round", "process_round"):
            out.append({"tid": tid, "ev": ev, "progress": e["progress"], "remaining": [_strip(x) for x in e["remaining"]]})
        elif ev == "process_try":
            o = {"tid": tid, "ev": ev, "name": _strip(e["name"]), "outcome": e["outcome"]}
            if e["outcome"] == "ok":
                o["cls"] = [cls_tag(c) for c in e["by_name"]]
            out.append(o)
        elif ev == "dep":
            out.append({"tid": tid, "ev": ev, "ref": _strip(e["ref"]), "roots": [root_tag(r) for r in e["roots"]]})
        elif ev == "remove_begin":
            out.append({"tid": tid, "ev": ev, "failed": [{"name": _strip(f["name"]), "roots": [root_tag(r) for r in f["roots"]]}
                                                          for f in e["failed"]]})
        elif ev == "remove":
            out.append({"tid": tid, "ev": ev, "kind": e["kind"], "root": root_tag(e["root"]) if e["kind"] == "ref" else ["cls", e["root"]]})
        elif ev == "schemas_done":
            out.append({"tid": tid, "ev": ev, "by_ref": [_strip(x) for x in e["by_ref"]], "cls": [cls_tag(c) for c in e["by_name"]]})
        # events of other engines (fs, op, ...) are not part of this trace
    return out, exc


def validate_traces(events: list[dict], scratch_dir, timeout: int = 1800):
    """Batch-validate normalised traces with PipelineTrace.tla.  Returns the verdict dict printed by the POSTCONDITION."""
    path = scratch_dir / "pipeline.ndjson"
    path.write_text("\n".join(json.dumps(e) for e in events) + "\n")
    cfg = tlc.write_cfg(scratch_dir / "ptrace.cfg", {"Names": {"Alpha"}, "Dangling": DANGLING}, spec="TSpec", post="Post")
    res = tlc.run_tlc("PipelineTrace.tla", cfg, workers=1, env={"TRACE_FILE": str(path)}, timeout=timeout)
    post = [p for p in res.printed if isinstance(p, dict) and "rejected" in p]
    if not post:
        raise tlc.TlcFailure("PipelineTrace produced no verdict:\n" + res.out[-3000:])
    v = post[0]
    if v["consumed"] != len(events):
        raise tlc.TlcFailure(f"PipelineTrace consumed {v['consumed']} of {len(events)} lines:\n" + res.out[-2000:])
    return v, res


# ---------------------------------------------------------------------------------------------- shared decision helpers
def repaired(adoc: list[dict], bad: list[str]) -> dict:
    """The document with every bad schema replaced by its good twin (kinds with a dedicated twin) or a plain object."""
    schemas = {}
    for s in adoc:
        if s["name"] in bad:
            if s["k"] in ("arrnoitems", "enummixed", "objbadprop", "objbaddef"):
                schemas[s["name"]] = concretize_shape(s["k"], s["t"], good_twin=True)
            else:
                schemas[s["name"]] = concretize_shape("obj", "")
        else:
            schemas[s["name"]] = concretize_shape(s["k"], s["t"])
    return gen.mkdoc(schemas=schemas)


def has_class(k: str) -> bool:
    return k in MODEL_KINDS or k == "enum"


def sig(adoc: list[dict]) -> str:
    return "+".join(sorted({s["k"] for s in adoc}))


def run_universe(rep, nnames: int, d, kinds_no_t=None, kinds_t=None) -> list[dict]:
    """TLC over the universe (laws + emission); returns emitted cases. Law violations on the MODEL are machinery-visible notes."""
    rs = enumerate_docs(nnames, kinds_no_t, kinds_t, scratch_dir=d)
    cases = []
    for r in rs:
        rep.tlc(r)
        if r.violated:
            rep.notes.append(f"TLC: law {sorted(set(r.violated))} violated on the model: {r.counterexample[:500]}")
            rep.extra.setdefault("tlc_law_violations", []).extend(sorted(set(r.violated)))
        cases += r.printed
    if len(cases) < 100:
        raise tlc.TlcFailure("pipeline universe emitted too few documents")
    return cases


def compare_model(rep, c: dict, pr: dict) -> None:
    inline_same = VARIANT == "addl" or sorted(c["inl"]) == sorted(x[:-1] for x in pr["inline"])      # typed additional properties are an inline class of their own
    if sorted(c["gen"]) != pr["gen"] or sorted(c["errs"]) != pr["diagnosed"] or not inline_same:
        rep.drifted(mode="pipeline", doc=[(s["k"], s["t"]) for s in c["doc"]], model=[c["gen"], c["errs"], c["inl"]],
                    real=[pr["gen"], pr["diagnosed"], pr["inline"]])


def random_adocs(rnd, n: int, sizes=(3, 4, 5)) -> list[list[dict]]:
    out = []
    all_names = NAMES + ["Epsilon"]
    for _ in range(n):
        k = rnd.choice(sizes)
        names = all_names[:k]
        adoc = []
        for nm in names:
            kind = rnd.choice(KINDS_NO_T + KINDS_T + ["obj", "objref", "objref", "allof"])
            t = ""
            if kind in KINDS_T:
                t = rnd.choice(names + [DANGLING]) if rnd.random() < 0.9 else DANGLING
            adoc.append({"name": nm, "k": kind, "t": t})
        out.append(adoc)
    return out


def trace_batch(rep, docs: list[tuple[dict, list[dict] | None]], d, prop: str, law_key) -> None:
    """Record hook traces for (doc, adoc) pairs, validate them with PipelineTrace.tla, turn verdicts into drift/violations."""
    events = []
    by_tid = {}
    for tid, (doc, adoc) in enumerate(docs, start=1):
        ev, exc = record_trace(doc, adoc, tid, d / "raw.ndjson")
        by_tid[tid] = (doc, adoc, exc)
        events += ev
    # binding self-test: a trace with one event dropped and one with a corrupted final state must be flagged
    base = [dict(e) for e in events if e["tid"] == 1]
    t1 = [dict(e, tid=900001) for i, e in enumerate(base) if not (e["ev"] == "create_round" and i < 8)]
    t2 = [dict(e, tid=900002) for e in base]
    for e in t2:
        if e["ev"] == "schemas_done":
            e["by_ref"] = list(e["by_ref"]) + ["Ghost"]
    events += t1 + t2
    events.append({"tid": 900003, "ev": "doc", "doc": []})   # closes the last trace
    v, res = validate_traces(events, d)
    rep.tlc(res)
    flagged = {x[0] for x in v["rejected"]} | {x[0] for x in v["law"]}
    if 900001 not in flagged or 900002 not in flagged:
        raise tlc.TlcFailure(f"binding self-test failed: corrupted traces were accepted by PipelineTrace ({v})")
    rep.traces += len(docs)
    for tid, line, why in v["drift"]:
        if tid < 900000:
            rep.drifted(mode="trace", why=why, doc=by_tid[tid][1])
    for tid, line, why in v["law"] + v["rejected"]:
        if tid < 900000:
            doc, adoc, exc = by_tid[tid]
            key = law_key(why, adoc)
            if key:
                rep.violate(key, f"trace of the real pipeline breaks a law of Pipeline.tla: {why}", why=why, adoc=adoc, doc=doc,
                            line=line, exc=exc)
    rep.extra["trace_events"] = len(events)
