"""Pipeline engine: TLC enumeration of abstract documents (Pipeline.tla), concretisation, real-parser replay, projection."""
from __future__ import annotations

import json
import re
from concurrent.futures import ThreadPoolExecutor

from . import gen, tlc
from .common import NCPU

NAMES = ["Alpha", "Beta", "Gamma", "Delta"]
DANGLING = "Zeta"
KINDS_NO_T = ["obj", "objinl", "enum", "prim", "arrnoitems", "enummixed", "objbadprop", "objbaddef"]
KINDS_T = ["objref", "objarr", "allof", "wrap", "arr", "topref", "objrefbad"]
MODEL_KINDS = {"obj", "objref", "objarr", "objinl", "allof", "objbadprop", "objbaddef", "objrefbad"}
LAWS = ["Census", "Containment", "NoFalseAlarm", "ImportsClosed", "InlineFollowsOwner", "RoundsBounded"]


def ref(t: str) -> dict:
    return {"$ref": f"#/components/schemas/{t}"}


def concretize_shape(k: str, t: str, good_twin: bool = False) -> dict:
    """Abstract shape -> OpenAPI schema.  good_twin=True gives the repaired version of a faulty shape."""
    s = {"type": "string"}
    if k == "obj":
        return {"type": "object", "properties": {"p": s}}
    if k == "objref":
        return {"type": "object", "properties": {"r": ref(t)}}
    if k == "objarr":
        return {"type": "object", "properties": {"r": {"type": "array", "items": ref(t)}}}
    if k == "objinl":
        return {"type": "object", "properties": {"i": {"type": "object", "properties": {"q": s}}}}
    if k == "allof":
        return {"allOf": [ref(t), {"type": "object", "properties": {"own": s}}]}
    if k == "wrap":
        return {"allOf": [ref(t)]}
    if k == "arr":
        return {"type": "array", "items": ref(t)}
    if k == "enum":
        return {"type": "string", "enum": ["a", "b"]}
    if k == "prim":
        return s
    if k == "arrnoitems":
        return {"type": "array", "items": s} if good_twin else {"type": "array"}
    if k == "enummixed":
        return {"enum": ["a", "b"]} if good_twin else {"enum": ["a", 1]}
    if k == "objbadprop":
        return {"type": "object", "properties": {"b": {"type": "array", "items": s} if good_twin else {"type": "array"}}}
    if k == "objbaddef":
        return {"type": "object", "properties": {"b": {"type": "integer", "default": 1 if good_twin else "x"}}}
    if k == "objrefbad":
        return {"type": "object", "properties": {"r": ref(t), "b": {"type": "array", "items": s} if good_twin else {"type": "array"}}}
    if k == "topref":
        return ref(t)
    raise ValueError(k)


def concretize(adoc: list[dict]) -> dict:
    return gen.mkdoc(schemas={s["name"]: concretize_shape(s["k"], s["t"]) for s in adoc})


def refs_inside(schema) -> set[str]:
    out = set()
    if isinstance(schema, dict):
        for k, v in schema.items():
            if k == "$ref" and isinstance(v, str):
                out.add(v.rsplit("/", 1)[-1])
            else:
                out |= refs_inside(v)
    elif isinstance(schema, list):
        for v in schema:
            out |= refs_inside(v)
    return out


def project(data, names: list[str], adoc: list[dict] | None = None) -> dict:
    """Real GeneratorData -> abstract outcome: classes per schema name, inline classes, diagnosed names."""
    models = {str(m.class_info.name): m for m in data.models}
    enums = {str(e.class_info.name) for e in data.enums}
    gen_names = sorted(n for n in names if n in models or n in enums)
    inline = sorted(c for c in list(models) + list(enums) if c not in names)
    texts = [(e.header or "") + "\n" + (e.detail or "") for e in data.errors]
    diagnosed = {n for n in names if any(re.search(rf"/components/schemas/{n}\b", t) for t in texts)}
    # a top-level `$ref` component is reported with its content (the Reference) as `data`, which the CLI prints
    if adoc is not None:
        for s in adoc:
            if s["k"] == "topref" and any(getattr(getattr(e, "data", None), "ref", None) == f"#/components/schemas/{s['t']}"
                                          and "Reference schemas are not supported" in (e.detail or "") for e in data.errors):
                diagnosed.add(s["name"])
    diagnosed = sorted(diagnosed)
    return {"gen": gen_names, "inline": inline, "diagnosed": diagnosed, "ndiags": len(data.errors), "texts": texts}


def enumerate_docs(nnames: int, kinds_no_t=None, kinds_t=None, emit: bool = True, parts: int = 12, timeout: int = 1800,
                   scratch_dir=None):
    """Run PipelineMC over the universe (partitioned over `parts` single-worker JVMs when emitting)."""
    kinds_no_t = kinds_no_t or KINDS_NO_T
    kinds_t = kinds_t or KINDS_T
    consts = {"Names": set(NAMES[:nnames]), "Dangling": DANGLING, "NNames": nnames, "KindsNoT": set(kinds_no_t),
              "KindsT": set(kinds_t), "Parts": parts if emit else 1, "EmitJson": emit}

    def one(part):
        cfg = tlc.write_cfg(scratch_dir / f"pipe-{nnames}-{part}.cfg", {**consts, "Part": part}, LAWS + ["Emit"],
                            props=["RoundRanks", "Terminates"])
        return tlc.run_tlc("PipelineMC.tla", cfg, workers=1 if emit else NCPU, timeout=timeout, heap="3g" if emit else "8g")

    if not emit:
        return [one(0)]
    with ThreadPoolExecutor(max_workers=min(parts, 14)) as ex:
        return list(ex.map(one, range(parts)))
