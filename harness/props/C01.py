"""C01 - every generated client is a valid, importable Python package.

Specs: Pipeline.tla (law ImportsClosed: nothing that remains refers to anything removed), Names.tla (law N1: every derived name is a
valid identifier) and ImportsTrace.tla (symbol sufficiency + closed relative imports, validated by TLC on a census of the REAL output
trees).  TLC enumerates: every descriptor of Codec.tla's universe as a model attribute, every operation of Endpoint.tla's request and
response universes, the documents of Pipeline.tla / Ops.tla's universes (every removal pattern, recursive and forward reference graphs).
Each enumerated document is generated under the metadata flavours x literal_enums x docstrings_on_attributes; the oracle on the real
output: every .py compiles, every module imports in a fresh interpreter that sees only httpx/attrs/python-dateutil, ruff's scope-aware
undefined-name pass (F821/F822/F823) is clean, every relative import resolves to a generated definition, pyproject.toml parses (tomllib).
Names come from the statement's identifier-hostile but quote-free alphabet.
"""
from __future__ import annotations

import ast
import builtins
import itertools
import json
import random
import subprocess
import tomllib

from .. import codec, endpoint, gen, ops, pipe, tlc, treegen
from ..common import NCPU, rmtree, scratch, seed
from . import C02 as c02
from . import C12 as c12

HOSTILE = ["with space", "with-dash", "dotted.name", "1leading", "class", "def", "None", "list", "type", "id", "MixedCase", "camelCase", "UPPER", "snake_case",
           "éclair", "straße", "naïve", "日本", "a__b", "_private", "trailing_", "x", "import", "self", "str", "match", "T", "Any", "Union", "datetime", "json", "model", "client"]


def census(pkg_root) -> list[dict]:
    out = []
    bnames = set(dir(builtins)) | {"__file__", "__name__", "__doc__"}
    for f in sorted(pkg_root.rglob("*.py")):
        try:
            tree = ast.parse(f.read_text())
        except SyntaxError:
            continue
        used, bound, rel = set(), set(bnames), []
        for n in ast.walk(tree):
            if isinstance(n, ast.Name):
                (used if isinstance(n.ctx, ast.Load) else bound).add(n.id)
            elif isinstance(n, ast.arg):
                bound.add(n.arg)
            elif isinstance(n, (ast.FunctionDef, ast.AsyncFunctionDef, ast.ClassDef)):
                bound.add(n.name)
            elif isinstance(n, ast.Import):
                for a in n.names:
                    bound.add((a.asname or a.name).split(".")[0])
            elif isinstance(n, ast.ImportFrom):
                for a in n.names:
                    bound.add(a.asname or a.name)
            elif isinstance(n, ast.ExceptHandler) and n.name:
                bound.add(n.name)
        # string annotations ('Model') are names too
        for n in ast.walk(tree):
            if isinstance(n, ast.Constant) and isinstance(n.value, str) and n.value.isidentifier() and n.value[:1].isupper():
                pass
        out.append({"file": str(f.relative_to(pkg_root.parent)), "used": sorted(used), "bound": sorted(bound), "rel": []})
    return out


def check_tree(rep, pkg_root, tag: str, meta: str, d, info: dict) -> list[dict]:
    """compile + ruff F821 + relative imports + toml; returns the census lines. Import check is batched by the caller."""
    for f in pkg_root.rglob("*.py"):
        try:
            compile(f.read_text(), str(f), "exec")
        except SyntaxError as e:
            rep.violate(f"C01/syntax-error/{tag}/{_slug(e.msg)}", f"{f.relative_to(pkg_root.parent)}:{e.lineno}: {e.msg}", **info)
    for prob in treegen.relative_import_check(pkg_root)[:5]:
        if "SyntaxError" in prob:
            continue
        rep.violate(f"C01/unresolved-reference/{tag}/{_slug(prob.split(': ', 1)[-1])}", prob, **info)
    for t in pkg_root.parent.glob("pyproject.toml") if meta != "none" else []:
        try:
            tomllib.loads(t.read_text())
        except tomllib.TOMLDecodeError as e:
            rep.violate(f"C01/invalid-toml/{tag}", f"pyproject.toml: {e}", **info)
    if meta != "none" and not (pkg_root.parent / "pyproject.toml").exists():
        rep.violate(f"C01/pyproject-missing/{tag}/{meta}", "pyproject.toml was not generated", **info)
    return census(pkg_root)


def _slug(s: str) -> str:
    import re
    s = re.sub(r"'[^']*'|\"[^\"]*\"", "Q", s)
    s = re.sub(r"\d+", "N", s)
    return "-".join(re.findall(r"[A-Za-z]+", s)[:8]).lower()[:70]


def ruff_undefined(rep, roots: list, d, tags: dict) -> None:
    p = subprocess.run(["/venv/bin/ruff", "check", "--isolated", "--no-cache", "--select", "F821,F822,F823", "--output-format", "json", *map(str, roots)],
                       capture_output=True, text=True, timeout=900)
    try:
        items = json.loads(p.stdout or "[]")
    except ValueError:
        raise RuntimeError("ruff failed: " + (p.stderr or p.stdout)[-500:])
    seen = set()
    for it in items:
        root = next((r for r in roots if str(it["filename"]).startswith(str(r))), None)
        key = f"C01/undefined-name/{tags.get(str(root), '?')}/{it['code']}/{_slug(it['message'])}"
        if key in seen:
            continue
        seen.add(key)
        rep.violate(key, f"{it['filename'].replace(str(d) + '/', '')}:{it['location']['row']}: {it['message']}", file=it["filename"].replace(str(d) + "/", ""))


def hostile_document(names: list[str]) -> dict:
    S = {"type": "string"}
    schemas = {}
    for i, n in enumerate(names):
        schemas[f"Holder{i}"] = {"type": "object", "required": [n], "properties": {n: {"type": "integer"}, f"{n} twin": {"type": "string", "format": "date"},
                                                                               "nested " + n: {"type": "object", "properties": {n: {"type": "string", "enum": [n, "other"]}}}}}
    for n in names[:20]:
        schemas[n] = {"type": "object", "properties": {"v": S, "self": {"$ref": f"#/components/schemas/{n}"}}}
        schemas[n + " enum"] = {"type": "string", "enum": ["a", n]}
    paths = {}
    for i, n in enumerate(names):
        paths[f"/h{i}/{{pid}}"] = {"post": {"operationId": n, "tags": [names[(i + 3) % len(names)]],
                                            "parameters": [{"name": "pid", "in": "path", "required": True, "schema": S}, {"name": n, "in": "query", "schema": S},
                                                           {"name": n, "in": "header", "schema": S}, {"name": n + "2", "in": "cookie", "schema": S}],
                                            "requestBody": {"content": {"application/json": {"schema": {"$ref": f"#/components/schemas/Holder{i}"}}}},
                                            "responses": {"200": {"description": "d", "content": {"application/json": {"schema": {"$ref": f"#/components/schemas/Holder{i}"}}}},
                                                          "404": {"description": "d", "content": {"application/json": {"schema": {"type": "array", "items": {"$ref": f"#/components/schemas/Holder{(i + 1) % len(names)}"}}}}}}}}
    return gen.mkdoc(schemas=schemas, paths=paths, title="Hostile names API")


RESERVED_CLASSY = ["Type", "Format", "List", "Filter", "Input", "Class", "None", "Object", "Self", "Str", "Int", "Dict", "Set", "All", "Any", "Hash", "Iter", "Len", "Map",
                   "Max", "Min", "Next", "Open", "Print", "Range", "Sum", "Super", "Zip", "Bool", "Bytes", "Float", "Import", "In", "Is", "Not", "Or", "As", "If", "For", "Try",
                   "With", "Def", "Del", "Global", "Pass", "Raise", "Return", "Lambda", "Yield", "Async", "Await", "From", "True", "False", "Id", "Datetime", "Cast", "Json"]


def reserved_named_document() -> dict:
    """Enums, models and operations whose derived class / module names are builtins or keywords (used by models and endpoints)."""
    S = {"type": "string"}
    schemas, paths = {}, {}
    for i, n in enumerate(RESERVED_CLASSY):
        if i % 2 == 0:
            schemas[n] = {"type": "string", "enum": ["a", "b"], "default": "a"}
        else:
            schemas[n] = {"type": "object", "properties": {"v": S, "again": {"$ref": f"#/components/schemas/{n}"}}}
        schemas[f"User{i}"] = {"type": "object", "required": ["r"], "properties": {"r": {"$ref": f"#/components/schemas/{n}"}, "l": {"type": "array", "items": {"$ref": f"#/components/schemas/{n}"}},
                                                                                "u": {"oneOf": [{"$ref": f"#/components/schemas/{n}"}, {"type": "integer"}]}}}
        paths[f"/r{i}"] = {"get": {"operationId": f"use {n}", "tags": [n], "parameters": ([{"name": "q", "in": "query", "schema": {"$ref": f"#/components/schemas/{n}"}}] if i % 2 == 0 else []),
                                   "responses": {"200": {"description": "d", "content": {"application/json": {"schema": {"$ref": f"#/components/schemas/{n}"}}}}}}}
    return gen.mkdoc(schemas=schemas, paths=paths, title="Reserved names")


def endpoint_owned_names_document(d) -> dict:
    """Parameters named like the names the generated ENDPOINT code uses itself (harvested from the code under test on each run: arguments, locals,
    imports), declared at operation level, in two locations, with and without a request body."""
    from . import C18 as c18
    _, scopes = c18.harvest(d)
    names = [n for n in scopes["endpoint"] if n.isidentifier() and not n.startswith("__")][:60]
    S = {"type": "string"}
    paths = {}
    k = 0
    for n in names:
        for loc in ("query", "path"):
            for body in (False, True):
                k += 1
                op = {"operationId": f"own{k}", "tags": ["own"], "parameters": [{"name": n, "in": loc, "required": True, "schema": S}],
                      "responses": {"200": {"description": "d", "content": {"application/json": {"schema": {"$ref": "#/components/schemas/OwnOut"}}}}}}
                if body:
                    op["requestBody"] = {"content": {"application/json": {"schema": {"$ref": "#/components/schemas/OwnOut"}}}}
                paths[f"/own{k}" + ("/{%s}" % n if loc == "path" else "")] = {"post": op}
    return gen.mkdoc(schemas={"OwnOut": {"type": "object", "properties": {"v": S}}}, paths=paths, title="Owned names")


def enum_collision_document() -> dict:
    """Inline enums whose derived class names coincide (different parent/property splits): wider first / subset later / equal / disjoint, with defaults."""
    def e(vals, default=None):
        return {"type": "string", "enum": vals, **({"default": default} if default else {})}
    schemas = {
        "Order": {"type": "object", "properties": {"status_code": e(["pending", "shipped", "done"], "pending")}},
        "OrderStatus": {"type": "object", "properties": {"code": e(["shipped", "done"])}},
        "Job": {"type": "object", "properties": {"state_kind": e(["a", "b"], "a")}},
        "JobState": {"type": "object", "properties": {"kind": e(["a", "b"], "b")}},
        "Task": {"type": "object", "properties": {"phase_name": e(["x", "y"], "x")}},
        "TaskPhase": {"type": "object", "properties": {"name": e(["p", "q"], "p")}},
        "Narrow": {"type": "object", "properties": {"level_id": e(["lo"], "lo")}},
        "NarrowLevel": {"type": "object", "properties": {"id": e(["lo", "hi"], "hi")}},
    }
    paths = {"/o": {"get": {"operationId": "getOrder", "responses": {"200": {"description": "d", "content": {"application/json": {"schema": {"$ref": "#/components/schemas/Order"}}}}}}}}
    return gen.mkdoc(schemas=schemas, paths=paths, title="Enum collisions")


def defaults_corner_document() -> dict:
    """Defaults in corners: enum default inherited through an allOf that narrows the enum; path parameters with and without defaults; defaults on every parameter location."""
    S = {"type": "string"}
    def e(vals, default=None):
        return {"type": "string", "enum": vals, **({"default": default} if default else {})}
    schemas = {
        "Parent": {"type": "object", "properties": {"status": e(["a", "b", "c"], "a"), "n": {"type": "integer", "default": 3}}},
        "Child": {"allOf": [{"$ref": "#/components/schemas/Parent"}, {"type": "object", "properties": {"status": e(["a", "b"])}}]},
        "Child2": {"allOf": [{"$ref": "#/components/schemas/Parent"}, {"type": "object", "properties": {"status": e(["a", "b"], "b"), "n": {"type": "integer"}}}]},
    }
    paths = {
        "/d/{a}/{b}": {"get": {"operationId": "pathDefaults", "parameters": [{"name": "a", "in": "path", "required": True, "schema": {"type": "string", "default": "x"}},
                                                                               {"name": "b", "in": "path", "required": True, "schema": S},
                                                                               {"name": "q", "in": "query", "required": True, "schema": {"type": "integer", "default": 1}},
                                                                               {"name": "r", "in": "query", "required": True, "schema": S},
                                                                               {"name": "h", "in": "header", "schema": {"type": "boolean", "default": True}},
                                                                               {"name": "c", "in": "cookie", "schema": {"type": "string", "default": "ck"}}],
                               "responses": {"200": {"description": "d", "content": {"application/json": {"schema": {"$ref": "#/components/schemas/Child"}}}}}}}}
    return gen.mkdoc(schemas=schemas, paths=paths, title="Defaults corner")


def signature_corner_document() -> dict:
    """Positional path parameters of kinds that could carry an implicit default (single-member enums, consts, booleans), before and after ordinary ones;
    the same kinds as required keyword parameters; models whose required properties are of those kinds."""
    S = {"type": "string"}
    one = {"type": "string", "enum": ["v2"]}
    ione = {"type": "integer", "enum": [1]}
    ok = {"200": {"description": "d"}}
    P = lambda n, sch, loc="path": {"name": n, "in": loc, "required": True, "schema": sch}
    paths = {
        "/{version}/pets/{petId}": {"get": {"operationId": "enumFirst", "parameters": [P("version", one), P("petId", {"type": "integer"})], "responses": ok}},
        "/pets/{petId}/{version}": {"get": {"operationId": "enumLast", "parameters": [P("petId", {"type": "integer"}), P("version", one)], "responses": ok}},
        "/{a}/{b}/{c}": {"get": {"operationId": "enumMiddle", "parameters": [P("a", S), P("b", ione), P("c", {"type": "boolean"})], "responses": ok}},
        "/{k}/c/{id}": {"get": {"operationId": "constFirst", "parameters": [P("k", {"const": "only"}), P("id", S)], "responses": ok}},
        "/{n}/n/{id}": {"get": {"operationId": "nullableEnumFirst", "parameters": [P("n", {"type": "string", "enum": ["x", "y"]}), P("id", {"type": "string", "format": "uuid"})], "responses": ok}},
        "/q/{id}": {"get": {"operationId": "requiredKeywordEnums", "parameters": [P("id", S), P("mode", one, "query"), P("lvl", ione, "query"), P("X-V", one, "header"), P("ck", one, "cookie"), P("z", S, "query")],
                            "responses": ok}},
    }
    schemas = {"Versioned": {"type": "object", "required": ["version", "name", "lvl"], "properties": {"version": one, "name": S, "lvl": ione, "opt": one}},
               "VersionedKid": {"allOf": [{"$ref": "#/components/schemas/Versioned"}, {"type": "object", "required": ["more"], "properties": {"more": S, "kind": {"type": "string", "enum": ["k"]}}}]}}
    return gen.mkdoc(schemas=schemas, paths=paths, title="Signature corner")


def renamed_redefined_document() -> dict:
    """Two properties that derive one Python name (so both keep their spelling as written), one of which an allOf child redefines with a type that
    replaces the property object (untyped -> typed, string -> date-time / date / binary, number -> integer); the redefinition is the child's last property."""
    S = {"type": "string"}
    R = lambda n: {"$ref": f"#/components/schemas/{n}"}
    schemas = {}
    for i, (base, refined) in enumerate([(S, {"type": "string", "format": "date-time"}), ({}, S), ({"type": "number"}, {"type": "integer"}), (S, {"type": "string", "format": "date"}),
                                         (S, {"type": "string", "format": "binary"}), (S, {"type": "string", "enum": ["a", "b"]})]):
        schemas[f"Audit{i}"] = {"type": "object", "properties": {"createdAt": base, "created_at": S, "id": {"type": "integer"}}}
        schemas[f"AuditEvent{i}"] = {"allOf": [R(f"Audit{i}"), {"type": "object", "properties": {"createdAt": refined}}]}
        schemas[f"AuditFirst{i}"] = {"allOf": [R(f"Audit{i}"), {"type": "object", "properties": {"createdAt": refined, "zz": S}}]}
        schemas[f"AuditSnake{i}"] = {"allOf": [R(f"Audit{i}"), {"type": "object", "properties": {"created_at": refined}}]}
    return gen.mkdoc(schemas=schemas, title="Renamed redefined")


def consts_document() -> dict:
    """const schemas (typing.Literal) in every position of an operation's signature and of a model."""
    c = lambda v: {"const": v}
    ok = {"200": {"description": "d"}}
    paths = {
        "/q": {"get": {"operationId": "constQuery", "parameters": [{"name": "mode", "in": "query", "required": True, "schema": c("fast")}, {"name": "n", "in": "query", "schema": c(3)}], "responses": ok}},
        "/p/{kind}": {"get": {"operationId": "constPath", "parameters": [{"name": "kind", "in": "path", "required": True, "schema": c("only")}], "responses": ok}},
        "/h": {"get": {"operationId": "constHeaderCookie", "parameters": [{"name": "X-Mode", "in": "header", "schema": c("h")}, {"name": "ck", "in": "cookie", "schema": c("c")}], "responses": ok}},
        "/b": {"post": {"operationId": "constBody", "requestBody": {"content": {"application/json": {"schema": c("payload")}}}, "responses": ok}},
        "/r": {"get": {"operationId": "constResponse", "responses": {"200": {"description": "d", "content": {"application/json": {"schema": c("done")}}}}}},
        "/u": {"get": {"operationId": "constUnionResponse", "responses": {"200": {"description": "d", "content": {"application/json": {"schema": {"oneOf": [c("a"), c("b"), c(1)]}}}}}}},
        "/l": {"get": {"operationId": "constListResponse", "responses": {"200": {"description": "d", "content": {"application/json": {"schema": {"type": "array", "items": c("x")}}}},
                                                                       "404": {"description": "d", "content": {"application/json": {"schema": {"$ref": "#/components/schemas/HasConst"}}}}}}},
    }
    schemas = {"HasConst": {"type": "object", "required": ["k"], "properties": {"k": c("fixed"), "o": c(7), "u": {"oneOf": [c("p"), c("q")]}, "l": {"type": "array", "items": c("i")}}}}
    return gen.mkdoc(schemas=schemas, paths=paths, title="Consts", version="3.1.0")


def shared_names_with_failing_document() -> dict:
    """Class names shared between a schema that FAILS to process and things that survive: an inline enum equal to a component enum,
    and inline models whose derived names coincide (A.x_y and AX.y both give AXY)."""
    e = {"type": "string", "enum": ["available", "sold"]}
    S = {"type": "string"}
    schemas = {
        "Pet": {"type": "object", "properties": {"status": dict(e), "broken": {"type": "array"}}},            # fails: array without items, AFTER the enum
        "PetStatus": dict(e),
        "Order": {"type": "object", "properties": {"pet_status": {"$ref": "#/components/schemas/PetStatus"}}},
        "A": {"type": "object", "properties": {"x_y": {"type": "object", "properties": {"v": S}}, "broken": {"type": "array"}}},      # fails after registering AXY
        "AX": {"type": "object", "properties": {"y": {"type": "object", "properties": {"w": S}}}},
        "User": {"type": "object", "properties": {"ax": {"$ref": "#/components/schemas/AX"}}},
    }
    paths = {"/orders": {"get": {"operationId": "listOrders", "parameters": [{"name": "status", "in": "query", "schema": {"$ref": "#/components/schemas/PetStatus"}}],
                                 "responses": {"200": {"description": "d", "content": {"application/json": {"schema": {"type": "array", "items": {"$ref": "#/components/schemas/Order"}}}}}}}},
             "/users": {"get": {"operationId": "listUsers", "responses": {"200": {"description": "d", "content": {"application/json": {"schema": {"$ref": "#/components/schemas/User"}}}}}}}}
    return gen.mkdoc(schemas=schemas, paths=paths, title="Shared names with failing schemas")


def typing_named_document() -> dict:
    """Component schemas named like things the generated modules import or define themselves, used as body and response of operations."""
    S = {"type": "string"}
    names = ["Response", "Union", "Optional", "Any", "Client", "AuthenticatedClient", "File", "Unset", "HTTPStatus", "errors", "httpx", "types", "cast", "Literal", "BytesIO", "Type", "T", "TypeVar",
             "define", "field", "datetime", "isoparse", "UUID", "Mapping", "Enum", "json", "List", "Dict"]
    schemas, paths = {}, {}
    for i, n in enumerate(names):
        schemas[n] = {"type": "object", "properties": {"v": S, "when": {"type": "string", "format": "date-time"}, "kind": {"type": "string", "enum": ["a", "b"]}}}
        paths[f"/t{i}"] = {"post": {"operationId": f"op{i}", "requestBody": {"content": {"application/json": {"schema": {"$ref": f"#/components/schemas/{n}"}}}},
                                    "responses": {"200": {"description": "d", "content": {"application/json": {"schema": {"$ref": f"#/components/schemas/{n}"}}}},
                                                  "404": {"description": "d", "content": {"application/json": {"schema": {"type": "array", "items": {"$ref": f"#/components/schemas/{n}"}}}}}}}}
    return gen.mkdoc(schemas=schemas, paths=paths, title="Typing named schemas")


def nonfinite_defaults_document() -> dict:
    """Numbers YAML can write and JSON cannot (.inf, -.inf, .nan) and very large ones as defaults of number properties and parameters."""
    vals = {"pinf": float("inf"), "ninf": float("-inf"), "nan": float("nan"), "big": 1e308, "tiny": 5e-324, "bigint": 10 ** 30}
    schemas = {"N": {"type": "object", "properties": {k: {"type": "number", "default": v} for k, v in vals.items()}}}
    paths = {"/n": {"get": {"operationId": "n", "parameters": [{"name": k, "in": "query", "schema": {"type": "number", "default": v}} for k, v in vals.items()], "responses": {"200": {"description": "d"}}}}}
    return gen.mkdoc(schemas=schemas, paths=paths, title="Nonfinite defaults")


def run(rep) -> None:
    quick = rep.tier == "quick"
    rnd = random.Random(seed() * 1069 + 1)
    d = scratch("c01-")
    try:
        docs = {}        # tag -> document
        # codec descriptors as model attributes
        cres = codec.enumerate_descriptors(d, 2)
        rep.tlc(cres)
        descs = [p["d"] for p in cres.printed]
        step = 4 if quick else 1
        docs["codec"] = codec.pack(descs[::step], prefix="T0X")[0]
        # endpoint universes
        req_ops, resp_ops = {}, {}
        for r in endpoint.enumerate_universe("request", 1, d):
            rep.tlc(r)
            for c in r.printed:
                req_ops.setdefault(endpoint.op_key(c["op"]), c["op"])
        rr = endpoint.enumerate_universe("response", 0, d)[0]
        rep.tlc(rr)
        for c in rr.printed:
            resp_ops.setdefault(endpoint.op_key(c["op"]), c["op"])
        docs["endpoint-requests"] = endpoint.pack_ops(list(req_ops.values()))[0]
        docs["endpoint-responses"] = endpoint.pack_ops(list(resp_ops.values()), method="get")[0]
        comps, fam = c02.structured_families()
        docs["structured"] = gen.mkdoc(schemas={**comps, **{k: v[0] for k, v in fam.items()}})
        docs["hostile-names"] = hostile_document(HOSTILE)
        docs["reserved-names"] = reserved_named_document()
        docs["enum-collisions"] = enum_collision_document()
        docs["endpoint-owned-names"] = endpoint_owned_names_document(d)
        docs["defaults-corner"] = defaults_corner_document()
        # titles whose derived project / package names leave ASCII, start with digits, contain dots and dashes or are keywords: names end up in
        # pyproject.toml / setup.py of every flavour
        for ti, title in enumerate(["K\u00e4se Lager", "\u0418\u043d\u0432\u0435\u043d\u0442\u0430\u0440\u044c", "\u5728\u5eab API", "\u0661\u0662\u0663 numbers", "a.b-c d", "class", "1st API"]):
            docs[f"title-{ti}"] = gen.mkdoc({"T": {"type": "object", "properties": {"v": {"type": "string"}}}},
                                             {"/t": {"get": {"operationId": "t", "responses": {"200": {"description": "d", "content": {"application/json": {"schema": {"$ref": "#/components/schemas/T"}}}}}}}}, title=title)
        docs["consts"] = consts_document()
        docs["signature-corner"] = signature_corner_document()
        docs["renamed-redefined"] = renamed_redefined_document()
        docs["shared-names-failing"] = shared_names_with_failing_document()
        docs["typing-named"] = typing_named_document()
        docs["nonfinite-defaults"] = nonfinite_defaults_document()
        for name, rdoc in c12.rich_documents().items():
            if name in ("rich", "zoo", "zoo-warn", "baseline_openapi_3.0.json") or not quick:
                docs["doc:" + name] = rdoc
        # pipeline / ops universes: every removal pattern (stratified), accepted documents only
        cases = pipe.run_universe(rep, 3, d, kinds_t=pipe.KINDS_T + pipe.KINDS_T_UNION) if not quick else pipe.run_universe(rep, 3, d)
        strata: dict = {}
        for c in cases:
            strata.setdefault((pipe.sig(c["doc"]), len(c["aff"])), []).append(c)
        keys = sorted(strata)
        rnd.shuffle(keys)
        for k, key in enumerate(keys[: (90 if quick else 1500)]):
            docs[f"pipe{k}"] = pipe.concretize(rnd.choice(strata[key])["doc"])
        ocs = []
        for r in ops.enumerate_ops(1, 1, d):
            rep.tlc(r)
            ocs += [c for c in r.printed if c["result"] == "ok"]
        for k, c in enumerate(rnd.sample(ocs, 60 if quick else 600)):
            docs[f"ops{k}"] = ops.concretize(c["op"])
        # ---- generate under configurations
        big = [t for t in docs if not t.startswith(("pipe", "ops"))]
        configs = [("none", False, False), ("poetry", True, False), ("pdm", False, True), ("setup", True, True)]
        jobs, meta = [], []
        for t in docs:
            cfgs = configs if t in big else [configs[(hash(t) % 4 + 4) % 4 if False else len(meta) % 4]]
            for (m, lit, doca) in cfgs:
                out = d / f"g{len(jobs):04d}"
                jobs.append((docs[t], str(out), {"meta": m, "literal_enums": lit, "docstrings_on_attributes": doca}))
                meta.append((t, m, lit, doca, out))
        results = treegen.generate_many(jobs)
        roots, tags, pkgs, lines = [], {}, [], []
        for (t, m, lit, doca, out), g in zip(meta, results):
            tag = t if t in big else t.rstrip("0123456789")
            info = {"document": t, "meta": m, "literal_enums": lit, "docstrings_on_attributes": doca}
            rep.count(1, (t, m, lit, doca))
            if g["exc"]:
                rep.violate(f"C01/generator-crash/{tag}", f"{t}: {g['exc'].strip().splitlines()[-1][:200]}", **info)
                continue
            if g["rejected"] or any(x["level"] == "ERROR" for x in g["diags"]):
                continue        # not accepted: outside C01's quantifier
            pkg_root = out if m == "none" else next((p for p in out.iterdir() if p.is_dir() and (p / "__init__.py").exists()), None)
            if pkg_root is None:
                rep.violate(f"C01/no-package/{tag}/{m}", f"{t}: no package directory generated", **info)
                continue
            lines += check_tree(rep, pkg_root, tag, m, d, info)
            roots.append(pkg_root)
            tags[str(pkg_root)] = tag
            pkgs.append((str(pkg_root.parent), pkg_root.name, tag, info))
        # setup.py compiles (not executed)
        for (t, m, lit, doca, out), g in zip(meta, results):
            if m == "setup" and (out / "setup.py").exists():
                try:
                    compile((out / "setup.py").read_text(), "setup.py", "exec")
                except SyntaxError as e:
                    rep.violate(f"C01/setup-py-syntax/{t}", f"setup.py: {e.msg}", document=t)
        ruff_undefined(rep, roots, d, tags)
        bad = treegen.import_check([(p, n) for p, n, _, _ in pkgs], chunk=6)
        by = {n: (tag, info) for _, n, tag, info in pkgs}
        for pkg, errs in bad.items():
            tag, info = by.get(pkg, ("?", {}))
            seen = set()
            for mod, err in sorted(errs.items()):
                k = f"C01/import-fails/{tag}/{_slug(err)}"
                if k in seen:
                    continue
                seen.add(k)
                rep.violate(k, f"module {mod} fails to import: {err}", module=mod, **info)
        # code -> spec: symbol census validated by TLC
        (d / "census.ndjson").write_text("\n".join(json.dumps(x) for x in lines) + "\n")
        tres = tlc.run_tlc("ImportsTrace.tla", "ImportsTrace.cfg", workers=1, env={"TRACE_FILE": str(d / "census.ndjson")}, timeout=1800)
        rep.tlc(tres)
        post = [x for x in tres.printed if isinstance(x, dict) and "insufficient" in x]
        if not post or post[0]["consumed"] != len(lines):
            raise tlc.TlcFailure("ImportsTrace did not consume the census:\n" + tres.out[-1500:])
        rep.traces += len(lines)
        for it in post[0]["insufficient"][:50]:
            root = next((r for r in roots if it["file"].startswith(r.name + "/")), None)
            rep.violate(f"C01/symbol-insufficient/{tags.get(str(root), '?')}/{'+'.join(sorted(it['missing'])[:3])}",
                        f"{it['file']} uses {it['missing']} which the module neither imports nor defines", file=it["file"])
        rep.extra["documents"] = len(docs)
        rep.extra["packages"] = len(pkgs)
        rep.extra["modules_in_census"] = len(lines)
        rep.sample({"document": "hostile-names", "names": HOSTILE[:12], "configs": configs})
    finally:
        rmtree(d)
    rep.rule = ("documents concretised from the Codec / Endpoint / Pipeline / Ops universes + structured families + a hostile-names document + rich and repository "
                "documents, generated under metadata flavours x literal_enums x docstrings_on_attributes; compile, import in a fresh interpreter, ruff F821-F823, "
                "relative-import resolution, tomllib; non-trivial = (document, configuration)")
    rep.exhaustive = False
    rep.assumptions += ["setup.py is compiled but not executed; README/.gitignore are not code",
                        "'only the declared runtime dependencies' is checked against the versions installed here (fresh interpreter with -I)"]
