"""C02 - model decode/encode is a lossless JSON round trip.

Spec: Codec.tla (operational DecodeAttr/EncodeAttr mirroring the templates incl. the union try-chain; declarative Valid; laws K1-K3).
TLC evaluates K1 for every descriptor (16 leaf kinds, ordered unions of 2-3 members over 12 kinds, x required x nullable) and 25 wire
classes: refutations are design-level counterexamples.  Binding A: every descriptor becomes a real model class (packed), every wire
class a real JSON value; the real from_dict/to_dict are executed in a sandbox; validity of instances is screened independently with
jsonschema.  Binding B: the observations are validated against the spec by CodecTrace.tla.  Structured families (additional
properties, nesting, recursion, allOf) with explicit instances.
"""
from __future__ import annotations

import itertools
import json
import random

from .. import codec, gen, tlc
from ..common import rmtree, scratch, seed

S = {"type": "string"}
I = {"type": "integer"}


def ref(n):
    return {"$ref": f"#/components/schemas/{n}"}


VALID_LEAF = {"any": None, "bool": {"t", "f"}, "int": {"i0", "i1", "i2", "i7"}, "float": {"i0", "i1", "i2", "i7", "f15", "f10"},
              "str": {"se", "s", "ds", "dts", "dt0", "us", "m1", "m2"}, "date": {"ds"}, "datetime": {"dts", "dt0"}, "uuid": {"us"}, "enums": {"se", "m1", "m2"},
              "enumi": {"i0", "i1", "i2"}, "modelO": {"objv", "objw", "objvw", "obj0"}, "none": {"null"}, "modelM": {"objv", "objvw"}, "modelN": {"objw", "objvw"}, "modelS": {"objv"},
              "listint": {"arr0", "arri"}, "listdate": {"arr0", "arrd"}, "listM": {"arr0", "arro"}}
HAS_CONSTRUCT = {"date", "datetime", "uuid", "enums", "enumi", "modelM", "modelN", "modelS", "modelO", "listint", "listdate", "listM"}
PY_KIND = {"date": "date", "datetime": "datetime", "UUID": "uuid", "Enum:ES": "enums", "Enum:EI": "enumi", "Model:M": "modelM", "Model:N": "modelN",
           "Model:S": "modelS"}


def union_key(d: dict, w: str, enc, py: str | None = None) -> str:
    """Canonical key for a lossy union: which member captured the value, and where it is listed relative to the members the value
    is valid for (before / after-passthrough = only non-constructing members precede it / after = a constructing valid member precedes it)."""
    ms = list(d["ms"]) if d["kind"] == "union" else [d["kind"]]
    if w == "arri" and "listint" in ms and ("listM" in ms or "listdate" in ms) and enc == "raise":
        return "C02/union-lossy/raw-list-reaches-constructed-list-encoder/value=arri"
    captor = PY_KIND.get(py or "")
    if captor in ms:
        ci = ms.index(captor)
        valid_before = [k for k in ms[:ci] if VALID_LEAF.get(k) is None or w in VALID_LEAF[k]]
        listed = "before" if not valid_before else ("after-passthrough" if all(k not in HAS_CONSTRUCT for k in valid_before) else "after")
        return f"C02/union-lossy/captured-by={captor}/value={w}/listed={listed}"
    return f"C02/union-lossy/members={'+'.join(ms)}/value={w}/got={enc}"


def judge_flat(rep, descs, cases, out, validity) -> list[dict]:
    trace = []
    tid = 0
    for p, c, val in zip(descs, cases, validity):
        d = p["d"]
        rr = out["results"].get(c["cls"], {})
        if rr.get("__missing__"):
            rep.violate(f"C02/class-missing/{d['kind']}", f"model class for descriptor {d} was not generated", d=d)
            continue
        for i, w in enumerate(codec.WIRESEQ):
            r = rr[w]
            dec, enc = codec.project_dec(r)
            mdec, menc = p["dec"][i], p["enc"][i]
            conform = (dec == "raise") == (mdec[0] == "raise") and (dec == "raise" or (enc == menc and (dec[0] == mdec[0] or {dec[0], mdec[0]} <= {"raw", "list"})))
            if not conform:
                rep.drifted(mode="codec", d=d, w=w, model=[mdec, menc], real=[dec, enc, r.get("py")])
            tid += 1
            trace.append({"tid": tid, "d": d, "w": w, "dec": "raise" if dec == "raise" else "ok", "py": "x" if dec == "raise" else dec[0], "enc": enc})
            valid = (not d["req"]) if w == "absent" else val[i - 1]
            model_valid = p["valid"][i]
            if valid != model_valid and w not in ("f10",):
                rep.drifted(mode="validity", d=d, w=w, model=model_valid, jsonschema=valid)
            rep.count(1, (json.dumps(d, sort_keys=True), w) if valid else None)
            if not valid:
                continue
            ms_all = (d["ms"] if d["kind"] == "union" else [d["kind"]])
            if w == "f10" and not ({"float", "any"} & set(ms_all)):
                continue      # a whole-number float offered for an integer kind: lenient band, not judged
            sig = d["kind"] if d["kind"] != "union" else "union(" + ",".join(d["ms"]) + ")"
            if r["dec"] != "ok":
                rep.violate(f"C02/valid-value-rejected/{sig}/{w}", f"schema-valid value {w} does not decode: {r['dec']}", d=d, w=w,
                            value=codec.WIRE.get(w), schema=codec.schema_of(d))
                continue
            if r.get("enc_raise"):
                key = union_key(d, w, "raise", r.get("py")) if d["kind"] == "union" else f"C02/encode-raises/{sig}/{w}"
                rep.violate(key, f"decoded value of {w} cannot be re-encoded: {r['enc']}", d=d, w=w, schema=codec.schema_of(d))
                continue
            if not r.get("enc_plain") or not r.get("json_ok"):
                rep.violate(f"C02/not-plain-json/{sig}/{w}", f"encoded form is not plain JSON: {r.get('enc_full')}", d=d, w=w)
                continue
            same = (enc == w) if w != "absent" else (not r["enc_present"])
            if not same:
                if w == "absent" and d["kind"] in ("listdate", "listM"):
                    key = f"C02/absent-optional-list-becomes-empty/{d['kind']}"
                elif d["kind"] == "union" or d["nul"]:
                    key = union_key(d, w, enc, r.get("py"))
                else:
                    key = f"C02/round-trip/{sig}/{w}/got={enc}"
                rep.violate(key, f"{w} ({json.dumps(codec.WIRE.get(w))}) decodes and re-encodes as {enc} ({json.dumps(r.get('enc'), default=repr)[:80]})",
                            d=d, w=w, schema=codec.schema_of(d), observed=r)
            elif r.get("redec_equal") is not True:
                rep.violate(f"C02/redecode-differs/{sig}/{w}", f"decoding the re-encoded value gives a different object ({r.get('redec_equal')})", d=d, w=w)
    return trace


def _only_added_empty_lists(a, b) -> bool:
    """b equals a except for keys (at any depth) that are absent in a and [] in b."""
    if isinstance(a, dict) and isinstance(b, dict):
        for k in b:
            if k not in a:
                if b[k] != []:
                    return False
            elif not _only_added_empty_lists(a[k], b[k]):
                return False
        return all(k in b for k in a)
    if isinstance(a, list) and isinstance(b, list):
        return len(a) == len(b) and all(_only_added_empty_lists(x, y) for x, y in zip(a, b))
    return a == b


def structured_families() -> tuple[dict, dict]:
    """(components, families): families maps a schema name to (schema, explicit instances)."""
    comps = dict(codec.COMPONENTS)
    fam = {
        "AAny": ({"type": "object", "properties": {"k": S}}, [{"k": "x", "extra": 1, "e2": {"a": [1, None]}}, {}, {"k": "x"}, {"extra": None}]),
        "AFalse": ({"type": "object", "properties": {"k": S}, "additionalProperties": False}, [{"k": "x"}, {}]),
        "AInt": ({"type": "object", "properties": {"k": S}, "additionalProperties": I}, [{"k": "x", "n": 3, "m": 0}, {"n": -1}]),
        "ADate": ({"type": "object", "additionalProperties": {"type": "string", "format": "date"}}, [{"d1": "2020-01-02", "d2": "1999-12-31"}, {}]),
        "AModel": ({"type": "object", "additionalProperties": ref("M")}, [{"m": {"v": 1}, "n": {"v": 2, "more": True}}]),
        "AListM": ({"type": "object", "additionalProperties": {"type": "array", "items": ref("M")}}, [{"l": [{"v": 1}], "e": []}]),
        "AUnion": ({"type": "object", "additionalProperties": {"oneOf": [ref("M"), S]}}, [{"a": {"v": 1}, "b": "str"}]),
        "Outer": ({"type": "object", "required": ["inner"], "properties": {"inner": ref("M"), "opt": ref("N"), "arr": {"type": "array", "items": {"type": "array", "items": I}},
                                                                            "deep": {"type": "object", "properties": {"x": ref("M"), "when": {"type": "string", "format": "date-time"}}}}},
                  [{"inner": {"v": 1}}, {"inner": {"v": 1}, "opt": {"w": 2}, "arr": [[1], [], [2, 3]], "deep": {"x": {"v": 5}, "when": "2020-01-02T03:04:05+00:00"}},
                   {"inner": {"v": 1, "unknown": [1]}, "deep": {}}]),
        "Tree": ({"type": "object", "required": ["value"], "properties": {"value": I, "children": {"type": "array", "items": ref("Tree")}}},
                 [{"value": 1}, {"value": 1, "children": []}, {"value": 1, "children": [{"value": 2, "children": [{"value": 3}]}, {"value": 4}]}]),
        "Ping": ({"type": "object", "properties": {"pong": ref("Pong")}}, [{}, {"pong": {}}, {"pong": {"ping": {"pong": {}}}}]),
        "Pong": ({"type": "object", "properties": {"ping": ref("Ping")}}, [{"ping": {}}]),
        "SharedTree": ({"allOf": [ref("Tree"), {"type": "object", "properties": {"owner": S}}]},
                       [{"value": 1, "owner": "o"}, {"value": 1, "children": [{"value": 2, "children": [{"value": 3}]}], "owner": "o"}]),
        "Base": ({"type": "object", "required": ["id"], "properties": {"id": I, "email": S, "tags": {"type": "array", "items": S}}},
                 [{"id": 1}, {"id": 1, "email": "e"}, {"id": 2, "tags": ["a"]}, {"id": 3, "tags": []}]),
        "Child": ({"allOf": [ref("Base"), {"type": "object", "required": ["email"], "properties": {"extra": {"type": "string", "format": "date"}}}]},
                  [{"id": 1, "email": "e"}, {"id": 1, "email": "e", "extra": "2020-01-02", "tags": ["x"]}]),
        "Sibling": ({"allOf": [ref("Base"), {"type": "object", "properties": {"other": I}}]}, [{"id": 1}, {"id": 1, "other": 2, "email": "z"}]),
        "GrandChild": ({"allOf": [ref("Child"), {"type": "object", "properties": {"g": ref("M")}}]}, [{"id": 1, "email": "e", "g": {"v": 1}}]),
        "ListOfUnion": ({"type": "object", "properties": {"items": {"type": "array", "items": {"oneOf": [ref("M"), S]}}}}, [{"items": [{"v": 1}, "s", {"v": 2}]}, {"items": []}]),
        "TwoModels": ({"type": "object", "properties": {"u": {"oneOf": [ref("M"), ref("N")]}}}, [{"u": {"v": 1}}, {"u": {"w": 2}}, {"u": {"v": 1, "w": 2}}]),
        "NestedUnion": ({"type": "object", "properties": {"u": {"oneOf": [{"oneOf": [ref("M"), {"type": "null"}]}, ref("Strict")]}}},
                        [{"u": {"v": 1, "when": "x", "note": "n"}}, {"u": {"id": 7}}, {"u": None}]),
        # "reference by id or embed": object members sharing a property name that an earlier member types uuid / date / enum and a later one differently
        "OwnerLink": ({"type": "object", "required": ["owner"], "properties": {"owner": {"type": "string", "format": "uuid"}}}, [{"owner": "12345678-1234-5678-1234-567812345678"}]),
        "OwnerEmbedded": ({"type": "object", "required": ["owner"], "properties": {"owner": ref("M")}}, [{"owner": {"v": 1}}]),
        "OwnerLegacy": ({"type": "object", "required": ["owner"], "properties": {"owner": I}}, [{"owner": 7}]),
        "OwnerDated": ({"type": "object", "required": ["owner"], "properties": {"owner": {"type": "string", "format": "date-time"}}}, [{"owner": "2020-01-02T03:04:05+00:00"}]),
        "IdOrEmbed": ({"type": "object", "properties": {"u": {"oneOf": [ref("OwnerLink"), ref("OwnerDated"), ref("OwnerEmbedded"), ref("OwnerLegacy")]},
                                                        "l": {"type": "array", "items": {"anyOf": [ref("OwnerLink"), ref("OwnerLegacy"), ref("OwnerEmbedded")]}}}},
                      [{"u": {"owner": "12345678-1234-5678-1234-567812345678"}}, {"u": {"owner": {"v": 1}}}, {"u": {"owner": 7}}, {"u": {"owner": "2020-01-02T03:04:05+00:00"}},
                       {"l": [{"owner": 7}, {"owner": {"v": 2}}, {"owner": "12345678-1234-5678-1234-567812345678"}, {"owner": True}]}, {"u": {"owner": [1]}}]),
        "Strict": ({"type": "object", "required": ["id"], "properties": {"id": I}, "additionalProperties": False}, [{"id": 1}]),
        "NullableModel": ({"type": "object", "properties": {"m": {"oneOf": [ref("M"), {"type": "null"}]}, "l": {"type": ["array", "null"], "items": ref("M")}}},
                          [{"m": None, "l": None}, {"m": {"v": 1}, "l": [{"v": 2}]}, {}]),
        "EnumHolder": ({"type": "object", "properties": {"e": ref("ES"), "i": ref("EI"), "le": {"type": "array", "items": ref("ES")}}},
                       [{"e": "a", "i": 2, "le": ["a", "b", "a"]}, {}]),
    }
    # enum values that need escaping when they are written into source (both enum styles must reproduce them), integer enums with a sign
    odd = ['a"b', "C:\\exports", "tab\tsep", "line\nbreak", "it's", "plain", "\\\\nas\\share", "uni\u2028", ""]
    fam["EnumOdd"] = ({"type": "object", "properties": {"e": {"type": "string", "enum": odd}, "i": {"type": "integer", "enum": [-1, 0, 10]}, "le": {"type": "array", "items": {"type": "string", "enum": odd}}}},
                      [{"e": v} for v in odd] + [{"i": -1}, {"i": 0, "le": odd}, {}])
    # `format` does not restrict a number to whole values; integers given as JSON floats are not judged (whole-number floats)
    fam["NumFormats"] = ({"type": "object", "properties": {"n32": {"type": "number", "format": "int32"}, "n64": {"type": "number", "format": "int64"}, "f": {"type": "number", "format": "float"},
                                                            "arr": {"type": "array", "items": {"type": "number", "format": "int32"}}, "odd": {"type": "integer", "format": "double"}}},
                         [{"n32": 12.5, "n64": 0.25, "f": 1.5, "arr": [10.75, 12.5]}, {"n32": 3, "odd": 4}, {}])
    # two allOf members declare one enum property: the narrower list first, the wider one later and with a default (the merged property is the
    # narrower enum, its default must name a member of THAT class)
    fam["AcctBase"] = ({"type": "object", "properties": {"status": {"type": "string", "enum": ["active", "suspended"]}, "level": {"type": "integer", "enum": [1, 2]}}}, [{"status": "active"}, {}])
    fam["AcctManaged"] = ({"allOf": [ref("AcctBase"), {"type": "object", "properties": {"status": {"type": "string", "enum": ["active", "suspended", "archived"], "default": "active"},
                                                                                         "level": {"type": "integer", "enum": [1, 2, 3], "default": 2}, "owner": S}}]},
                          [{"status": "suspended", "level": 1, "owner": "o"}, {}])
    # every presence pattern of three optional properties of different kinds
    fam["Presence"] = ({"type": "object", "properties": {"a": {"type": "string", "format": "date"}, "b": ref("M"), "c": {"type": ["integer", "null"]}}},
                       [{k: v for k, v in zip("abc", vals) if v != "ABSENT"} for vals in itertools.product(["2020-01-02", "ABSENT"], [{"v": 1}, "ABSENT"], [5, None, "ABSENT"])])
    return comps, fam


def structured(rep, d, pkg: str = "structured", comps=None, fam=None, doc=None, names=None, prop: str = "C02", **cf) -> None:
    if fam is None:
        comps, fam = structured_families()
    schemas = {**comps, **{k: v[0] for k, v in fam.items()}}
    validity = codec.screen_validity([(ref(k), v[1]) for k, v in fam.items()], components=schemas)
    doc = doc or gen.mkdoc(schemas=schemas)
    g = gen.generate(doc, d / pkg, **cf)
    if g["exc"] or g["rejected"] or g["diags"]:
        rep.violate(f"{prop}/{pkg}-family-not-generated", f"{pkg} families did not generate cleanly: {g['exc'] or g['diags'][:2]}", doc=doc)
        return
    # drive through a tiny inline runner (whole-document round trip)
    import subprocess
    from ..common import VENV_PY
    script = r'''
import json, sys
job = json.load(sys.stdin); sys.path.insert(0, job["parent"])
import importlib
m = importlib.import_module(job["pkg"] + ".models")
def plain(v):
    if v is None or isinstance(v, (bool, int, float, str)): return True
    if isinstance(v, list): return all(plain(x) for x in v)
    if isinstance(v, dict): return all(isinstance(k, str) and plain(x) for k, x in v.items())
    return False
import typing, datetime, uuid, enum
types_mod = importlib.import_module(job["pkg"] + ".types")
def conforms(v, hint):
    origin = typing.get_origin(hint)
    if hint is typing.Any: return True
    if hint is None or hint is type(None): return v is None
    if origin is typing.Union: return any(conforms(v, a) for a in typing.get_args(hint))
    if origin is typing.Literal: return any(v == a and type(v) is type(a) for a in typing.get_args(hint))
    if origin in (list, typing.List):
        args = typing.get_args(hint)
        return isinstance(v, list) and (not args or all(conforms(x, args[0]) for x in v))
    if origin in (dict, typing.Dict): return isinstance(v, dict)
    if isinstance(hint, type):
        if hint is float: return isinstance(v, (int, float)) and not isinstance(v, bool)
        if hint is int: return isinstance(v, int) and not isinstance(v, bool)
        if hint is datetime.date: return isinstance(v, datetime.date) and not isinstance(v, datetime.datetime)
        return isinstance(v, hint)
    if origin is not None and isinstance(origin, type): return isinstance(v, origin)
    return True
def untruthful(C, o):
    try: hints = typing.get_type_hints(C, vars(m) | vars(types_mod) | {"datetime": datetime, "UUID": uuid.UUID})
    except Exception as ex: return ["<hints: %s>" % str(ex)[:80]]
    return [f"{n}={type(getattr(o, n)).__name__} !: {h}" for n, h in hints.items() if n != "additional_properties" and hasattr(o, n) and not conforms(getattr(o, n), h)]
out = {}
for cls, insts in job["fam"].items():
    C = getattr(m, job["names"].get(cls, cls)); res = []
    for j in insts:
        try:
            o = C.from_dict(j); e = o.to_dict()
            res.append({"ok": True, "untruthful": untruthful(C, o), "enc": e if plain(e) else repr(e), "plain": plain(e), "same": plain(e) and json.loads(json.dumps(e)) == j,
                        "redec": C.from_dict(e) == o})
        except Exception as ex:
            res.append({"ok": False, "err": type(ex).__name__ + ": " + str(ex)[:120]})
    out[cls] = res
print(json.dumps(out))
'''
    p = subprocess.run([VENV_PY, "-I", "-c", script], input=json.dumps({"parent": str(d), "pkg": pkg, "names": names or {}, "fam": {k: v[1] for k, v in fam.items()}}),
                       capture_output=True, text=True, timeout=300)
    if p.returncode != 0:
        rep.violate(f"{prop}/{pkg}-family-import", f"{pkg} package failed in the sandbox: " + p.stderr[-800:], doc=doc)
        return
    res = json.loads(p.stdout.strip().splitlines()[-1])
    for (k, (schema, insts)), val in zip(fam.items(), validity):
        for inst, ok, r in zip(insts, val, res[k]):
            rep.count(1, (k, json.dumps(inst, sort_keys=True)) if ok else None)
            if not ok:
                continue
            if not r["ok"]:
                rep.violate(f"{prop}/{pkg}/{k}/valid-instance-rejected", f"{k}: valid instance {json.dumps(inst)} fails: {r['err']}", schema=schema, instance=inst)
            elif not r["plain"]:
                rep.violate(f"{prop}/{pkg}/{k}/not-plain-json", f"{k}: encoded form is not plain JSON: {r['enc']}", schema=schema, instance=inst)
            elif not r["same"] and isinstance(r["enc"], dict) and _only_added_empty_lists(inst, r["enc"]):
                rep.violate(f"{prop}/absent-optional-list-becomes-empty/structured", f"{k}: {json.dumps(inst)} re-encodes as {json.dumps(r['enc'])}",
                            schema=schema, instance=inst, got=r["enc"])
            elif not r["same"]:
                rep.violate(f"{prop}/{pkg}/{k}/round-trip", f"{k}: {json.dumps(inst)} re-encodes as {json.dumps(r['enc'])}", schema=schema, instance=inst, got=r["enc"])
            elif prop == "C11" and r.get("untruthful"):
                rep.violate(f"C11/{pkg}/{k}/annotation-untruthful", f"{k}: decoding {json.dumps(inst)} stores {r['untruthful'][:3]}", schema=schema, instance=inst)
            elif r["redec"] is not True:
                rep.violate(f"{prop}/{pkg}/{k}/redecode-differs", f"{k}: decoding the re-encoded value gives a different object", schema=schema, instance=inst)
    rep.extra[f"{pkg}_families"] = len(fam)
    rep.extra[f"{pkg}_valid_instances"] = sum(sum(1 for ok in val if ok) for val in validity)


def run(rep) -> None:
    quick = rep.tier == "quick"
    d = scratch("c02-")
    try:
        res, descs, cases, out, gens = codec.observe(d, 2 if quick else 3,
                                                     None if quick else ["none", "str", "date", "datetime", "enums", "modelM", "modelN", "listint", "listM"])
        rep.tlc(res)
        refuted = [p for p in descs if not p["k1"]]
        rep.extra["descriptors"] = len(descs)
        rep.extra["K1_refuted_on_model"] = len(refuted)
        rep.extra["K1_refuted_samples"] = [p["d"] for p in refuted[:6]]
        validity = codec.screen_validity([(codec.schema_of(p["d"]), [codec.WIRE[w] for w in codec.WIRESEQ[1:]]) for p in descs])
        trace = judge_flat(rep, descs, cases, out, validity)
        # code -> spec
        bad = dict(trace[10]); bad["tid"] = 9_000_001; bad["enc"] = "i7" if bad["enc"] != "i7" else "i2"; bad["dec"] = "ok"
        (d / "obs.ndjson").write_text("\n".join(json.dumps(e) for e in trace + [bad]) + "\n")
        tres = tlc.run_tlc("CodecTrace.tla", "CodecTrace.cfg", workers=1, env={"TRACE_FILE": str(d / "obs.ndjson")}, timeout=1800)
        rep.tlc(tres)
        post = [p for p in tres.printed if isinstance(p, dict) and "nonconforming" in p]
        if not post or post[0]["consumed"] != len(trace) + 1:
            raise tlc.TlcFailure("CodecTrace did not consume the observations:\n" + tres.out[-1500:])
        if 9_000_001 not in post[0]["nonconforming"]:
            raise tlc.TlcFailure("binding self-test failed: corrupted observation accepted by CodecTrace")
        rep.traces += len(trace)
        rep.extra["trace_nonconforming"] = len(post[0]["nonconforming"]) - 1
        rep.extra["trace_K1_failures_by_TLC"] = len(post[0]["k1"])
        structured(rep, d)
        structured(rep, d, pkg="structured_literal", literal_enums=True)
        # the construct zoo: rarely combined constructs with hand-written instances (screened by jsonschema like everything else)
        from .. import zoo
        zdoc = zoo.zoo_clean()
        zs = zdoc["components"]["schemas"]
        structured(rep, d, pkg="zoo", comps={k: v for k, v in zs.items() if k not in zoo.ZOO_INSTANCES}, fam={k: (zs[k], v) for k, v in zoo.ZOO_INSTANCES.items()}, doc=zdoc,
                   names={"Annotated": "AnnotatedThing"})
        rep.sample({"descriptor": descs[len(descs) // 2]["d"], "schema": codec.schema_of(descs[len(descs) // 2]["d"]), "wire_classes": codec.WIRESEQ})
    finally:
        rmtree(d)
    rep.rule = ("every descriptor of Codec.tla's universe x 25 wire classes executed on the real generated classes; instances judged only when "
                "jsonschema (oneOf read as anyOf, canonical date/date-time/uuid) says valid; 22 structured families with explicit instances; "
                "non-trivial = schema-valid (descriptor, value) pair")
    rep.exhaustive = True
    rep.assumptions += ["jsonschema decides instance validity", "File (binary) kinds are not JSON and excluded"]
