"""C03 - requests put every argument where the document says it goes.

Spec: Endpoint.tla (a call as a state machine; operational kwargs construction mirroring the macros; laws E1 exactly one request with every
supplied argument once under its wire name in its location and unset optionals absent, E2 sync = asyncio, E3 credential header) checked by
TLC over parameters (18-entry menu: every location, names needing pythonisation, same name in two locations, scalar/enum/array kinds,
required/optional) x 9 body kinds x security x every presence pattern.  Binding A: every enumerated operation is generated (packed) and
every call is executed in a sandbox against httpx.MockTransport (through httpx_args and through set_httpx_client); the captured request is
judged against the DOCUMENT (method, path slots, query/header/cookie names and forms, body per media type, Content-Type, Authorization).
Binding B: observed requests validated against the spec by EndpointTrace (TLC).  Path-item-level parameters, operation-level overrides and
both declaration orders of two path parameters are separate families.
"""
from __future__ import annotations

import base64
import json
import random

from .. import endpoint, gen, tlc, lifecycle, mediatype, paramwire
from ..common import rmtree, scratch, seed

WIRE = {"str": "tok", "int": "7", "float": "1.5", "bool": "true", "enum": "a", "date": "2020-01-02", "uuid": "12345678-1234-5678-1234-567812345678"}
BODY_EXPECT = {
    "json;param": ("json", "application/vnd.acme+json; version=2", {"v": 1, "name": "n"}),
    "json": ("json", "application/json", {"v": 1, "name": "n"}), "vnd+json": ("json", "application/vnd.api+json", {"v": 1, "name": "n"}),
    "json|form:json": ("json", "application/json", {"v": 1, "name": "n"}), "jsonarr": ("json", "application/json", [{"v": 1, "name": "n"}, {"v": 2, "name": "m"}]),
    "form": ("form", "application/x-www-form-urlencoded", [["a", "x"], ["b", "2"]]), "json|form:form": ("form", "application/x-www-form-urlencoded", [["a", "x"], ["b", "2"]]),
    "multi": ("multipart", "multipart/form-data", None), "octet": ("raw", "application/octet-stream", base64.b64encode(b"\x00raw-bytes\xff").decode())}


def expected_path(op: dict, idx: int, reverse: bool = False) -> str:
    pathps = [p for p in op["ps"] if p["loc"] == "path"]
    if reverse:
        pathps = list(reversed(pathps))
    def form(p):
        return "True" if p["kind"] == "bool" else WIRE[p["kind"]]
    return f"/base/op{idx}" + "".join("/" + form(p) for p in pathps) + "/end"


def judge_request(rep, op, args, obs, idx, tag, method="POST", reverse=False, via="httpx_args", variant="") -> dict | None:
    sig = f"{tag}/body={op['body']}/params={'+'.join(p['loc'] + ':' + p['kind'] for p in op['ps']) or '-'}"
    if obs.get("harness_error") or obs.get("no_function"):
        rep.violate(f"C03/endpoint-not-callable/{sig}", f"endpoint module/function missing or not importable: {obs}", op=op)
        return None
    if obs.get("raised"):
        fam = "asyncio" if variant.startswith("asyncio") else "sync"
        rep.violate(f"C03/call-raises/{obs['raised']['type']}/{fam}/body={op['body']}" + ("" if op["body"] == "octet" else f"/{sig}"),
                    f"calling the endpoint ({variant}) raised {obs['raised']}", op=op, args=args)
        return None
    reqs = obs["requests"]
    if len(reqs) != 1:
        rep.violate(f"C03/request-count/{len(reqs)}/{sig}", f"{len(reqs)} requests sent by one call", op=op)
        return None
    r = reqs[0]
    probs = []
    if r["method"] != method:
        probs.append(("method", f"method {r['method']} != {method}"))
    if r["path"] != expected_path(op, idx, reverse):
        probs.append(("path", f"path {r['path']} != {expected_path(op, idx, reverse)}"))
    exp_q, exp_h, exp_c = [], {}, {}
    for j, p in enumerate(op["ps"]):
        supplied = p["req"] or (j + 1) in args
        if not supplied:
            continue
        if p["loc"] == "query":
            exp_q += [[p["n"], "x"], [p["n"], "y"]] if p["kind"] in ("list", "listform") else [[p["n"], WIRE[p["kind"]]]]
        elif p["loc"] == "header":
            exp_h[p["n"].lower()] = WIRE[p["kind"]]
        elif p["loc"] == "cookie":
            exp_c[p["n"]] = WIRE[p["kind"]]
    if sorted(map(tuple, r["query"])) != sorted(map(tuple, exp_q)):
        probs.append(("query", f"query {r['query']} != {exp_q}"))
    noise = {"host", "accept", "accept-encoding", "connection", "user-agent", "content-type", "content-length", "cookie", "authorization", "transfer-encoding"}
    got_h = {k: v for k, v in r["headers"].items() if k not in noise}
    if got_h != exp_h:
        probs.append(("header", f"headers {got_h} != {exp_h}"))
    cookie = r["headers"].get("cookie", "")
    got_c = dict(x.split("=", 1) for x in cookie.split("; ") if "=" in x)
    if got_c != exp_c:
        probs.append(("cookie", f"cookies {got_c} != {exp_c}"))
    if op["body"] == "none":
        if r["body"]["kind"] != "none":
            probs.append(("body", f"unexpected body {r['body']}"))
    else:
        kind, ctype, val = BODY_EXPECT[op["body"]]
        b = r["body"]
        if b["kind"] != kind or (not b["ctype"].startswith(ctype) if kind == "multipart" else b["ctype"] != ctype):
            probs.append(("content-type", f"body sent as {b['kind']} with Content-Type {b['ctype']!r}, declared {ctype}"))
        elif kind == "multipart":
            names = sorted(x[0] for x in b["value"])
            vals = {x[0]: x[2] for x in b["value"]}
            if names != ["a", "b"] or vals.get("a") != "x" or vals.get("b") != "2":
                probs.append(("body", f"multipart parts {b['value']}"))
        elif b.get("value") != val and not (kind == "form" and sorted(map(tuple, b.get("value", []))) == sorted(map(tuple, val))):
            probs.append(("body", f"body {b.get('value')} != {val}"))
    auth = r["headers"].get("authorization")
    if via == "set_httpx_client":
        pass        # a user-supplied httpx client deliberately overrides headers (documented in the generated docstring): credential not judged
    elif op["secured"]:
        if auth != "Bearer token":
            probs.append(("credential", f"Authorization header {auth!r}"))
        ann = obs.get("client_annotation") or ""
        if "Union" in ann or ("AuthenticatedClient" not in ann):
            probs.append(("client-annotation", f"secured operation accepts {ann}"))
    elif auth is not None:
        probs.append(("credential", f"unsecured operation sent Authorization {auth!r}"))
    if op["secured"]:
        ann = obs.get("client_annotation") or ""
        if ("Union" in ann or ("AuthenticatedClient" not in ann)) and via == "set_httpx_client":
            probs.append(("client-annotation", f"secured operation accepts {ann}"))
    for what, msg in probs:
        rep.violate(f"C03/{what}/{via}/{sig}" if what in ("method", "content-type", "credential", "client-annotation", "body") else f"C03/{what}/{sig}",
                    msg, op=op, args=args, request=r)
    return r


def run(rep) -> None:
    quick = rep.tier == "quick"
    rnd = random.Random(seed() * 1051 + 3)
    d = scratch("c03-")
    try:
        cases = []
        for r in endpoint.enumerate_universe("request", 1 if quick else 2, d):
            rep.tlc(r)
            if r.violated:
                rep.notes.append(f"TLC(Endpoint): {sorted(set(r.violated))}: {r.counterexample[:300]}")
            cases += r.printed
        if quick:       # add a sample of two-parameter operations
            for r in endpoint.enumerate_universe("request", 2, d, parts=10):
                rep.tlc(r)
                two = [c for c in r.printed if len(c["op"]["ps"]) == 2]
                cases += rnd.sample(two, min(len(two), 260))
        if not quick and len(cases) > 60000:
            one = [c for c in cases if len(c["op"]["ps"]) < 2]
            two = [c for c in cases if len(c["op"]["ps"]) == 2]
            cases = one + rnd.sample(two, 50000)
        ops = {}
        for c in cases:
            ops.setdefault(endpoint.op_key(c["op"]), c["op"])
        oplist = list(ops.values())
        idx = {endpoint.op_key(o): i for i, o in enumerate(oplist)}
        rep.extra["operations"] = len(oplist)
        rep.extra["calls_from_model"] = len(cases)
        CH = 900
        trace = []
        for ci in range(0, len(oplist), CH):
            chunk = oplist[ci:ci + CH]
            doc, infos = endpoint.pack_ops(chunk, start=ci)
            names, diags = endpoint.python_names(doc)
            pkg = f"ep{ci // CH}"
            g = gen.generate(doc, d / pkg)
            if g["exc"] or g["rejected"]:
                rep.violate("C03/generator-crash", f"packed operations failed to generate: {(g['exc'] or str(g['diags'][:1]))[-400:]}")
                continue
            calls, meta = [], {}
            for k, c in enumerate(cases):
                i = idx[endpoint.op_key(c["op"])]
                if not (ci <= i < ci + CH):
                    continue
                nm = names.get(f"op{i}")
                if nm is None:
                    rep.violate(f"C03/operation-not-generated/body={c['op']['body']}/params={'+'.join(p['loc'] + ':' + p['kind'] for p in c['op']['ps']) or '-'}",
                                f"a supported operation was not generated: {list(diags.items())[:1]}", op=c["op"])
                    continue
                kw = {nm[(p["loc"], p["n"])]: [p["kind"], bool(p["req"] or (j + 1) in c["args"])] for j, p in enumerate(c["op"]["ps"]) if (p["loc"], p["n"]) in nm}
                via = "set_httpx_client" if (i + len(c["args"])) % 7 == 0 else "httpx_args"
                cid = f"{k}"
                calls.append({"id": cid, "module": infos[i - ci]["module"], "variant": c["variant"], "secured": c["op"]["secured"], "raise": False, "kwargs": kw,
                              "body": None if c["op"]["body"] == "none" else c["op"]["body"], "served": endpoint.served_spec("none", 204), "via": via})
                meta[cid] = (c, i, via)
            out = endpoint.run_calls(d, pkg, calls)
            if "__crash__" in out:
                rep.violate("C03/generated-package-broken", "package with packed operations fails in the sandbox: " + out["__crash__"][-500:])
                continue
            seen = {}
            for cid, (c, i, via) in meta.items():
                obs = out[cid]
                rep.count(1, (endpoint.op_key(c["op"]), tuple(c["args"]), c["variant"]))
                r = judge_request(rep, c["op"], c["args"], obs, i, "universe", via=via, variant=c["variant"])
                if r is None:
                    continue
                # model prediction vs observation (placements)
                got = {("query", k, v) for k, v in map(tuple, r["query"])}
                pred = set()
                for loc, n, form in map(tuple, c["pl"]):
                    if loc == "query" and form == "x,y":
                        pred |= {("query", n, "x"), ("query", n, "y")}
                    elif loc == "query":
                        pred.add(("query", n, form if form != "uuid" else WIRE["uuid"]))
                if got != pred:
                    rep.drifted(mode="endpoint-request", op=c["op"], args=c["args"], model=sorted(pred), real=sorted(got))
                trace.append({"tid": len(trace) + 1, "ps": c["op"]["ps"], "args": c["args"], "secured": c["op"]["secured"], "body": c["op"]["body"],
                              "nreq": len(obs["requests"]),
                              "locs": sorted({(p["loc"], p["n"]) for j, p in enumerate(c["op"]["ps"])
                                              if (p["loc"] == "query" and any(q[0] == p["n"] for q in r["query"])) or (p["loc"] == "header" and p["n"].lower() in r["headers"])
                                              or (p["loc"] == "cookie" and (p["n"] + "=") in r["headers"].get("cookie", "")) or (p["loc"] == "path")}),
                              "auth": r["headers"].get("authorization") is not None, "bodykind": r["body"]["kind"]})
                key = (endpoint.op_key(c["op"]), tuple(c["args"]))
                norm = {k2: r[k2] for k2 in ("method", "path", "query", "body")}
                norm["headers"] = {k2: v for k2, v in r["headers"].items() if k2 not in ("content-length",) and not (k2 == "content-type" and "boundary" in v)}
                if key in seen and seen[key][0] != c["variant"] and seen[key][1] != norm:
                    rep.violate(f"C03/sync-async-differ/body={c['op']['body']}", "the blocking and asyncio variants sent different requests", op=c["op"], a=seen[key][1], b=norm)
                seen.setdefault(key, (c["variant"], norm))
        families(rep, d)
        lifecycle.run(rep, d, quick, seed())
        (d / "obs.ndjson").write_text("\n".join(json.dumps(e) for e in trace) + "\n")
        tres = tlc.run_tlc("EndpointTrace.tla", "EndpointTrace.cfg", workers=1, env={"TRACE_FILE": str(d / "obs.ndjson")}, timeout=1800)
        rep.tlc(tres)
        post = [x for x in tres.printed if isinstance(x, dict) and "e1" in x]
        if not post or post[0]["consumed"] != len(trace):
            raise tlc.TlcFailure("EndpointTrace did not consume the observations:\n" + tres.out[-1500:])
        rep.traces += len(trace)
        rep.extra["trace_E1_failures_by_TLC"] = len(post[0]["e1"])
        rep.extra["trace_E3_failures_by_TLC"] = len(post[0]["e3"])
        rep.sample({"op": cases[7]["op"], "args": cases[7]["args"], "variant": cases[7]["variant"], "model_placements": cases[7]["pl"]})
        # ParamWire.tla: every accepted parameter [location, kind, required, nullable, enum style] x every value class its annotation admits:
        # what is placed determines the argument (W2), blocking = asyncio
        paramwire.judge(rep, "C03", d)
        # MediaType.tla: every request-body media type (type x subtype x parameter x capitals x override) is sent through the httpx argument of its
        # class (M4) with the Content-Type as written
        mediatype.judge(rep, "C03", d)
    finally:
        rmtree(d)
    rep.rule = ("every operation of Endpoint.tla's request universe (<=1 parameter exhaustively + sampled/all pairs, 9 body kinds, secured or not) x every "
                "presence pattern of optional parameters x blocking/asyncio, executed against httpx.MockTransport; families: path-item-level parameters, "
                "operation-level overrides, two path parameters in both orders, every HTTP method; non-trivial = distinct call")
    rep.exhaustive = not quick
    rep.assumptions += ["argument values are URL-safe tokens; header names compared case-insensitively; multipart compared after parsing"]


def families(rep, d) -> None:
    P = lambda n, loc, kind, req=False: {"n": n, "loc": loc, "kind": kind, "req": req}
    base = {"body": "none", "rs": [{"status": 204, "how": "none"}], "secured": False}
    fams = []
    # every HTTP method
    for m in ("get", "put", "post", "delete", "options", "head", "patch", "trace"):
        fams.append(({"ps": [P("id", "path", "str", True), P("q", "query", "str")], **base}, {"method": m}, {1, 2}))
    # path-item-level parameters (all / some), two path parameters in both declaration orders
    two = {"ps": [P("id", "path", "str", True), P("item-id", "path", "int", True), P("q", "query", "str"), P("X-Trace", "header", "str")], **base}
    for lvl in (frozenset(), frozenset({0}), frozenset({2, 3}), frozenset({0, 1, 2, 3})):
        for rev in (False, True):
            fams.append((two, {"pathitem_level": lvl, "reverse_path": rev}, {3, 4}))
    k = 0
    paths, plan = {}, []
    for op, kw, args in fams:
        k += 1
        path, item, info = endpoint.concretize_op(op, 9000 + k, **kw)
        paths[path] = item
        plan.append((op, kw, args, 9000 + k, info))
    # operation-level parameter overrides a path-item-level one with the same name and location (different type); other location untouched
    paths["/ovr/{id}/end"] = {"parameters": [{"name": "q", "in": "query", "schema": {"type": "integer"}}, {"name": "q", "in": "header", "schema": endpoint.S},
                                              {"name": "id", "in": "path", "required": True, "schema": endpoint.S}],
                              "get": {"operationId": "ovr", "tags": ["t"], "parameters": [{"name": "q", "in": "query", "schema": {"type": "string", "format": "date"}}],
                                      "responses": {"204": {"description": "d"}}}}
    # parameters named like the locals / arguments of the generated function (Names.tla's ReservedParams), with a request body and WITHOUT
    # path-item parameters (the conflict check then runs only once, before the bodies are attached)
    resv = []
    # ... and like the headers OpenAPI tells generators to ignore AS HEADER PARAMETERS (Accept, Content-Type, Authorization): elsewhere they are ordinary
    for rn in ("headers", "params", "cookies", "body", "client", "url", "accept", "Accept", "content-type", "Content-Type", "authorization"):
        for loc in (("query", "header", "cookie") if rn.islower() and "-" not in rn and rn not in ("accept", "authorization") else ("query", "cookie")):
            k += 1
            rid = 9500 + k
            paths[f"/resv{rid}/end"] = {"post": {"operationId": f"resv{rid}", "tags": ["t"], "parameters": [{"name": rn, "in": loc, "required": True, "schema": endpoint.S}],
                                                  "requestBody": {"content": {"application/json": {"schema": {"$ref": "#/components/schemas/BodyModel"}}}}, "responses": {"204": {"description": "d"}}}}
            resv.append((rid, rn, loc))
    comps = json.loads(json.dumps(endpoint.COMPONENTS))
    # shared component parameters whose names coincide (same name in another location; names that differ only in case / delimiters)
    shared = {"TenantH": ("tenant", "header", "tenant"), "TenantQ": ("tenant", "query", "tenant"), "TenantC": ("tenant", "cookie", "tenant"),
              "PageSizeQ": ("page_size", "query", "page_size"), "PageSizeH": ("Page-Size", "header", "page_size"), "pagesizeQ": ("pageSize", "query", "page_size")}
    comps.setdefault("parameters", {})
    for cname, (wire, loc, py) in shared.items():
        comps["parameters"][cname] = {"name": wire, "in": loc, "schema": endpoint.S}
    for k2, cname in enumerate(list(shared) + list(reversed(list(shared)))):
        paths[f"/shared{k2}/end"] = {"get": {"operationId": f"shared{k2}", "tags": ["t"], "parameters": [{"$ref": f"#/components/parameters/{cname}"}], "responses": {"204": {"description": "d"}}}}
    doc = gen.mkdoc(paths=paths, components=comps)
    names, diags = endpoint.python_names(doc)
    g = gen.generate(doc, d / "fam")
    if g["exc"] or g["rejected"]:
        rep.violate("C03/families-crash", (g["exc"] or str(g["diags"][:1]))[-300:])
        return
    calls = []
    for op, kw, args, i, info in plan:
        nm = names.get(f"op{i}", {})
        for variant in ("sync_detailed", "asyncio_detailed"):
            calls.append({"id": f"{i}-{variant}", "module": info["module"], "variant": variant, "secured": False, "raise": False,
                          "kwargs": {nm[(p["loc"], p["n"])]: [p["kind"], True] for p in op["ps"] if (p["loc"], p["n"]) in nm}, "body": None,
                          "served": endpoint.served_spec("none", 204)})
    ovr = names.get("ovr", {})
    calls.append({"id": "ovr", "module": "t.ovr", "variant": "sync_detailed", "secured": False, "raise": False,
                  "kwargs": {ovr.get(("query", "q"), "q"): ["date", True], ovr.get(("header", "q"), "q_header"): ["str", True], ovr.get(("path", "id"), "id"): ["str", True]},
                  "body": None, "served": endpoint.served_spec("none", 204)})
    for rid, rn, loc in resv:
        nm = names.get(f"resv{rid}", {})
        calls.append({"id": f"resv{rid}", "module": f"t.resv{rid}", "variant": "sync_detailed", "secured": False, "raise": False,
                      "kwargs": {nm.get((loc, rn), rn): ["str", True]}, "body": "json", "served": endpoint.served_spec("none", 204)})
    order = list(shared) + list(reversed(list(shared)))
    for k2, cname in enumerate(order):
        calls.append({"id": f"shared{k2}", "module": f"t.shared{k2}", "variant": "sync_detailed", "secured": False, "raise": False,
                      "kwargs": {shared[cname][2]: ["str", True]}, "body": None, "served": endpoint.served_spec("none", 204)})
    out = endpoint.run_calls(d, "fam", calls)
    if "__crash__" in out:
        rep.violate("C03/families-package-broken", out["__crash__"][-400:])
        return
    for rid, rn, loc in resv:
        o = out[f"resv{rid}"]
        rep.count(1, ("family", "reserved-name-parameter", rn, loc))
        if o.get("raised") or o.get("harness_error") or len(o.get("requests", [])) != 1:
            rep.violate(f"C03/family/reserved-name/{rn}/{loc}/call-failed", f"parameter named {rn!r} in {loc} with a JSON body: {o.get('raised') or o.get('harness_error')}")
            continue
        r = o["requests"][0]
        got = {"query": dict(map(tuple, r["query"])).get(rn), "header": r["headers"].get(rn.lower()),
               "cookie": dict(x.strip().split("=", 1) for x in r["headers"].get("cookie", "").split(";") if "=" in x).get(rn)}
        if got[loc] != "tok" or r["body"]["kind"] != "json":
            rep.violate(f"C03/family/reserved-name/{rn}/{loc}/misplaced", f"parameter named {rn!r} in {loc} with a JSON body: the request carries {got[loc]!r} there "
                        f"(query={r['query']}, body kind {r['body']['kind']})", request=r)
    for k2, cname in enumerate(order):
        wire, loc, py = shared[cname]
        o = out[f"shared{k2}"]
        rep.count(1, ("family", "shared-component-parameter", k2))
        if o.get("raised") or o.get("harness_error") or len(o.get("requests", [])) != 1:
            rep.violate(f"C03/family/shared-parameter/{cname}/call-failed", f"operation using component parameter {cname} ({wire} in {loc}): {o.get('raised') or o.get('harness_error')}")
            continue
        r = o["requests"][0]
        got = {"query": dict(map(tuple, r["query"])).get(wire), "header": r["headers"].get(wire.lower()),
               "cookie": dict(x.strip().split("=", 1) for x in r["headers"].get("cookie", "").split(";") if "=" in x).get(wire)}
        elsewhere = [f"query {k3}={v}" for k3, v in map(tuple, r["query"])] if loc != "query" else []
        if got[loc] != "tok" or elsewhere or (loc != "header" and any(h in r["headers"] for h in ("tenant", "page-size", "page_size"))):
            rep.violate(f"C03/family/shared-parameter/{cname}/misplaced", f"component parameter {cname} declares `{wire}` in {loc}; the request has query={r['query']} "
                        f"headers={ {h: v for h, v in r['headers'].items() if h in ('tenant', 'page-size', 'page_size', 'pagesize', 'cookie')} }", request=r)
    for op, kw, args, i, info in plan:
        for variant in ("sync_detailed", "asyncio_detailed"):
            rep.count(1, ("family", i, variant))
            tag = "method" if "method" in kw else f"pathitem={sorted(kw.get('pathitem_level', []))}/reverse={kw.get('reverse_path', False)}"
            judge_request(rep, op, sorted(a for a in range(1, len(op["ps"]) + 1)), out[f"{i}-{variant}"], i, f"family/{tag}", method=kw.get("method", "post").upper(),
                          reverse=kw.get("reverse_path", False))
    o = out["ovr"]
    rep.count(1, ("family", "override"))
    if o.get("raised") or o.get("harness_error") or len(o.get("requests", [])) != 1:
        rep.violate("C03/family/override/call-failed", f"operation-level override family: {o.get('raised') or o.get('harness_error')}")
    else:
        r = o["requests"][0]
        if sorted(map(tuple, r["query"])) != [("q", "2020-01-02")] or r["headers"].get("q") != "tok" or r["path"] != "/base/ovr/tok/end":
            rep.violate("C03/family/override/precedence", f"operation-level `q` (query, date) must override the path-item `q` (query, integer) and keep the header `q`: "
                        f"query={r['query']} header q={r['headers'].get('q')} path={r['path']}", request=r)
