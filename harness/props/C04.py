"""C04 - responses are decoded per documented status and media type.

Spec: Endpoint.tla (_parse_response as the ordered status chain, `parsed_responses`, source selection, the unexpected-status branch; law E4)
checked by TLC over every set of <=3 documented responses from a 8-entry menu (JSON model, text, no content, +json list, JSON scalar,
octet-stream, second empty status) x served status (each documented one + an undocumented one) x raise_on_unexpected_status x the four
call variants.  Binding A: every operation is generated (packed) and every call executed against httpx.MockTransport serving the canned
response; the returned object is judged against the DOCUMENT.  Families: component responses by reference, several media types in one
response (unsupported first), unions of models, every supported media-type spelling.  Binding B: observations validated by TLC.
"""
from __future__ import annotations

import base64
import json

from .. import endpoint, gen, mediatype, tlc
from ..common import rmtree, scratch

PARSED_VALUE = {"model": {"v": 1}, "text": "hello", "none": None, "list": [{"v": 1}, {"v": 2}], "int": 5, "t0int": None, "const": "accepted", "ndjson": '{"a": 1}\n{"a": 2}\n', "file": base64.b64encode(b"\x00\x01bytes").decode()}


def judge(rep, op, served_status, how_served, raise_flag, variant, obs, tag) -> dict:
    documented = {r["status"]: r["how"] for r in op["rs"]}
    typed = any(h in ("model", "text", "list", "int", "file", "const", "ndjson") for h in documented.values())
    sig = f"{tag}/rs={'+'.join(str(r['status']) + r['how'] for r in op['rs'])}/served={served_status}/{variant}"
    out = {"kind": "?"}
    if obs.get("no_function"):
        out["kind"] = "no_function"
        if typed or variant.endswith("_detailed"):
            rep.violate(f"C04/variant-missing/{variant}/{tag}", f"{variant} does not exist although the operation documents a typed response", op=op)
        return out
    if obs.get("harness_error"):
        rep.violate(f"C04/endpoint-not-callable/{tag}", str(obs["harness_error"]), op=op)
        return out
    if len(obs.get("requests", [])) != 1:
        rep.violate(f"C04/request-count/{len(obs.get('requests', []))}", "not exactly one request", op=op)
    if served_status in documented:
        how = documented[served_status]
        expect = endpoint.EXPECT_PARSED[how if typed else "None"]
        if obs.get("raised"):
            rep.violate(f"C04/documented-status-raises/{how}/{obs['raised']['type']}/raise={raise_flag}",
                        f"documented status {served_status} ({how}) raised {obs['raised']} (raise_on_unexpected_status={raise_flag})", op=op, variant=variant)
            out["kind"] = "raise"
            return out
        ret = obs["return"]
        out["kind"] = ret["parsed"]
        if how == "t0int" and ret["parsed"] == "int" and ret.get("parsed_value", 5) == 5:
            pass                    # the later media type's schema applied to its own source: also what the document says
        elif ret["parsed"] != expect:
            rep.violate(f"C04/parsed-kind/{how}/{variant}", f"status {served_status} documented as {how}: parsed value is {ret['parsed']}, expected {expect}",
                        op=op, variant=variant, observed=ret)
        elif variant.endswith("_detailed") and typed and "parsed_value" in ret and ret["parsed_value"] != PARSED_VALUE[how]:
            rep.violate(f"C04/parsed-value/{how}", f"status {served_status}: parsed value {ret['parsed_value']!r} differs from the body served {PARSED_VALUE[how]!r}", op=op)
        if variant.endswith("_detailed"):
            body = endpoint.SERVED[how_served][1]
            if ret["status"] != served_status or ret.get("x_served") != "yes" or base64.b64decode(ret["content_b64"]) != body:
                rep.violate(f"C04/raw-response/{how}", f"returned Response lost the raw status/headers/body: {ret}", op=op)
    else:
        if raise_flag:
            if not obs.get("raised") or not obs["raised"]["is_unexpected_status"] or obs["raised"]["status"] != served_status:
                rep.violate(f"C04/undocumented-status-not-raised/{variant}", f"undocumented status {served_status} with raise_on_unexpected_status=True: "
                            f"{obs.get('raised') or obs.get('return')}", op=op, variant=variant)
            out["kind"] = "UnexpectedStatus"
        else:
            if obs.get("raised"):
                rep.violate(f"C04/undocumented-status-raises/{variant}", f"undocumented status {served_status} raised {obs['raised']} although raise_on_unexpected_status=False", op=op)
            elif obs["return"]["parsed"] != "None":
                rep.violate(f"C04/undocumented-status-parsed/{variant}", f"undocumented status {served_status} yields a parsed value {obs['return']['parsed']}", op=op)
            out["kind"] = "None"
    return out


def _snake(name: str) -> str:
    from openapi_python_client import utils
    return str(utils.PythonIdentifier(name, ""))


def families(rep, d) -> None:
    S = endpoint.S
    out_ref = {"$ref": "#/components/schemas/Out"}
    other = {"type": "object", "required": ["w"], "properties": {"w": S}}
    paths = {}
    fam = {
        # name: (responses, served status, content-type, body, expected parsed kind, expected value)
        "byref": ({"200": {"$ref": "#/components/responses/Good"}}, 200, "application/json", b'{"v": 1}', "model:Out", {"v": 1}),
        "unsupfirst": ({"200": {"description": "d", "content": {"application/pdf": {"schema": {"type": "string", "format": "binary"}}, "application/json": {"schema": out_ref}}}},
                       200, "application/json", b'{"v": 1}', "model:Out", {"v": 1}),
        "xmlfirst": ({"200": {"description": "d", "content": {"application/xml": {"schema": S}, "application/json": {"schema": {"type": "array", "items": out_ref}}}}},
                     200, "application/json", b'[{"v": 3}]', "list:model:Out", [{"v": 3}]),
        "unionmodels": ({"200": {"description": "d", "content": {"application/json": {"schema": {"oneOf": [out_ref, {"$ref": "#/components/schemas/Other"}]}}}}},
                        200, "application/json", b'{"w": "x"}', "model:Other", {"w": "x"}),
        "charset": ({"200": {"description": "d", "content": {"application/json; charset=utf-8": {"schema": out_ref}}}}, 200, "application/json; charset=utf-8", b'{"v": 9}', "model:Out", {"v": 9}),
        "textthenjson": ({"200": {"description": "d", "content": {"text/plain": {"schema": S}, "application/json": {"schema": out_ref}}}}, 200, "text/plain", b"plain words", "text", "plain words"),
        # text media types with a declared charset, followed (in document order) by ones without: non-ASCII bodies must be decoded per response
        "csvlatin1": ({"200": {"description": "d", "content": {"text/csv; charset=iso-8859-1": {"schema": S}}}}, 200, "text/csv; charset=iso-8859-1", "na\u00efve;caf\u00e9".encode("iso-8859-1"), "text", "na\u00efve;caf\u00e9"),
        "plainutf8": ({"200": {"description": "d", "content": {"text/plain": {"schema": S}}}}, 200, "text/plain; charset=utf-8", "na\u00efve \u2713 \u65e5\u672c".encode(), "text", "na\u00efve \u2713 \u65e5\u672c"),
        "plainnocharset": ({"200": {"description": "d", "content": {"text/plain": {"schema": S}}}}, 200, "text/plain", "na\u00efve \u2713".encode(), "text", "na\u00efve \u2713"),
        # text media types whose schema is a scalar other than a plain string
        "textenum": ({"200": {"description": "d", "content": {"text/plain": {"schema": {"type": "string", "enum": ["on", "off"]}}}}}, 200, "text/plain", b"on", "text", "on"),
        "textdate": ({"200": {"description": "d", "content": {"text/plain": {"schema": {"type": "string", "format": "date"}}}}}, 200, "text/plain", b"2020-01-02", "other:date", None),
        "textuuid": ({"200": {"description": "d", "content": {"text/plain": {"schema": {"type": "string", "format": "uuid"}}}}}, 200, "text/plain", b"12345678-1234-5678-1234-567812345678", "other:UUID", None),
        # one shared component response with an INLINE schema, documented under the same status by several operations
        "shr1": ({"200": {"description": "d", "content": {"application/json": {"schema": out_ref}}}, "404": {"$ref": "#/components/responses/InlineProblem"}}, 404, "application/json", b'{"title": "t"}', "model:Shr1Response404", {"title": "t"}),
        "shr2": ({"200": {"description": "d", "content": {"application/json": {"schema": out_ref}}}, "404": {"$ref": "#/components/responses/InlineProblem"}}, 404, "application/json", b'{"title": "t"}', "model:Shr2Response404", {"title": "t"}),
        "shr3": ({"404": {"$ref": "#/components/responses/InlineProblem"}, "409": {"$ref": "#/components/responses/InlineProblem"}}, 409, "application/json", b'{"title": "t"}', "model:Shr3Response409", {"title": "t"}),
        "texthtml": ({"200": {"description": "d", "content": {"text/html": {"schema": S}}}}, 200, "text/html", b"<p>x</p>", "text", "<p>x</p>"),
        "twostatus": ({"200": {"description": "d", "content": {"application/json": {"schema": out_ref}}}, "404": {"description": "d", "content": {"application/json": {"schema": {"$ref": "#/components/schemas/Other"}}}}},
                      404, "application/json", b'{"w": "nf"}', "model:Other", {"w": "nf"}),
        "nullable": ({"200": {"description": "d", "content": {"application/json": {"schema": {"oneOf": [out_ref, {"type": "null"}]}}}}}, 200, "application/json", b"null", "None", None),
        "emptyschema": ({"200": {"description": "d", "content": {"application/json": {}}}, "201": {"description": "d", "content": {"application/json": {"schema": out_ref}}}},
                        201, "application/json", b'{"v": 2}', "model:Out", {"v": 2}),
    }
    for name, (responses, *_rest) in fam.items():
        paths[f"/fam/{name}"] = {"get": {"operationId": name, "tags": ["t"], "responses": responses}}
    comps = json.loads(json.dumps(endpoint.COMPONENTS))
    comps["schemas"]["Other"] = other
    comps["responses"] = {"Good": {"description": "d", "content": {"application/json": {"schema": out_ref}}},
                          "InlineProblem": {"description": "d", "content": {"application/json": {"schema": {"type": "object", "required": ["title"], "properties": {"title": S, "kind": {"type": "string", "enum": ["a", "b"]}}}}}}}
    doc = gen.mkdoc(paths=paths, components=comps)
    g = gen.generate(doc, d / "rfam")
    if g["exc"] or g["rejected"]:
        rep.violate("C04/families-crash", (g["exc"] or str(g["diags"][:1]))[-300:])
        return
    # no cross-talk between operations: the module of an operation does not depend on which operations were parsed before it
    rdoc = gen.mkdoc(paths=dict(reversed(list(paths.items()))), components=comps)
    g2 = gen.generate(rdoc, d / "rfamrev")
    if not (g2["exc"] or g2["rejected"]):
        for name in fam:
            a = (d / "rfam" / "api" / "t" / f"{_snake(name)}.py")
            b = (d / "rfamrev" / "api" / "t" / f"{_snake(name)}.py")
            rep.count(1, ("family-order", name))
            if a.exists() and b.exists() and a.read_bytes() != b.read_bytes():
                rep.violate(f"C04/family/{name}/depends-on-other-operations", f"the module generated for {name} differs when the document's paths are listed in reverse order "
                            "(what was parsed before leaks into it)", name=name)
    calls = []
    for name, (responses, status, ctype, body, kind, value) in fam.items():
        for variant in ("sync_detailed", "sync", "asyncio_detailed", "asyncio"):
            for rf in (False, True):
                calls.append({"id": f"{name}-{variant}-{int(rf)}", "module": f"t.{name}", "variant": variant, "secured": False, "raise": rf, "kwargs": {}, "body": None,
                              "served": {"status": status, "ctype": ctype, "body_b64": base64.b64encode(body).decode()}})
    out = endpoint.run_calls(d, "rfam", calls)
    if "__crash__" in out:
        rep.violate("C04/families-package-broken", out["__crash__"][-400:])
        return
    texts = [(x["header"] + x["detail"]) for x in g["diags"]]
    for name, (responses, status, ctype, body, kind, value) in fam.items():
        for variant in ("sync_detailed", "sync", "asyncio_detailed", "asyncio"):
            for rf in (False, True):
                o = out[f"{name}-{variant}-{int(rf)}"]
                rep.count(1, ("family", name, variant, rf))
                if o.get("no_function") or o.get("harness_error"):
                    rep.violate(f"C04/family/{name}/not-callable", f"{variant}: {o}")
                    continue
                if o.get("raised"):
                    rep.violate(f"C04/family/{name}/raises/{o['raised']['type']}", f"{name}: documented status {status} raised {o['raised']} ({variant}, raise={rf})")
                    continue
                got = o["return"]["parsed"]
                if got != kind:
                    rep.violate(f"C04/family/{name}/parsed-kind", f"{name}: {variant} parsed {got}, expected {kind} for {ctype} {body!r}", observed=o["return"])
                elif variant == "sync_detailed" and value is not None and o["return"].get("parsed_value") != value:
                    rep.violate(f"C04/family/{name}/parsed-value", f"{name}: parsed value {o['return'].get('parsed_value')!r}, expected {value!r}")


def run(rep) -> None:
    quick = rep.tier == "quick"
    d = scratch("c04-")
    try:
        res = endpoint.enumerate_universe("response", 0, d, max_resp=3 if quick else 5)[0]
        rep.tlc(res)
        if res.violated:
            rep.notes.append(f"TLC(Endpoint): {sorted(set(res.violated))}: {res.counterexample[:300]}")
        cases = res.printed
        if len(cases) < 500:
            raise tlc.TlcFailure("response universe too small")
        ops = {}
        for c in cases:
            ops.setdefault(endpoint.op_key(c["op"]), c["op"])
        oplist = list(ops.values())
        idx = {endpoint.op_key(o): i for i, o in enumerate(oplist)}
        doc, infos = endpoint.pack_ops(oplist, method="get")
        g = gen.generate(doc, d / "rp")
        if g["exc"] or g["rejected"]:
            rep.violate("C04/generator-crash", (g["exc"] or str(g["diags"][:1]))[-300:])
            return
        calls, meta = [], {}
        for k, c in enumerate(cases):
            i = idx[endpoint.op_key(c["op"])]
            documented = {r["status"]: r["how"] for r in c["op"]["rs"]}
            how_served = documented.get(c["served"], "x")
            calls.append({"id": str(k), "module": infos[i]["module"], "variant": c["variant"], "secured": False, "raise": c["raise"], "kwargs": {}, "body": None,
                          "served": endpoint.served_spec(how_served, c["served"])})
            meta[str(k)] = (c, how_served)
        out = endpoint.run_calls(d, "rp", calls)
        if "__crash__" in out:
            rep.violate("C04/generated-package-broken", out["__crash__"][-500:])
            return
        trace = []
        plain = {}
        for cid, (c, how_served) in meta.items():
            obs = out[cid]
            rep.count(1, (endpoint.op_key(c["op"]), c["served"], c["raise"], c["variant"]))
            o = judge(rep, c["op"], c["served"], how_served, c["raise"], c["variant"], obs, "universe")
            pred = "UnexpectedStatus" if c["stage"] == "raised" else endpoint.EXPECT_PARSED[c["result"]]
            if o["kind"] not in ("no_function", "?") and o["kind"] != pred:
                rep.drifted(mode="endpoint-response", op=c["op"], served=c["served"], raise_flag=c["raise"], variant=c["variant"], model=pred, real=o["kind"])
            if o["kind"] not in ("no_function", "?"):
                trace.append({"tid": len(trace) + 1, "rs": c["op"]["rs"], "served": c["served"], "raise": c["raise"], "kind": o["kind"]})
                plain[(endpoint.op_key(c["op"]), c["served"], c["raise"], c["variant"])] = o["kind"]
        # sync == sync_detailed.parsed, asyncio variants agree
        for (opk, served, rf, variant), kind in plain.items():
            ref = plain.get((opk, served, rf, "sync_detailed"))
            if ref is not None and kind != ref:
                rep.violate(f"C04/variants-disagree/{variant}", f"{variant} yields {kind} but sync_detailed yields {ref} (served {served}, raise={rf})", op=json.loads(opk))
        families(rep, d)
        (d / "obs.ndjson").write_text("\n".join(json.dumps(e) for e in trace) + "\n")
        tres = tlc.run_tlc("ResponseTrace.tla", "ResponseTrace.cfg", workers=1, env={"TRACE_FILE": str(d / "obs.ndjson")}, timeout=900)
        rep.tlc(tres)
        post = [x for x in tres.printed if isinstance(x, dict) and "e4" in x]
        if not post or post[0]["consumed"] != len(trace):
            raise tlc.TlcFailure("ResponseTrace did not consume the observations:\n" + tres.out[-1500:])
        rep.traces += len(trace)
        rep.extra["trace_E4_failures_by_TLC"] = len(post[0]["e4"])
        rep.extra["operations"] = len(oplist)
        # MediaType.tla: the class of every response media type (type x subtype x parameter x capitals x override): JSON iff application/json or a
        # +json suffix, text iff text/*, bytes iff application/octet-stream, anything else reported (M1, M2)
        mediatype.judge(rep, "C04", d)
        rep.sample({"op_responses": cases[11]["op"]["rs"], "served": cases[11]["served"], "raise": cases[11]["raise"], "variant": cases[11]["variant"], "model": cases[11]["result"]})
    finally:
        rmtree(d)
    rep.rule = (f"every set of <={3 if quick else 5} documented responses (8-entry menu) x served status (documented + 418) x raise flag x 4 call variants executed against "
                "httpx.MockTransport; 9 families (component response, several media types, union of models, charset parameter, text/html, nullable, empty schema)")
    rep.exhaustive = True
    rep.assumptions += ["responses whose schema is the empty schema {} and operations whose return type collapses to Any (no sync()/asyncio()) are observed, not judged"]
