"""C05 - document text is only ever data, never code.

Spec: Lexer.tla - an interpolation site is (lexical context, escaper); the payload is fed one character class at a time through the
escaper transducer and the context's tokenizer, so TLC decides safety (L1: the tokenizer never leaves the literal and the closing
delimiter closes it cleanly; L1b: no replacement field opens in format()/f-string contexts) and fidelity (L2: the decoded constant equals
the payload) for payloads of ANY length, per site; its shortest counterexamples are the payload shapes replayed on the real generator.
Binding: (a) escaper conformance - the real remove_string_escapes / repr / sanitize / safe_docstring (rendered through the real Jinja
environment) on every word <=3 over representative characters, validated by LexerTrace (TLC); (b) slot replay - every string-valued
position of a maximal document x payload words (all words <=2 over the classes + the spec's counterexamples + composites), generated
under the metadata flavours; oracle on the real output: every .py tokenizes and compiles, a marker call planted in the payload never
becomes an AST Call/Name, runtime-meaningful text is recovered from the AST character for character (or the item is absent and
diagnosed), pyproject.toml parses and setup.py compiles with the text confined to constants.
"""
from __future__ import annotations

import ast
import itertools
import json
import random
import re
import tomllib

from .. import gen, tlc, treegen
from ..common import rmtree, scratch, seed

CH = {"DQ": '"', "SQ": "'", "BS": "\\", "NL": "\n", "CR": "\r", "LB": "{", "RB": "}", "N": "n", "X": "x", "HASH": "#", "AST": "\U00020BB7", "LS": "\u2028", "FF": "\x0c",
      "NUL": "\x00", "CTL": "\x01"}
SITES = [("DQ", "rse"), ("DQ", "none"), ("TDQ", "doc"), ("TDQ", "doc_rse"), ("REPR", "repr"), ("REPR", "repr_rse"), ("DQ", "repr"), ("IDENT", "sanitize"),
         ("DQFMT", "none"), ("DQF", "rse"), ("TOMLB", "none"), ("TOMLB", "rse")]
MARK = "OPCVINJ"


def lexer_verdicts(rep, d, rse_backslash: bool, doc_escapes: bool, ctl_escapes: bool) -> dict:
    from concurrent.futures import ThreadPoolExecutor

    def one(site):
        ctx, esc = site
        cfg = tlc.write_cfg(d / f"lex-{ctx}-{esc}.cfg", {"Ctx": ctx, "Esc": esc, "RseBackslash": rse_backslash, "DocEscapes": doc_escapes, "CtlEscapes": ctl_escapes},
                            ["Report"], view="View")
        return site, tlc.run_tlc("Lexer.tla", cfg, workers=1, heap="1g")

    out = {}
    with ThreadPoolExecutor(max_workers=12) as ex:
        for site, r in ex.map(one, SITES):
            rep.tlc(r)
            cex = {}
            for line in r.raw_printed:
                m = re.match(r'<<"CEX", "(\w+)", <<(.*)>>>>', line)
                if m:
                    h = re.findall(r'"(\w+)"', m.group(2))
                    if m.group(1) not in cex or len(h) < len(cex[m.group(1)]):
                        cex[m.group(1)] = h
            out[site] = cex
    return out


def escaper_conformance(rep, d) -> tuple[bool, bool, bool]:
    """Real escapers on every word <=3 over representative characters, validated against Lexer.tla's transducers by TLC."""
    gen.ensure_repo_on_path()
    import jinja2
    from openapi_python_client import utils
    env = jinja2.Environment(loader=jinja2.PackageLoader("openapi_python_client"), trim_blocks=True, lstrip_blocks=True, keep_trailing_newline=True)
    tpl = env.from_string('{% from "helpers.jinja" import safe_docstring %}{{ safe_docstring(c) }}')
    classes = ["DQ", "SQ", "BS", "NL", "LB", "N", "X", "AST", "LS", "FF", "NUL", "CTL"]
    # which primitive is in the tree? (decides the constants of the model: the model follows the code, the LAWS do not)
    rse_bs = utils.remove_string_escapes("\\") == "\\\\"
    doc_esc = '\\"' in tpl.render(c='a"""b')
    ctl_esc = utils.remove_string_escapes("\x00") != "\x00"
    lines = []
    for k in range(0, 4):
        for w in itertools.product(classes, repeat=k):
            s = "".join(CH[c] for c in w)
            rse = utils.remove_string_escapes(s)
            lines.append({"tid": len(lines) + 1, "w": list(w), "rse": [_cls(ch) for ch in rse], "san_len": len(utils.sanitize(s))})
    (d / "esc.ndjson").write_text("\n".join(json.dumps(x) for x in lines) + "\n")
    cfg = tlc.write_cfg(d / "lextrace.cfg", {"Ctx": "DQ", "Esc": "rse", "RseBackslash": rse_bs, "DocEscapes": doc_esc, "CtlEscapes": ctl_esc}, spec="TSpec", post="Post")
    res = tlc.run_tlc("LexerTrace.tla", cfg, workers=1, env={"TRACE_FILE": str(d / "esc.ndjson")}, timeout=900)
    rep.tlc(res)
    post = [x for x in res.printed if isinstance(x, dict) and "nonconforming" in x]
    if not post or post[0]["consumed"] != len(lines):
        raise tlc.TlcFailure("LexerTrace did not consume the escaper observations:\n" + res.out[-1200:])
    rep.traces += len(lines)
    for t in post[0]["nonconforming"][:10]:
        rep.drifted(mode="escaper", word=lines[t - 1]["w"], real=lines[t - 1]["rse"])
    # safe_docstring: the rendered literal must evaluate (ast.literal_eval) to a string for every word - decided by Python itself
    for k in range(0, 4):
        for w in itertools.product(classes, repeat=k):
            s = "".join(CH[c] for c in w)
            lit = tpl.render(c=s).strip()
            try:
                v = ast.literal_eval(lit)
                ok = isinstance(v, str)
            except (SyntaxError, ValueError):
                ok = False
            rep.count(1)
            if not ok:
                rep.violate(f"C05/safe-docstring/breaks-out/{'+'.join(sorted(set(w)))}", f"safe_docstring({s!r}) renders {lit!r}, which is not a single string literal", word=list(w))
    return rse_bs, doc_esc, ctl_esc


def _cls(ch: str) -> str:
    for k, v in CH.items():
        if v == ch and k not in ("HASH",):
            return k
    return "X"


# ---------------------------------------------------------------------------------------------- slots
def slot_document(slot: str, text: str) -> tuple[dict, dict]:
    """A small but complete document with `text` at the given string-valued position.  Returns (doc, info)."""
    S = {"type": "string"}
    info = {"title": "Api", "version": "1.0", "description": "about"}
    schema = {"type": "object", "title": None, "description": "a model", "properties": {"plain": {"type": "string", "description": "a property", "example": "ex"},
                                                                                           "e": {"type": "string", "enum": ["one", "two"]},
                                                                                           "c": {"const": "fixed"}, "dflt": {"type": "string", "default": "dv"}}}
    op = {"operationId": "theOp", "tags": ["things"], "summary": "sum", "description": "desc",
          "parameters": [{"name": "q", "in": "query", "description": "a param", "schema": S}, {"name": "X-H", "in": "header", "schema": S}, {"name": "ck", "in": "cookie", "schema": S}],
          "requestBody": {"content": {"application/json": {"schema": {"$ref": "#/components/schemas/Thing"}}}},
          "responses": {"200": {"description": "fine", "content": {"application/json": {"schema": {"$ref": "#/components/schemas/Thing"}}}}}}
    path = "/things/{id}"
    op["parameters"].append({"name": "id", "in": "path", "required": True, "schema": S})
    schemas = {"Thing": schema}
    runtime = None          # the text must be recoverable exactly (or the item rejected)
    if slot == "info.title":
        info["title"] = text
    elif slot == "info.version":
        info["version"] = text
    elif slot == "info.description":
        info["description"] = text
    elif slot == "tag":
        op["tags"] = [text]
    elif slot == "operationId":
        op["operationId"] = text
    elif slot == "op.summary":
        op["summary"] = text
    elif slot == "op.description":
        op["description"] = text
    elif slot == "param.description":
        op["parameters"][0]["description"] = text
    elif slot == "param.name.query":
        op["parameters"][0]["name"] = text
        runtime = "param"
    elif slot == "param.name.header":
        op["parameters"][1]["name"] = text
        runtime = "param"
    elif slot == "param.name.cookie":
        op["parameters"][2]["name"] = text
        runtime = "param"
    elif slot == "path.literal":
        path = "/things/" + text + "/{id}"
        runtime = "path"
    elif slot == "media.type.request":
        op["requestBody"]["content"] = {"application/vnd.x+json; note=" + text: {"schema": {"$ref": "#/components/schemas/Thing"}}}
        runtime = "media"
    elif slot == "response.description":
        op["responses"]["200"]["description"] = text
    elif slot == "schema.title":
        schema["title"] = text
    elif slot == "schema.description":
        schema["description"] = text
    elif slot == "schema.name":
        schemas = {text: schema}
        op["requestBody"]["content"]["application/json"]["schema"] = S
        op["responses"]["200"]["content"]["application/json"]["schema"] = S
    elif slot == "property.name":
        schema["properties"][text] = {"type": "integer"}
        runtime = "property"
    elif slot == "property.description":
        schema["properties"]["plain"]["description"] = text
    elif slot == "property.example":
        schema["properties"]["plain"]["example"] = text
    elif slot == "enum.value":
        schema["properties"]["e"]["enum"] = ["one", text]
        runtime = "enum"
    elif slot == "enum.value.nullable":          # null listed among the values: the schema is rebuilt as a union and re-enters the enum builder
        schema["properties"]["e"] = {"enum": ["one", text, None]}
        runtime = "enum"
    elif slot == "enum.value.typelist":
        schema["properties"]["e"] = {"type": ["string", "null"], "enum": ["one", text, None]}
        runtime = "enum"
    elif slot == "enum.value.items":
        schema["properties"]["e"] = {"type": "array", "items": {"type": "string", "enum": ["one", text]}}
        runtime = "enum"
    elif slot == "enum.value.component":
        schemas["Kind"] = {"type": "string", "enum": ["one", text]}
        schema["properties"]["e"] = {"$ref": "#/components/schemas/Kind"}
        runtime = "enum"
    elif slot == "enum.value.param":
        op["parameters"][0]["schema"] = {"type": "string", "enum": ["one", text]}
        runtime = "enum"
    elif slot == "enum.default":
        schema["properties"]["e"] = {"type": "string", "enum": ["one", text], "default": text}
        runtime = "enum"
    elif slot in ("pathitem.summary", "pathitem.description"):
        pass
    elif slot == "const.value":
        schema["properties"]["c"]["const"] = text
        runtime = "const"
    elif slot == "default.string":
        schema["properties"]["dflt"]["default"] = text
        runtime = "default"
    elif slot == "param.default":
        op["parameters"][0]["schema"] = {"type": "string", "default": text}
        runtime = "param-default"
    elif slot == "server.url":
        pass
    if schema.get("title") is None:
        schema.pop("title", None)
    doc = {"openapi": "3.1.0", "info": info, "paths": {path: {"post": op}}, "components": {"schemas": schemas}}
    if slot in ("pathitem.summary", "pathitem.description"):        # the Path Item's text applies to operations that declare none
        op.pop("summary"), op.pop("description")
        doc["paths"][path][slot.split(".")[1]] = text
    if slot == "server.url":
        doc["servers"] = [{"url": text, "description": text}]
    if slot == "security.name":
        doc["components"]["securitySchemes"] = {text: {"type": "http", "scheme": "bearer"}}
        op["security"] = [{text: []}]
    return doc, {"runtime": runtime}


def maximal_document() -> dict:
    """Every optional string-valued field the generator's schema knows, populated (for the generic slot census)."""
    S = {"type": "string"}
    return {
        "openapi": "3.1.0",
        "info": {"title": "Max", "version": "2.0", "description": "info d", "termsOfService": "https://t", "contact": {"name": "c", "url": "https://c", "email": "e@x"},
                 "license": {"name": "l", "url": "https://l"}, "summary": "info s"},
        "servers": [{"url": "https://srv/{v}", "description": "srv d", "variables": {"v": {"default": "v1", "description": "var d", "enum": ["v1"]}}}],
        "tags": [{"name": "things", "description": "tag d", "externalDocs": {"url": "https://e", "description": "ext d"}}],
        "externalDocs": {"url": "https://docs", "description": "docs d"},
        "security": [{"bearer": []}],
        "paths": {"/things/{id}": {
            "summary": "pi summary", "description": "pi description",
            "parameters": [{"name": "trace", "in": "header", "description": "pi param", "schema": S, "example": "pex"}],
            "post": {"operationId": "maxOp", "tags": ["things"], "externalDocs": {"url": "https://o", "description": "op ext"}, "deprecated": False,
                     "parameters": [{"name": "id", "in": "path", "required": True, "schema": S, "description": "id d"},
                                    {"name": "q", "in": "query", "description": "q d", "schema": {"type": "string", "default": "qd", "example": "qex", "title": "QT", "pattern": "^a"}, "example": "pe",
                                     "examples": {"one": {"summary": "ex s", "description": "ex d", "value": "exv"}}},
                                    {"$ref": "#/components/parameters/Shared"}],
                     "requestBody": {"description": "body d", "content": {"application/json": {"schema": {"$ref": "#/components/schemas/Thing"}, "example": {"a": "bex"},
                                                                                                "examples": {"b1": {"summary": "s", "value": {"a": "x"}}}}}},
                     "responses": {"200": {"description": "ok d", "headers": {"X-Rate": {"description": "hdr d", "schema": S}},
                                           "content": {"application/json": {"schema": {"$ref": "#/components/schemas/Thing"}}},
                                           "links": {"next": {"operationId": "maxOp", "description": "link d", "parameters": {"id": "$response.body#/id"}}}},
                                   "404": {"$ref": "#/components/responses/NotFound"}},
                     "callbacks": {"onEvent": {"{$request.body#/cb}": {"post": {"responses": {"200": {"description": "cb d"}}}}}},
                     "security": [{"bearer": []}], "servers": [{"url": "https://opsrv", "description": "op srv"}]}}},
        "components": {
            "schemas": {"Thing": {"type": "object", "title": "Thing title", "description": "thing d", "required": ["a"], "example": {"a": "tex"},
                                  "externalDocs": {"url": "https://s", "description": "schema ext"}, "discriminator": {"propertyName": "a"},
                                  "xml": {"name": "xn", "namespace": "https://ns", "prefix": "px"},
                                  "properties": {"a": {"type": "string", "description": "a d", "default": "ad", "example": "aex", "title": "A title", "format": "custom-format", "pattern": "^x"},
                                                 "e": {"type": "string", "enum": ["one", "two"], "description": "e d", "default": "one"},
                                                 "en": {"type": "string", "enum": ["n1", "n2", None], "description": "en d"},
                                                 "c": {"const": "cv", "description": "c d"},
                                                 "u": {"oneOf": [{"type": "string", "title": "U1"}, {"type": "integer"}], "description": "u d", "default": "ud"},
                                                 "l": {"type": "array", "items": {"type": "string", "enum": ["i1", "i2"]}, "description": "l d"},
                                                 "nested": {"type": "object", "title": "Nested title", "description": "nested d", "properties": {"deep": {"type": "string", "description": "deep d", "default": "dd"}}},
                                                 "when": {"type": "string", "format": "date", "default": "2020-01-02", "description": "when d"}},
                                  "additionalProperties": {"type": "string", "description": "ap d"}},
                        "Lit": {"type": "string", "enum": ["la", "lb"], "description": "lit d", "title": "Lit title"}},
            "parameters": {"Shared": {"name": "shared", "in": "cookie", "description": "shared d", "schema": S}},
            "responses": {"NotFound": {"description": "nf d", "content": {"text/plain": {"schema": S}}}},
            "requestBodies": {"RB": {"description": "rb d", "content": {"application/json": {"schema": S}}}},
            "headers": {"H": {"description": "ch d", "schema": S}},
            "examples": {"EX": {"summary": "cex s", "description": "cex d", "value": "cexv", "externalValue": "https://ev"}},
            "links": {"L": {"operationId": "maxOp", "description": "cl d"}},
            "securitySchemes": {"bearer": {"type": "http", "scheme": "bearer", "bearerFormat": "JWT", "description": "sec d"}}}}


def string_slots(doc, path=()):
    """JSON pointers of every string value and of every document-chosen map key."""
    KEYED = {"properties", "schemas", "parameters", "responses", "requestBodies", "headers", "examples", "links", "securitySchemes", "content", "paths", "callbacks", "variables"}
    if isinstance(doc, dict):
        for k, v in doc.items():
            if path and path[-1] in KEYED and isinstance(k, str):
                yield ("key",) + path + (k,)
            if isinstance(v, str):
                yield ("val",) + path + (k,)
            else:
                yield from string_slots(v, path + (k,))
    elif isinstance(doc, list):
        for i, v in enumerate(doc):
            if isinstance(v, str):
                yield ("val",) + path + (i,)
            else:
                yield from string_slots(v, path + (i,))


def substitute(doc, slot, text):
    import copy
    d = copy.deepcopy(doc)
    kind, *path = slot
    cur = d
    for k in path[:-1]:
        cur = cur[k]
    last = path[-1]
    if kind == "val":
        cur[last] = text
    else:
        cur[text] = cur.pop(last)
    return d


SLOTS = ["info.title", "info.version", "info.description", "tag", "operationId", "op.summary", "op.description", "param.description", "param.name.query",
         "param.name.header", "param.name.cookie", "path.literal", "media.type.request", "response.description", "schema.title", "schema.description", "schema.name",
         "property.name", "property.description", "property.example", "enum.value", "enum.value.nullable", "enum.value.typelist", "enum.value.items",
         "enum.value.component", "enum.value.param", "enum.default", "pathitem.summary", "pathitem.description", "const.value", "default.string", "param.default", "server.url", "security.name"]


IDENT_SLOTS = ["enum.value", "enum.value.nullable", "enum.value.component", "enum.value.param", "property.name", "param.name.query", "param.name.header",
               "schema.name", "tag", "operationId", "security.name"]
IDENT_WORDS = ["_1d", "_", "__3", "1", "-", "class", "_-", "a$b", "__", " ", ".", "1a", "_a", "a_", "None", "\u00e9", "\u00b2", "$", "_ 1", "--"]


def payloads(cex: dict, quick: bool, rnd) -> list[tuple[str, str]]:
    """(class signature, text).  Every payload carries the marker call so that escaping into code is observable."""
    words = set()
    classes = ["DQ", "SQ", "BS", "NL", "LB", "RB", "HASH", "X"]
    for k in (1, 2):
        words |= set(itertools.product(classes, repeat=k))
    # characters outside the BMP, U+2028 and form feed: alone and next to the delimiters
    for sp in ("AST", "LS", "FF", "NUL", "CTL"):
        words |= {(sp,), (sp, "DQ"), ("BS", sp), ("X", sp, "X")}
    for site, laws in cex.items():
        for law, h in laws.items():
            if h:
                words.add(tuple(h))
    # runs of one delimiter (a replace() that does not overlap, a counter that wraps): n = 4, 5, 7
    for c in ("DQ", "SQ", "BS"):
        words |= {(c,) * 4, (c,) * 5, (c,) * 7}
    words |= {("DQ", "DQ", "DQ"), ("BS", "DQ", "DQ", "DQ"), ("SQ", "SQ", "SQ"), ("DQ", "NL"), ("BS", "NL"), ("LB", "X", "RB"), ("BS", "BS", "DQ"), ("X", "BS")}
    if not quick:
        words |= set(itertools.product(["DQ", "SQ", "BS", "NL", "LB"], repeat=3))
    out = []
    for w in sorted(words):
        s = "".join(CH[c] for c in w)
        inj = f"+{MARK}()+"
        # the marker is placed so that, if the preceding characters terminate a literal, it is parsed as code
        out.append(("+".join(w), "v" + s + inj + s + "w"))
    out.append(("composite-fstring", "x{" + MARK + "()}y"))
    out.append(("composite-docstring", 'a """ + ' + MARK + '() + """ b'))
    out.append(("composite-toml", '1.0"\nevil = "' + MARK))
    out.append(("composite-comment", "a # b\n" + MARK + "()"))
    return out


def judge_tree(rep, slot: str, sig: str, text: str, info: dict, out, g, meta: str) -> None:
    key_base = f"{slot}/{sig}"
    if g["exc"]:
        site = g["exc"].strip().splitlines()[-1].split(":")[0]
        rep.violate(f"C05/generator-crash/{slot}/{site}", f"text {text!r} at {slot} makes the generator raise: {g['exc'].strip().splitlines()[-1][:160]}", slot=slot, text=text)
        return
    if g["rejected"]:
        return          # rejected with a diagnostic: acceptable
    recovered = []
    broken = False
    for f in sorted(out.rglob("*.py")):
        src = f.read_text()
        rel = str(f.relative_to(out))
        try:
            tree = ast.parse(src)
        except SyntaxError as e:
            rep.violate(f"C05/syntax-broken/{key_base}", f"text {text!r} at {slot} breaks the syntax of {rel}: {e.msg} (line {e.lineno})", slot=slot, text=text, file=rel, meta=meta)
            broken = True
            continue
        for n in ast.walk(tree):
            name = n.id if isinstance(n, ast.Name) else (n.attr if isinstance(n, ast.Attribute) else None)
            if name and MARK in name and name != MARK and False:
                pass
            if isinstance(n, ast.Call) and isinstance(n.func, ast.Name) and n.func.id == MARK:
                rep.violate(f"C05/code-injected/{key_base}", f"text {text!r} at {slot} becomes executable code in {rel} (line {n.lineno})", slot=slot, text=text, file=rel, meta=meta)
            if isinstance(n, ast.JoinedStr):
                for v in ast.walk(n):
                    if isinstance(v, ast.Call) and isinstance(v.func, ast.Name) and v.func.id == MARK:
                        rep.violate(f"C05/code-injected-fstring/{key_base}", f"text {text!r} at {slot} is evaluated inside an f-string in {rel}", slot=slot, text=text, file=rel)
            if isinstance(n, ast.Constant) and isinstance(n.value, str) and MARK in n.value:
                recovered.append((rel, n.value))
        if meta != "none" and False:
            pass
    # runtime-meaningful slots: the constant recovered from the AST equals the original text character for character
    if info["runtime"] in ("property", "param", "enum", "const", "default", "param-default", "path", "media"):
        exact = [v for _, v in recovered if v == text or (info["runtime"] == "path" and text in v) or (info["runtime"] == "media" and text in v)]
        present = bool(recovered)
        diagnosed = bool(g["diags"])
        if present and not exact:
            close = sorted({v for _, v in recovered}, key=len)[:2]
            rep.violate(f"C05/text-altered/{key_base}", f"text {text!r} at {slot} is reproduced as {close!r}", slot=slot, text=text, recovered=close, meta=meta)
        elif not present and not diagnosed and not broken:
            rep.violate(f"C05/text-dropped-silently/{key_base}", f"text {text!r} at {slot}: not in the output and no diagnostic", slot=slot, text=text)
    root = out if meta == "none" else out
    if meta != "none":
        t = out.parent / "pyproject.toml" if not (out / "pyproject.toml").exists() else out / "pyproject.toml"
        for tp in {out / "pyproject.toml", out.parent / "pyproject.toml"}:
            if tp.exists():
                try:
                    data = tomllib.loads(tp.read_text())
                    flat = json.dumps(data)
                    if "evil" in data or any(k == "evil" for k in data):
                        rep.violate(f"C05/toml-injected/{key_base}", f"text {text!r} at {slot} adds keys to pyproject.toml", slot=slot, text=text)
                    versions = [v for v in (data.get("tool", {}).get("poetry", {}).get("version"), data.get("project", {}).get("version")) if v is not None]
                    if slot in ("info.version",) and versions and text not in versions:
                        rep.violate(f"C05/toml-text-altered/{key_base}", f"version {text!r} is not reproduced in pyproject.toml", slot=slot, text=text)
                except tomllib.TOMLDecodeError as e:
                    rep.violate(f"C05/toml-broken/{key_base}", f"text {text!r} at {slot} breaks pyproject.toml: {e}", slot=slot, text=text, meta=meta)
        for sp in {out / "setup.py", out.parent / "setup.py"}:
            if sp.exists():
                try:
                    tree = ast.parse(sp.read_text())
                    for n in ast.walk(tree):
                        if isinstance(n, ast.Call) and isinstance(n.func, ast.Name) and n.func.id == MARK:
                            rep.violate(f"C05/code-injected-setup-py/{key_base}", f"text {text!r} at {slot} becomes code in setup.py", slot=slot, text=text)
                except SyntaxError as e:
                    rep.violate(f"C05/setup-py-broken/{key_base}", f"text {text!r} at {slot} breaks setup.py: {e.msg}", slot=slot, text=text)


def run(rep) -> None:
    quick = rep.tier == "quick"
    rnd = random.Random(seed() * 1087 + 5)
    d = scratch("c05-")
    try:
        rse_bs, doc_esc, ctl_esc = escaper_conformance(rep, d)
        rep.extra["primitive_escapes_backslash"] = rse_bs
        rep.extra["docstring_macro_escapes"] = doc_esc
        rep.extra["primitive_escapes_control_characters"] = ctl_esc
        cex = lexer_verdicts(rep, d, rse_bs, doc_esc, ctl_esc)
        rep.extra["lexer_counterexamples"] = {f"{c}/{e}": v for (c, e), v in cex.items()}
        pl = payloads(cex, quick, rnd)
        if quick:
            must = [p for p in pl if p[0].startswith("composite") or p[0] in ("DQ", "SQ", "BS", "NL", "LB", "BS+DQ", "DQ+DQ+DQ", "BS+DQ+DQ+DQ", "X+BS", "DQ+NL", "BS+NL", "HASH", "SQ+SQ+SQ", "LB+X+RB", "BS+BS+DQ", "AST", "LS", "FF", "AST+DQ", "BS+AST", "NUL", "CTL", "BS+NUL", "CTL+DQ", "DQ+DQ+DQ+DQ", "DQ+DQ+DQ+DQ+DQ", "SQ+SQ+SQ+SQ", "BS+BS+BS+BS", "DQ+DQ+DQ+DQ+DQ+DQ+DQ")]
            rest = [p for p in pl if p not in must]
            pl = must + rnd.sample(rest, 14)
        jobs, meta = [], []
        flav = ["none", "poetry", "setup", "pdm"]
        for si, slot in enumerate(SLOTS):
            for pi, (sig, text) in enumerate(pl):
                doc, info = slot_document(slot, text)
                m = flav[(si + pi) % 4] if slot not in ("info.version", "info.title", "info.description") else flav[pi % 4]
                out = d / f"s{len(jobs):05d}"
                jobs.append((doc, str(out), {"meta": m, "docstrings_on_attributes": (pi % 2 == 0), "literal_enums": (pi % 3 == 0)}))
                meta.append((slot, sig, text, info, out, m))
        # text that becomes an IDENTIFIER (member, attribute, argument, class, module names): words that are hostile to identifier derivation
        for si, slot in enumerate(IDENT_SLOTS):
            for pi, word in enumerate(IDENT_WORDS[:8] if quick else IDENT_WORDS):
                doc, info = slot_document(slot, word)
                info = dict(info, runtime=None)         # safety only (the words carry no marker); what the names become is C09's business
                out = d / f"s{len(jobs):05d}"
                jobs.append((doc, str(out), {"meta": "none", "docstrings_on_attributes": False, "literal_enums": (pi % 2 == 1)}))
                meta.append((slot, "ident:" + "".join(ch if ch.isalnum() else f"u{ord(ch):02x}" for ch in word), word, info, out, "none"))
        results = treegen.generate_many(jobs)
        for (slot, sig, text, info, out, m), g in zip(meta, results):
            rep.count(1, (slot, sig))
            judge_tree(rep, slot, sig, text, info, out, g, m)
        # generic census: EVERY string value and document-chosen key of a maximal document (safety only), so that a new interpolation of a
        # field that is ignored today is found without naming it
        mx = maximal_document()
        gslots = sorted(set(string_slots(mx)), key=str)
        core = [p for p in pl if p[0] in ("DQ+DQ+DQ", "BS+DQ", "X+BS", "NL", "composite-fstring", "composite-docstring", "DQ", "NUL", "CTL")]
        if not quick:
            core = core + rnd.sample([p for p in pl if p not in core], 10)
        gjobs, gmeta = [], []
        for gi, sl in enumerate(gslots):
            for pi, (sig, text) in enumerate(core):
                out = d / f"x{len(gjobs):05d}"
                gjobs.append((substitute(mx, sl, text), str(out), {"meta": flav[(gi + pi) % 4], "docstrings_on_attributes": pi % 2 == 1}))
                gmeta.append(("ptr:" + "/".join(map(str, sl)), sig, text, out, flav[(gi + pi) % 4]))
        gres = treegen.generate_many(gjobs)
        for (slot, sig, text, out, m), g in zip(gmeta, gres):
            rep.count(1, (slot, sig))
            judge_tree(rep, slot, sig, text, {"runtime": None}, out, g, m)
        rep.extra["generic_slots"] = len(gslots)
        # several slots at once
        for k in range(6 if quick else 40):
            doc, _ = slot_document("info.title", "T")
            chosen = rnd.sample(SLOTS, 4)
            text = rnd.choice(pl)[1]
            merged = None
            for sl in chosen:
                dd, _ = slot_document(sl, text)
                merged = dd if merged is None else _merge(merged, dd)
            out = d / f"m{k:03d}"
            g = gen.generate(merged, out, meta="poetry")
            rep.count(1, ("multi", tuple(chosen), text))
            judge_tree(rep, "multi:" + "+".join(sorted(chosen)), "multi", text, {"runtime": None}, out, g, "poetry")
        rep.extra["slots"] = len(SLOTS)
        rep.extra["payloads"] = len(pl)
        rep.sample({"slot": "schema.description", "payload": 'v"""+' + MARK + '()+"""w', "site": ["TDQ", "doc"]})
        rep.sample({"site": "DQ/rse", "lexer_counterexamples": cex.get(("DQ", "rse"))})
    finally:
        rmtree(d)
    rep.rule = ("TLC: every payload of any length over 9 character classes per (context, escaper) site; real generator: 26 string-valued slots x payload words "
                "(all words <=2 over 8 classes sampled in quick / all + words of length 3 in thorough, the spec's counterexamples, 4 composites) under the metadata "
                "flavours, plus random multi-slot combinations; non-trivial = (slot, payload shape)")
    rep.exhaustive = False
    rep.assumptions += ["README.md and .gitignore are not code; descriptive text only has to stay inside literals",
                        "a planted marker call that never appears as an ast.Call stands for 'no code is introduced'"]


def _merge(a, b):
    if isinstance(a, dict) and isinstance(b, dict):
        out = dict(a)
        for k, v in b.items():
            out[k] = _merge(a[k], v) if k in a else v
        return out
    return b if b != a else a
