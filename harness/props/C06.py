"""C06 - every failure is a diagnostic: the generator never crashes or hangs.

Specs: Pipeline.tla / Ops.tla (every action total: its result is a state or a diagnostic; both fixpoints and the body-reference
walk terminate - checked as liveness `Terminates` with fairness and as the ranking laws RoundRanks / Progress) and FsHistory.tla
(ExitLaw: exit status <=> diagnostics; RejectedWritesNothing).  Binding A: all TLC-enumerated documents / operations (every fault
combination, every reference cycle of the universes) replayed through the real parser under a wall-clock limit.  Fault model
driven from the spec: every JSON-pointer node of seed documents (repository documents + TLC-concretised ones) replaced by each
junk value; the recorded hook traces must be behaviours of PipelineTrace.tla with OPAQUE shapes (phases in order, termination,
ranking law).  Loader classes (bytes x JSON/YAML x path/URL) through the real CLI, validated by FsTrace.tla.  RefWalk.tla: the reference walks inside one
components section (seen-list walk, single lookup, retry loop) with their outcome and ranking laws, all 1296 graphs over four names per section replayed.
"""
from __future__ import annotations

import copy
import http.server
import json
import multiprocessing as mp
import random
import re
import threading
from pathlib import Path

from .. import fshist, gen, ops, pipe, refwalk, tlc
from ..common import NCPU, REPO, rmtree, scratch, seed

JUNK = [None, "", 0, -1, 1.5, True, [], {}, "junk", ["junk"], {"junk": 1}, {"$ref": "#/components/schemas/Nope"},
        {"$ref": "https://remote.example/x.json#/a"}, {"$ref": "#"}, {"$ref": "#/components/schemas/"}, "\udcff" if False else "é\u0000",
        [None], {"type": "object", "properties": None}, {"type": ["string", "nonsense"]}, 10 ** 30,
        # numbers YAML can write and JSON cannot, numbers too large for float()/int(), a time that rolls over the last year, a reference with a malformed host
        float("inf"), float("nan"), 10 ** 400, "1e400", "9999-12-31T24:00", {"$ref": "//[x"}, {"type": []}, {"const": "x"},
        # references whose fragment carries percent-escapes: not UTF-8, truncated, bare, valid-but-dangling; JSON-pointer escapes; non-ASCII
        {"$ref": "#/components/schemas/Caf%E9"}, {"$ref": "#/components/schemas/%FF%C3"}, {"$ref": "#/components/schemas/a%20b%"}, {"$ref": "#/components/schemas/~0~1~2"},
        {"$ref": "#/components/schemas/\u00e9\u2028"}]
# keys that carry the document's structure: in quick mode every such node of every document gets the small structural menu below (an empty
# map / list / null / empty string where a populated one is expected), sampled nodes get the full menu
STRUCT_KEYS = {"content", "schema", "$ref", "items", "enum", "required", "properties", "parameters", "allOf", "oneOf", "anyOf", "type", "default", "responses", "requestBody",
               "additionalProperties", "const", "prefixItems", "name", "in", "schemas", "paths", "components", "info", "tags", "security", "headers", "format"}
STRUCT_MENU = [JUNK.index({}), JUNK.index([]), JUNK.index(None), JUNK.index(""), JUNK.index("junk"), JUNK.index(0)]


def crash_site(exc: str) -> str:
    if exc == "HANG":
        return "HANG"
    frames = re.findall(r'File "[^"]*openapi_python_client/([^"]+)", line \d+, in (\w+)', exc)
    last = exc.strip().splitlines()[-1].split(":")[0].strip()
    if frames:
        f, fn = frames[-1]
        return f"{last}@{Path(f).stem}.{fn}"
    return last


def _nodes(doc, path=()):
    yield path
    if isinstance(doc, dict):
        for k, v in doc.items():
            yield from _nodes(v, path + (k,))
    elif isinstance(doc, list):
        for i, v in enumerate(doc):
            yield from _nodes(v, path + (i,))


def _set(doc, path, value, delete=False, dup=False):
    d = copy.deepcopy(doc)
    if not path:
        return value
    cur = d
    for k in path[:-1]:
        cur = cur[k]
    k = path[-1]
    if delete:
        del cur[k]
    elif dup and isinstance(cur, dict):
        cur[str(k) + "_dup"] = copy.deepcopy(cur[k])
    elif dup and isinstance(cur, list):
        cur.append(copy.deepcopy(cur[k]))
    else:
        cur[k] = value
    return d


_HANGS = mp.Value("i", 0)


_DOCS: dict = {}


def _materialize(recipe):
    kind = recipe[0]
    if kind == "doc":
        return _DOCS[recipe[1]]
    if kind == "one":
        _, name, path, j = recipe
        if j == "del":
            return _set(_DOCS[name], path, None, delete=True)
        if j == "dup":
            return _set(_DOCS[name], path, None, dup=True)
        return _set(_DOCS[name], path, JUNK[j])
    _, name, steps = recipe
    dd = _DOCS[name]
    for path, j in steps:
        try:
            dd = _set(dd, path, JUNK[j])
        except (KeyError, IndexError, TypeError):
            pass
    return dd


def _parse_job(job):
    recipe, label = job
    if _HANGS.value >= 4:
        return label, None
    doc = _materialize(recipe)
    data, exc = gen.parse(doc, limit=20)
    if exc == "HANG":
        with _HANGS.get_lock():
            _HANGS.value += 1
    return label, exc


def _generate_job(job):
    """parse AND render (into a scratch directory that is removed at once): crashes of the templates count too."""
    import shutil
    import tempfile
    recipe, label = job
    if _HANGS.value >= 4:
        return label, None
    doc = _materialize(recipe)
    out = Path(tempfile.mkdtemp(prefix="c06g-"))
    try:
        r = gen.generate(doc, out / "p", limit=30)
    finally:
        shutil.rmtree(out, ignore_errors=True)
    if r["exc"] == "HANG":
        with _HANGS.get_lock():
            _HANGS.value += 1
    return label, r["exc"]


def typed_document() -> dict:
    """Every property kind with a default, in models, parameters of every location and bodies of every kind (incl. multipart with consts)."""
    S = {"type": "string"}
    props = {"s": {"type": "string", "default": "x"}, "i": {"type": "integer", "default": 1}, "n": {"type": "number", "default": 1.5}, "b": {"type": "boolean", "default": True},
             "d": {"type": "string", "format": "date", "default": "2020-01-02"}, "t": {"type": "string", "format": "date-time", "default": "2020-01-02T03:04:05Z"},
             "u": {"type": "string", "format": "uuid", "default": "12345678-1234-5678-1234-567812345678"}, "e": {"type": "string", "enum": ["a", "b"], "default": "a"},
             "ei": {"type": "integer", "enum": [1, 2], "default": 1}, "c": {"const": "k", "default": "k"}, "l": {"type": "array", "items": {"type": "integer"}, "default": [1]},
             "un": {"oneOf": [{"type": "integer"}, {"type": "string", "format": "date"}], "default": 3}, "m": {"allOf": [{"$ref": "#/components/schemas/Leaf"}]},
             "f": {"type": "string", "format": "binary"}}
    body = {"type": "object", "required": ["c"], "properties": dict(props)}
    return gen.mkdoc({"Leaf": {"type": "object", "properties": {"v": S}}, "Typed": {"type": "object", "properties": dict(props), "additionalProperties": {"type": "number", "default": 2}}},
                     {"/t/{p}": {"post": {"operationId": "typed", "parameters": [{"name": "p", "in": "path", "required": True, "schema": {"type": "integer", "default": 1}},
                                                                                  {"name": "q", "in": "query", "schema": props["n"]}, {"name": "h", "in": "header", "schema": props["t"]},
                                                                                  {"name": "c", "in": "cookie", "schema": props["e"]}, {"name": "k", "in": "query", "schema": props["c"]}],
                                          "requestBody": {"content": {"multipart/form-data": {"schema": body}, "application/json": {"schema": {"$ref": "#/components/schemas/Typed"}},
                                                                      "application/x-www-form-urlencoded": {"schema": body}}},
                                          "responses": {"200": {"description": "d", "content": {"application/json": {"schema": {"$ref": "#/components/schemas/Typed"}}}}}}}})


def seed_documents() -> dict:
    from ruamel.yaml import YAML
    docs = {}
    e2e = REPO / "end_to_end_tests"
    for f in ["baseline_openapi_3.0.json", "baseline_openapi_3.1.yaml", "3.1_specific.openapi.yaml", "literal_enums.openapi.yaml",
              "docstrings_on_attributes.yml"]:
        p = e2e / f
        if p.exists():
            docs[f] = json.loads(p.read_text()) if f.endswith(".json") else YAML(typ="safe").load(p)
    for f in sorted((e2e / "documents_with_errors").glob("*.y*ml")):
        docs["err/" + f.name] = YAML(typ="safe").load(f)
    from .. import zoo
    docs["zoo-warn"] = zoo.zoo_warn()
    return docs


def corruption(rep, rnd, quick: bool, d: Path) -> None:
    docs = seed_documents()
    rep.extra["seed_documents"] = sorted(docs)
    small = {"ops": ops.concretize({"ps": [{"n": "a", "loc": "query", "how": "ref"}], "pips": [{"n": "p", "loc": "cookie", "how": "ok"}],
                                    "body": "refchain", "rs": [{"key": "200", "how": "model"}, {"key": "205", "how": "ref"}], "pathvar": False}),
             "pipe": pipe.concretize([{"name": "Alpha", "k": "objarr", "t": "Beta"}, {"name": "Beta", "k": "allof", "t": "Gamma"},
                                      {"name": "Gamma", "k": "objinl", "t": ""}, {"name": "Delta", "k": "wrap", "t": "Alpha"}])}
    # mutations of the typed document go through the renderer too
    tdoc = typed_document()
    gspecs = [(None, None, "typed:unchanged")]
    for path in _nodes(tdoc):
        for j, junk in enumerate(JUNK):
            gspecs.append((path, j, f"typed#/{'/'.join(map(str, path))}={json.dumps(junk, default=str)[:40]}"))
    if quick and len(gspecs) > 1800:
        gspecs = [gspecs[0]] + rnd.sample(gspecs[1:], 1800)
    # jobs are RECIPES (document name + what to replace), materialised inside the workers: the corrupted documents are never all in memory
    global _DOCS
    _DOCS = {**small, **docs, "typed": tdoc}
    jobs = []
    for name, doc in {**small, **docs}.items():
        nodes = list(_nodes(doc))
        big = len(nodes) > 400
        if big:
            nodes = rnd.sample(nodes, min(len(nodes), 120 if quick else 1500))
        for path in nodes:
            menu = list(range(len(JUNK))) if (not big or not quick) else rnd.sample(range(len(JUNK)), 4)
            if name in small or not quick:
                menu = list(range(len(JUNK)))
            for j in menu:
                jobs.append((("one", name, path, j), f"{name}#/{'/'.join(map(str, path))}={json.dumps(JUNK[j], default=str)[:40]}"))
            if path:
                jobs.append((("one", name, path, "del"), f"{name}#/{'/'.join(map(str, path))}:deleted"))
                jobs.append((("one", name, path, "dup"), f"{name}#/{'/'.join(map(str, path))}:duplicated"))
    targeted = []
    for name, doc in {**small, **docs}.items():
        for path in _nodes(doc):
            if path and path[-1] in STRUCT_KEYS:
                for j in STRUCT_MENU:
                    targeted.append((("one", name, path, j), f"{name}#/{'/'.join(map(str, path))}={json.dumps(JUNK[j], default=str)[:40]}"))
    if quick and len(targeted) > 12000:
        targeted = rnd.sample(targeted, 12000)
    rep.extra["structural_corruptions"] = len(targeted)
    # random k-subsets on the small documents
    for name, doc in small.items():
        nodes = [p for p in _nodes(doc) if p]
        for _ in range(200 if quick else 3000):
            steps = [(path, rnd.randrange(len(JUNK))) for path in rnd.sample(nodes, rnd.randint(2, 4))]
            jobs.append((("multi", name, steps), f"{name}#multi:{'+'.join('/'.join(map(str, p)) for p, _ in steps)}"))
    if quick and len(jobs) > 9000:
        jobs = rnd.sample(jobs, 9000)
    jobs = jobs + [t for t in targeted if t not in set(jobs)] if len(targeted) < 2000 else jobs + targeted
    gjobs = [(("one", "typed", path, j), label) if path is not None else (("doc", "typed"), label) for (path, j, label) in gspecs]
    with mp.get_context("fork").Pool(NCPU - 2) as pool:
        res = pool.map(_parse_job, jobs, chunksize=50)
        gres = pool.map(_generate_job, gjobs, chunksize=10)
    jobs = jobs + gjobs
    res = res + gres
    rep.extra["corrupted_documents_rendered"] = len(gjobs)
    sites: dict = {}
    for (recipe, _), (label, exc) in zip(jobs, res):
        rep.count(1, label)
        if exc is not None:
            site = crash_site(exc)
            sites[site] = sites.get(site, 0) + 1
            rep.violate(f"C06/crash/{site}", f"unhandled exception / hang on a corrupted document ({label})", label=label, exc=exc, doc=_materialize(recipe))
    rep.extra["corrupted_documents"] = len(jobs)
    rep.extra["crash_sites"] = sites
    # traces of a sample of corrupted documents must be behaviours of PipelineTrace (opaque shapes)
    sample = rnd.sample(jobs, 150 if quick else 1500)
    tdocs = [(doc, None) for doc in (_materialize(r) for r, _ in sample) if isinstance(doc, dict) and isinstance(doc.get("components"), dict)
             and isinstance(doc["components"].get("schemas"), dict)]

    def law_key(why, adoc):
        if "did not reach" in why:
            return None      # a document rejected before/inside validation never starts the pipeline: judged by the exception oracle
        return f"C06/trace/{why[:50]}"
    pipe.trace_batch(rep, tdocs, d, "C06", law_key)


class _H(http.server.BaseHTTPRequestHandler):
    table: dict = {}

    def do_GET(self):  # noqa: N802
        body, ctype = self.table.get(self.path, (b"", None))
        if body is None:
            self.send_response(404)
            self.end_headers()
            return
        self.send_response(200)
        if ctype:
            self.send_header("Content-Type", ctype)
        self.send_header("Content-Length", str(len(body)))
        self.end_headers()
        self.wfile.write(body)

    def log_message(self, *a):
        pass


YAML_NATIVE = b"""openapi: 3.1.0
info: {title: native, version: '1'}
paths:
  /a:
    get:
      operationId: a
      parameters:
        - name: p
          in: query
          schema: {type: string}
          example: 2020-01-02
        - name: p
          in: query
          schema: {type: string}
          example: 2020-01-02T03:04:05Z
      responses: {'200': {description: ok}}
  /b:
    get:
      operationId: b
      responses:
        '200':
          description: ok
          content:
            application/xml:
              schema: {type: string}
              example: 2021-02-03
        '201':
          description: ok
          content:
            application/json:
              schema:
                type: array
                example:
                  - 2021-02-03
                  - .inf
                  - !!binary aGk=
components:
  schemas:
    Dates:
      type: string
      enum: [2020-01-02, 2020-01-03]
      default: 1999-12-31
    When:
      type: object
      properties:
        w:
          type: array
          default:
            - 2020-01-02T03:04:05Z
        m:
          enum: [2020-01-02, 1]
    Fine:
      type: object
      properties:
        d: {type: string, format: date, example: 2020-01-02}
"""


def _zoo_yaml() -> bytes:
    import io

    from ruamel.yaml import YAML

    from .. import zoo
    buf = io.BytesIO()
    y = YAML(typ="safe", pure=True)
    y.sort_base_mapping_type_on_output = False
    y.default_flow_style = False          # block style: the dumper's flow output is not always readable by its own loader
    y.dump(zoo.zoo_warn(), buf)
    return buf.getvalue()


def loader_classes(rep, d: Path) -> None:
    valid = fshist.DOCS["d1"]
    from ruamel.yaml import YAML
    import io
    buf = io.StringIO()
    YAML().dump(json.loads(valid), buf)
    classes = {
        "valid-json": (valid, True), "valid-yaml": (buf.getvalue().encode(), True),
        "invalid-utf8": (b"\xff\xfe{\"a\": \xc3\x28}", False), "empty": (b"", False), "whitespace": (b"  \n", False),
        "bad-syntax": (b"{\"a\": [1, 2", False), "scalar-int": (b"5", False), "scalar-str": (b"\"hello\"", False),
        "scalar-bool": (b"true", False), "scalar-null": (b"null", False), "list": (b"[1, 2, 3]", False),
        "mapping-not-openapi": (b"{\"a\": 1}", False), "swagger2": (b"{\"swagger\": \"2.0\", \"info\": {\"title\": \"t\", \"version\": \"1\"}, \"paths\": {}}", False),
        "version-4": (valid.replace(b"3.1.0", b"4.0.0"), False), "version-junk": (valid.replace(b"3.1.0", b"abc"), False),
        "yaml-tab": (b"a:\n\t- b", False), "yaml-anchor-bomb": (b"a: &a [1,2]\nb: [*a,*a,*a]\nopenapi: 3.0.0", False),
        "nested-deep": (b"[" * 400 + b"]" * 400, False),
        # accepted documents whose WARNINGS carry parts of the document with YAML-native values (dates, timestamps, binary, non-finite numbers)
        "yaml-native-in-warnings": (YAML_NATIVE, True),
        "zoo-warn-yaml": (_zoo_yaml(), True),
    }
    _H.table = {}
    for k, (b, ok) in classes.items():
        _H.table[f"/{k}.json"] = (b, "application/json")
        _H.table[f"/{k}.yaml"] = (b, "application/yaml")
        _H.table[f"/{k}.noct"] = (b, None)
    _H.table["/missing"] = (None, None)
    srv = http.server.ThreadingHTTPServer(("127.0.0.1", 0), _H)
    port = srv.server_address[1]
    threading.Thread(target=srv.serve_forever, daemon=True).start()
    events = []
    tid = 0
    try:
        for k, (b, ok) in classes.items():
            for ext in ("json", "yaml"):
                for src in ("path", "url"):
                    tid += 1
                    root = d / f"l{tid:04d}"
                    work = root / "work"
                    work.mkdir(parents=True)
                    (work / "SENTINEL").write_text("s")
                    f = root / f"doc.{ext}"
                    f.write_bytes(b)
                    cfgp = root / "cfg.json"
                    cfgp.write_text(json.dumps({"post_hooks": []}))
                    args = ["generate", "--meta", "none", "--output-path", str(work / "out"), "--config", str(cfgp)]
                    args += ["--path", str(f)] if src == "path" else ["--url", f"http://127.0.0.1:{port}/{k}.{ext}"]
                    before = gen.snapshot(work)
                    tf = root / "t.ndjson"
                    import os
                    from ..common import GUARD
                    open(tf, "w").close()
                    os.environ[GUARD] = str(tf)
                    try:
                        code, output, exc = gen.cli_inproc(args, work)
                    finally:
                        os.environ.pop(GUARD, None)
                    after = gen.snapshot(work)
                    rep.count(1, ("loader", k, ext, src))
                    label = f"{k}/{ext}/{src}"
                    if exc is not None:
                        rep.violate(f"C06/loader-crash/{crash_site(exc)}", f"unhandled exception for input class {label}", input=label, exc=exc)
                        continue
                    is_err = "Error(s) encountered" in output
                    if (code != 0) != is_err:
                        rep.violate(f"C06/exit-status/{k}", f"exit {code} but error-level diagnostic printed={is_err} ({label})", input=label,
                                    output=output[-600:])
                    accepted_as_doc = ok and not (ext == "json" and k in ("valid-yaml", "yaml-native-in-warnings", "zoo-warn-yaml"))
                    if accepted_as_doc and is_err:
                        rep.violate(f"C06/valid-document-rejected/{k}", f"an acceptable document ({label}) is rejected: {output[-300:]}", input=label)
                    if not is_err and not (work / "out").exists():
                        rep.violate(f"C06/no-diagnostic-no-output/{k}", f"nothing generated and nothing reported ({label})", input=label)
                    if is_err and before != after:
                        rep.violate(f"C06/rejected-document-wrote/{k}", f"rejected input {label} changed the output location", input=label)
                    ev = [{"ev": "hist", "tid": tid}, {"ev": "cmd", "doc": "d1" if not is_err else ("dJunk" if "rejected_load" in open(tf).read() else "dBad"),
                                                       "ow": False, "fow": False, "hk": "ok"}]
                    for line in open(tf, encoding="utf-8"):
                        e = json.loads(line)
                        if e["ev"] in ("fs", "exit"):
                            e.pop("seq", None)
                            ev.append(e)
                    events += ev
        # unreachable URL
        code, output, exc = gen.cli_inproc(["generate", "--url", f"http://127.0.0.1:{port}/missing", "--meta", "none", "--output-path", str(d / "nope")], d)
        if exc is not None or code == 0 and not (d / "nope").exists():
            rep.violate("C06/loader-crash/url-404", "404 from the URL source: crash or silent success", exc=exc, output=output[-500:])
        code, output, exc = gen.cli_inproc(["generate", "--url", "http://127.0.0.1:9/none", "--meta", "none", "--output-path", str(d / "nope2")], d)
        if exc is not None or code == 0:
            rep.violate("C06/loader-crash/url-unreachable", "unreachable URL: crash or exit 0", exc=exc, output=output[-500:])
    finally:
        srv.shutdown()
    events.append({"ev": "hist", "tid": 900009})
    v, res = fshist.validate_traces(events, d)
    rep.tlc(res)
    rep.traces += tid
    for t, line, why in v["law"]:
        rep.violate(f"C06/loader-trace/{why[:60]}", f"loader/CLI steps are not a behaviour of FsHistory.tla: {why}", line=line, tid=t)
    rep.extra["loader_runs"] = tid


def refwalk_leg(rep, d: Path) -> None:
    """RefWalk.tla: every reference graph over four names in each components section (request bodies: the seen-list walk; responses,
    parameters, bare schema references: one lookup; single-reference wrappers: the retry loop), replayed through the real parser."""
    for section, mode in refwalk.SECTIONS.items():
        res = refwalk.enumerate_graphs(mode, d)
        rep.tlc(res)
        if res.violated:
            rep.notes.append(f"TLC(RefWalk/{mode}): {sorted(set(res.violated))}")
        cases = res.printed
        if len(cases) != 6 ** 4:
            raise tlc.TlcFailure(f"RefWalk({mode}) emitted {len(cases)} graphs")
        CH = 216
        for ci in range(0, len(cases), CH):
            chunk = cases[ci:ci + CH]
            doc, opids = refwalk.concretize(section, [c["g"] for c in chunk], ci)
            data, exc = gen.parse(doc, limit=60)
            if exc is not None:
                # locate one graph of the chunk that does it on its own
                culprit = None
                for k, c in enumerate(chunk):
                    one, _ = refwalk.concretize(section, [c["g"]], ci + k)
                    _, e1 = gen.parse(one, limit=3)
                    if e1 is not None:
                        culprit = (c, one, e1)
                        break
                c, one, e1 = culprit or (chunk[0], doc if len(chunk) == 1 else None, exc)
                rep.violate(f"C06/crash/{crash_site(e1)}/refwalk/{section}", f"reference graph {c['g']} in components/{section} (RefWalk.tla says: {c['out']}): "
                            f"{'the parser does not return' if e1 == 'HANG' else 'unhandled exception'}", graph=c["g"], doc=one, exc=e1)
                break
            if not hasattr(data, "endpoint_collections_by_tag"):
                rep.violate(f"C06/refwalk/{section}/document-rejected", f"a document whose only fault is inside components/{section} is rejected as a whole: {getattr(data, 'detail', '')[:200]}")
                break
            obs = refwalk.observe(section, data, opids)
            for c, oid in zip(chunk, opids):
                o = obs[oid]
                rep.count(1, ("refwalk", section, json.dumps(c["g"], sort_keys=True)))
                if not o["resolved"] and not o["diag"]:
                    rep.violate(f"C06/refwalk/{section}/unresolved-without-diagnostic", f"reference graph {c['g']} in components/{section}: the use site is not generated and nothing is reported",
                                graph=c["g"])
                if o["resolved"] != (c["out"] == "resolved"):
                    rep.drifted(mode="refwalk", section=section, graph=c["g"], model=c["out"], real=o)
        rep.extra.setdefault("refwalk_graphs", {})[section] = len(cases)


def run(rep) -> None:
    quick = rep.tier == "quick"
    rnd = random.Random(seed() * 1021 + 6)
    d = scratch("c06-")
    try:
        # termination + totality on the models (liveness under fairness, no state constraint) and replay of every enumerated case
        cases = pipe.run_universe(rep, 3, d)
        hangs = 0
        for c in cases:
            doc = pipe.concretize(c["doc"])
            data, exc = gen.parse(doc, limit=4) if hangs < 3 else (None, None)
            hangs += exc == "HANG"
            rep.count(1, tuple((s["k"], s["t"]) for s in c["doc"]) if c["bad"] else None)
            if exc is not None:
                rep.violate(f"C06/crash/{crash_site(exc)}", "unhandled exception / hang on a document of Pipeline.tla's universe",
                            adoc=c["doc"], doc=doc, exc=exc)
        rs = ops.enumerate_ops(1 if quick else 2, 1 if quick else 2, d)
        ocases = []
        for r in rs:
            rep.tlc(r)
            ocases += r.printed
        real = ops.replay_many([c["op"] for c in ocases])
        for c, pr in zip(ocases, real):
            rep.count(1)
            if "exc" in pr and not pr["exc"].startswith(("REJECTED", "SKIPPED")):
                rep.violate(f"C06/crash/{crash_site(pr['exc'])}", "unhandled exception / hang on an operation of Ops.tla's universe",
                            op=c["op"], exc=pr["exc"])
        rep.extra["documents"] = len(cases)
        rep.extra["operations"] = len(ocases)
        refwalk_leg(rep, d)
        corruption(rep, rnd, quick, d)
        loader_classes(rep, d)
        # exit-status law and "rejected writes nothing" on the model
        cfg = tlc.write_cfg(d / "fs.cfg", {"CrashPoints": set(), "MaxCmds": 2, "MaxTouches": 99, "Docs": set(fshist.DOCS), "HookKinds": set(fshist.HOOKS),
                                           "Touches": {"u_top", "sib"}, "EmitJson": False},
                            ["ExitLaw", "RejectedWritesNothing"], props=["RejectedStep", "EveryCommandExits"], view="View")
        res = tlc.run_tlc("FsHistoryMC.tla", cfg, workers=NCPU)
        rep.tlc(res)
        if res.violated:
            rep.notes.append(f"TLC(FsHistory): {res.violated}")
        rep.sample({"corrupted": "baseline_openapi_3.0.json#/components/schemas/AModel/properties/an_enum_value=null (and 19 other junk values per node)"})
        rep.sample({"loader_class": "scalar-null as .yaml via URL"})
    finally:
        rmtree(d)
    rep.rule = ("all documents/operations of the Pipeline/Ops universes; every JSON-pointer node of 2 small + 5 repository documents (+ documents_with_errors) "
                "x 20 junk values + deletion + duplication (sampled on the big documents in quick), random 2-4-node combinations; 18 byte-level "
                "loader classes x JSON/YAML x path/URL through the CLI; non-trivial = distinct corrupted input")
    rep.exhaustive = False
    rep.assumptions += ["wall-clock limit 30 s per parse stands for 'hangs'", "loopback HTTP server stands for the URL source"]
