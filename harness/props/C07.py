"""C07 - nothing in the document is dropped silently.

Specs: Pipeline.tla (law Census: every object/enum component has a class or a diagnostic) and Ops.tla (law Census: an
operation is generated or its failure names METHOD path; every documented status / request media type of a generated
operation is handled or named in a warning).  Binding A: every TLC-enumerated document / operation replayed through the real
parser with a census oracle on GeneratorData + diagnostics; a stratified sample is rendered and the census repeated on
the OUTPUT TREE (files, exports, status branches).  Binding B: hook traces validated by PipelineTrace.tla.
"""
from __future__ import annotations

import json
import ast
import random
import re

from .. import gen, ops, pipe, treegen
from ..common import rmtree, scratch, seed
from . import C09 as _c09


def _law_key(why: str, adoc):
    if "did not reach" in why:
        return f"C07/trace/pipeline-aborted/{pipe.sig(adoc) if adoc else 'opaque'}"
    return None     # isolation / closure laws are C08's business


def schema_census(rep, cases) -> None:
    for c in cases:
        adoc = c["doc"]
        names = [s["name"] for s in adoc]
        doc = pipe.concretize(adoc)
        data, exc = gen.parse(doc)
        rep.count(1, tuple((s["k"], s["t"]) for s in adoc) if c["aff"] else None)
        if exc is not None:
            rep.violate(f"C07/crash/{pipe.sig(adoc)}", "generator raised: nothing is accounted for", adoc=adoc, exc=exc)
            continue
        pr = pipe.project(data, names, adoc)
        pipe.compare_model(rep, c, pr)
        for s in adoc:
            if pipe.has_class(s["k"]) and s["name"] not in pr["gen"] and s["name"] not in pr["diagnosed"]:
                rep.violate(f"C07/schema-unaccounted/{s['k']}",
                            f"component schema {s['name']} ({s['k']}) has neither a class nor a diagnostic naming it",
                            adoc=adoc, doc=doc, observed={k: v for k, v in pr.items()})


def ops_census(rep, cases, real) -> None:
    for c, pr in zip(cases, real):
        op = c["op"]
        rep.count(1, (op["body"], tuple(p["how"] for p in op["ps"]), tuple(r["key"] for r in op["rs"])) if c["warns"] or c["result"] != "ok" else None)
        sig = f"body={op['body']}/params={'+'.join(p['how'] for p in op['ps'] + op['pips']) or '-'}"
        if "exc" in pr and pr["exc"].startswith("SKIPPED"):
            continue
        if "exc" in pr:
            rep.violate(f"C07/op-crash/{sig}", "generator raised/rejected the document: the operation is not accounted for",
                        op=op, exc=pr["exc"], doc=ops.concretize(op))
            continue
        mgen = c["result"] == "ok"
        same = pr["generated"] == mgen and (not mgen or (pr["handled"] == sorted(c["handled"]) and pr["btypes"] == sorted(c["btypes"])
                                                        and pr["params"] == sorted((a["n"], a["loc"]) for a in c["accepted"])))
        if not same:
            rep.drifted(mode="ops", op=op, model=[c["result"], c["handled"], c["btypes"]], real={k: v for k, v in pr.items() if k != "texts"})
        if not pr["generated"]:
            if not pr["named"]:
                rep.violate(f"C07/operation-unaccounted/{sig}", "operation is neither generated nor named (METHOD path) in a diagnostic",
                            op=op, doc=ops.concretize(op), observed={k: v for k, v in pr.items()})
            continue
        for r in op["rs"]:
            if r["key"] not in pr["handled"] and not ops.warned_status(pr["texts"], r["key"]):
                rep.violate(f"C07/status-unaccounted/{r['how']}", f"documented status {r['key']} is neither handled nor named in a warning",
                            op=op, doc=ops.concretize(op), observed={k: v for k, v in pr.items()})
        media = (ops.conc_body(op["body"]) or {}).get("content") or {}
        if op["body"] in ("ref", "refchain"):
            media = {"application/json": 1}
        want = {"application/json": "json", "application/x-www-form-urlencoded": "data", "multipart/form-data": "files",
                "application/octet-stream": "content"}
        for m in media:
            # accounted per MEDIA TYPE: the generated function has a body variant sent as exactly this media type
            handled = m in pr.get("bmedia", []) if op["body"] not in ("ref", "refchain") else want.get(m) in pr["btypes"]
            if not handled and not ops.warned_media(pr["texts"], m):
                rep.violate(f"C07/media-type-unaccounted/{op['body']}", f"request media type {m} is neither handled nor named in a warning",
                            op=op, doc=ops.concretize(op), observed={k: v for k, v in pr.items()})


def rendered_census(rep, sample_docs, sample_ops, d) -> None:
    """Census on the output tree (not on parser internals)."""
    jobs = []
    for i, c in enumerate(sample_docs):
        jobs.append((pipe.concretize(c["doc"]), str(d / f"s{i:05d}"), {}))
    for i, c in enumerate(sample_ops):
        jobs.append((ops.concretize(c["op"]), str(d / f"o{i:05d}"), {}))
    res = treegen.generate_many(jobs)
    for i, c in enumerate(sample_docs):
        r = res[i]
        if r["exc"] or r["rejected"]:
            rep.violate(f"C07/render-crash/{pipe.sig(c['doc'])}", "rendering raised/rejected", adoc=c["doc"], exc=r["exc"])
            continue
        snap = gen.snapshot(d / f"s{i:05d}", content=True)
        init = snap.get("models/__init__.py", b"").decode()
        texts = [(x["header"] + "\n" + x["detail"]) for x in r["diags"]]
        for s in c["doc"]:
            if not pipe.has_class(s["k"]):
                continue
            n = s["name"]
            exported = re.search(rf'^\s*"{n}",\s*$', init, re.M) is not None and f"models/{n.lower()}.py" in snap
            diagnosed = any(re.search(rf"/components/schemas/{n}\b", t) for t in texts)
            if not exported and not diagnosed:
                rep.violate(f"C07/tree/schema-unaccounted/{s['k']}", f"{n}: no exported class in the tree and no diagnostic", adoc=c["doc"])
        rep.count(1)
    off = len(sample_docs)
    for i, c in enumerate(sample_ops):
        r = res[off + i]
        op = c["op"]
        if r["exc"] or r["rejected"]:
            rep.violate(f"C07/render-crash/op-{op['body']}", "rendering raised/rejected", op=op, exc=r["exc"])
            continue
        snap = gen.snapshot(d / f"o{i:05d}", content=True)
        mod = snap.get("api/default/the_op.py")
        texts = [(x["header"] + "\n" + x["detail"]) for x in r["diags"]]
        named = any(f"POST {ops.path_of(op)}" in t for t in texts)
        if mod is None or b"def sync_detailed" not in mod:
            if not named:
                rep.violate(f"C07/tree/operation-unaccounted/body={op['body']}", "no endpoint module with sync_detailed and no diagnostic naming it", op=op)
        else:
            src = mod.decode()
            for rr in op["rs"]:
                if rr["key"].isdigit():
                    branch = f"response.status_code == {int(rr['key'])}" in src
                    if not branch and not ops.warned_status(texts, rr["key"]):
                        rep.violate(f"C07/tree/status-unaccounted/{rr['how']}", f"status {rr['key']}: no branch and no warning", op=op)
        rep.count(1)
    rep.extra["rendered_trees"] = len(jobs)


def collisions(rep) -> None:
    """Two distinct items collapsed into one artefact: pairs found colliding by Names.tla, checked on the OUTPUT TREE."""
    import tempfile
    from pathlib import Path
    pairs_ops = [("getX", "get_x"), ("a b", "a-b"), ("listItems", "list_items")]
    pairs_cls = [("NN", "Nn"), ("FooBar", "Foo_Bar"), ("A1", "a1")]
    d = Path(tempfile.mkdtemp(prefix="c07col-"))
    try:
        for k, (a, b) in enumerate(pairs_ops):
            doc = gen.mkdoc(paths={"/p0": {"get": {"operationId": a, "responses": {"200": {"description": "d"}}}},
                                   "/p1": {"get": {"operationId": b, "responses": {"200": {"description": "d"}}}}})
            r = gen.generate(doc, d / f"o{k}")
            snap = gen.snapshot(d / f"o{k}")
            mods = [p for p in snap if p.startswith("api/default/") and p.endswith(".py") and not p.endswith("__init__.py")]
            rep.count(1, ("opcol", a, b))
            if len(mods) < 2 and not r["diags"]:
                rep.violate("C07/two-into-one/tag-ops", f"operations {a!r} and {b!r} collapsed into {mods} without a diagnostic",
                            doc=doc, modules=mods)
        for k, (a, b) in enumerate(pairs_cls):
            doc = gen.mkdoc(schemas={a: {"type": "object", "properties": {"x": {"type": "string"}}},
                                     b: {"type": "object", "properties": {"y": {"type": "string"}}}})
            r = gen.generate(doc, d / f"c{k}")
            snap = gen.snapshot(d / f"c{k}")
            mods = [p for p in snap if p.startswith("models/") and p.endswith(".py") and not p.endswith("__init__.py")]
            rep.count(1, ("clscol", a, b))
            if len(mods) < 2 and not r["diags"]:
                rep.violate("C07/two-into-one/class-modules", f"schemas {a!r} and {b!r} collapsed into {mods} without a diagnostic",
                            doc=doc, modules=mods)
        # the same class name (pascal-casing merges them) with EQUAL and with different content; inline titled models; under both title-prefix settings
        same = {"type": "object", "properties": {"x": {"type": "string"}}, "required": ["x"]}
        for k, (a, b, sb, cf) in enumerate([("UserProfile", "user_profile", same, {}), ("UserProfile", "user_profile", {"type": "object", "properties": {"y": {"type": "integer"}}}, {}),
                                            ("Order-Line", "order_line", same, {}), ("Wrapper1", "Wrapper2", None, {"use_path_prefixes_for_title_model_names": False})]):
            if sb is None:      # two inline models with one title inside different parents
                inner = {"title": "Shared Title", "type": "object", "properties": {"x": {"type": "string"}}}
                doc = gen.mkdoc(schemas={a: {"type": "object", "properties": {"i": inner}}, b: {"type": "object", "properties": {"i": dict(inner)}}})
                items = 4
            else:
                doc = gen.mkdoc(schemas={a: dict(same), b: dict(sb)})
                items = 2
            r = gen.generate(doc, d / f"s{k}", **cf)
            snap = gen.snapshot(d / f"s{k}")
            mods = [p for p in snap if p.startswith("models/") and p.endswith(".py") and not p.endswith("__init__.py")]
            rep.count(1, ("samecls", a, b, k))
            if len(mods) < items and not r["diags"]:
                rep.violate(f"C07/two-into-one/same-class-name/{'equal' if sb is same or sb is None else 'different'}-content",
                            f"schemas {a!r} and {b!r} ({items} models) collapsed into {mods} without a diagnostic", doc=doc, modules=mods)
        # classes of DIFFERENT kinds that derive one name: a component model / enum against an inline enum / model named after its parent and property,
        # an enum parameter named after its operation, a titled enum - in both declaration orders
        S_ = {"type": "string"}
        en = lambda *v: {"type": "string", "enum": list(v)}
        obj = lambda **p: {"type": "object", "properties": p}
        ok = {"200": {"description": "d"}}
        kinds = {
            "model-vs-inline-enum": ({"OrderStatus": obj(code=S_), "Order": obj(status=en("open", "closed"))}, {}),
            "enum-vs-inline-model": ({"OrderStatus": en("x", "y"), "Order": obj(status=obj(code=S_))}, {}),
            "model-vs-inline-model": ({"OrderStatus": obj(code=S_), "Order": obj(status=obj(other={"type": "integer"}))}, {}),
            "enum-vs-inline-enum": ({"OrderStatus": en("x", "y"), "Order": obj(status=en("open", "closed"))}, {}),
            "model-vs-parameter-enum": ({"ListThingsMode": obj(code=S_)}, {"/things": {"get": {"operationId": "listThings", "parameters": [{"name": "mode", "in": "query", "schema": en("fast", "slow")}], "responses": ok}}}),
            "model-vs-titled-enum": ({"Shared": obj(code=S_), "Holder": obj(kind=dict(en("k1", "k2"), title="Shared"))}, {}),
            "model-vs-response-model": ({"GetThingResponse200": obj(code=S_)}, {"/thing": {"get": {"operationId": "getThing", "responses": {"200": {"description": "d", "content": {"application/json": {"schema": obj(inline={"type": "integer"})}}}}}}}),
        }
        for label, (schemas, paths) in kinds.items():
            for order in ("as-written", "reversed"):
                sch = schemas if order == "as-written" else dict(reversed(list(schemas.items())))
                doc = gen.mkdoc(schemas=sch, paths=paths)
                out = d / f"k{abs(hash((label, order))) % 100000}"
                r = gen.generate(doc, out)
                snap = gen.snapshot(out, content=True)
                defs = [p for p, b in snap.items() if p.startswith("models/") and p.endswith(".py") and not p.endswith("__init__.py") and isinstance(b, bytes) and b"\nclass " in b]
                want = len(schemas) + 1          # every component and the one inline / parameter / response class
                rep.count(1, ("kindcol", label, order))
                if len(defs) < want and not r["diags"] and not r["exc"]:
                    rep.violate(f"C07/two-into-one/class-kinds/{label}", f"{label} ({order}): {want} classes are described, {len(defs)} modules define one ({sorted(defs)}) and nothing is reported",
                                doc=doc, modules=defs)
        # a single-reference wrapper that ALSO declares something of its own (properties, required, additionalProperties): not a pure alias
        for k, (label, extra) in enumerate([("properties", {"properties": {"own": {"type": "string"}}}), ("required", {"required": ["b"]}),
                                            ("typed-additional-properties", {"additionalProperties": {"type": "integer"}})]):
            doc = gen.mkdoc(schemas={"Base": {"type": "object", "properties": {"a": {"type": "string"}, "b": {"type": "string"}}},
                                     "W": dict({"allOf": [{"$ref": "#/components/schemas/Base"}]}, **extra),
                                     "User": {"type": "object", "properties": {"w": {"$ref": "#/components/schemas/W"}}}})
            r = gen.generate(doc, d / f"w{k}")
            snap = gen.snapshot(d / f"w{k}", content=True)
            rep.count(1, ("wrapper-with-own", label))
            wmod = snap.get("models/w.py")
            kept = wmod is not None and {"properties": b"own", "required": b"b: str\n", "typed-additional-properties": b"dict[str, int]"}[label] in wmod
            if not kept and not any("W" in (x["header"] + x["detail"]) for x in r["diags"]):
                rep.violate(f"C07/wrapper-own-keywords-dropped/{label}", f"a schema that wraps one reference and declares its own {label} is treated as a pure alias: its {label} are dropped, no diagnostic",
                            doc=doc)
        # two component enums with the same derived class name and equal values are folded by design
        doc = gen.mkdoc(schemas={"my_enum": {"type": "string", "enum": ["a", "b"]}, "MyEnum": {"type": "string", "enum": ["a", "b"]}})
        r = gen.generate(doc, d / "e")
        snap = gen.snapshot(d / "e")
        mods = [p for p in snap if p.startswith("models/") and p.endswith(".py") and not p.endswith("__init__.py")]
        if len(mods) < 2 and not r["diags"]:
            rep.violate("C07/two-into-one/equal-enums-folded", "two component enums with one derived class name and equal values are folded into one class silently",
                        doc=doc, modules=mods)
    finally:
        rmtree(d)


def _resolve(doc, node):
    seen = 0
    while isinstance(node, dict) and isinstance(node.get("$ref"), str) and node["$ref"].startswith("#/") and seen < 8:
        cur = doc
        for part in node["$ref"][2:].split("/"):
            cur = cur.get(part) if isinstance(cur, dict) else None
        node, seen = cur, seen + 1
    return node if isinstance(node, dict) else {}


def cli_reporting(rep, d) -> None:
    """What the COMMAND prints: every diagnostic the generator produced is printed, whatever else was reported next to it - warnings next to an
    error-level diagnostic (a failing post hook) included."""
    from .. import zoo
    doc = zoo.zoo_warn()
    src = gen.dump(doc, d / "cli-zoo-warn.json")
    reference = gen.generate(doc, d / "cli-ref")                      # the diagnostics themselves (in-process, no hook)
    if reference["exc"] or reference["rejected"] or not reference["diags"]:
        return
    heads = sorted({x["header"] for x in reference["diags"] if x["header"]})
    for hook, label in ((["true"], "hook-ok"), (["false"], "hook-fails"), (["no-such-command-opcv"], "hook-missing")):
        cfgp = d / f"cli-{label}.json"
        cfgp.write_text(json.dumps({"post_hooks": hook}))
        code, output, exc = gen.cli_inproc(["generate", "--path", str(src), "--meta", "none", "--output-path", str(d / f"cli-out-{label}"), "--config", str(cfgp)], d)
        rep.count(1, ("cli-reporting", label))
        if exc:
            rep.violate(f"C07/cli-reporting/{label}/crash", exc.strip().splitlines()[-1][:200])
            continue
        flat = " ".join(output.split())
        lost = [h for h in heads if " ".join(h.split()) not in flat]
        if lost:
            rep.violate(f"C07/cli-reporting/{label}/diagnostics-not-printed", f"{len(lost)} of {len(heads)} diagnostics are not printed by the command ({label}), e.g. {lost[0][:120]!r}", lost=lost[:10])


def generic_census(rep, name: str, doc: dict, d) -> None:
    """Census on an ARBITRARY document: every component schema that describes an object or an enumeration, every operation, every
    documented status, every request media type and every parameter is either visible in the generated tree or named in a diagnostic."""
    import re as _re

    from openapi_python_client import utils
    out = d / ("census-" + "".join(ch if ch.isalnum() else "_" for ch in name))
    g = gen.generate(doc, out)
    if g["exc"] or g["rejected"]:
        rep.violate(f"C07/census/{name}/not-generated", f"{name}: {(g['exc'] or str(g['diags'][:1]))[-200:]}")
        return
    texts = "\n".join(x["header"] + "\n" + x["detail"] for x in g["diags"])
    tree = {k: v.decode(errors="replace") for k, v in gen.snapshot(out, content=True).items() if k.endswith(".py") and isinstance(v, bytes)}
    models = "\n".join(v for k, v in tree.items() if k.startswith("models/"))
    for n, sch in (doc.get("components", {}).get("schemas") or {}).items():
        if not isinstance(sch, dict):
            continue
        is_enum = isinstance(sch.get("enum"), list) and any(v is not None for v in sch["enum"])
        is_model = (sch.get("type") == "object" or "properties" in sch or (isinstance(sch.get("allOf"), list) and len(sch["allOf"]) > 1)) and not sch.get("oneOf") and not sch.get("anyOf")
        if not (is_enum or is_model):
            continue
        cls = str(utils.ClassName(sch.get("title") or n, ""))         # a component's class is named after its title when it has one
        rep.count(1, ("census-schema", name, n))
        if not _re.search(rf"^(class {cls}\b|{cls} = Literal)", models, _re.M) and n not in texts:
            rep.violate(f"C07/census/{name}/schema-unaccounted/{n}", f"{name}: component schema {n} has neither a class {cls} nor a diagnostic naming it")
    api = {k: v for k, v in tree.items() if k.startswith("api/") and not k.endswith("__init__.py")}
    for path, item in (doc.get("paths") or {}).items():
        if not isinstance(item, dict):
            continue
        for method, op in item.items():
            if method not in ("get", "put", "post", "delete", "options", "head", "patch", "trace") or not isinstance(op, dict):
                continue
            pat = _re.compile(r'"url": "' + _re.sub(r"\\\{[^}]*\\\}", r"\\{[^}]*\\}", _re.escape(path)) + r'"')
            mods = [v for v in api.values() if pat.search(v) and f'"method": "{method}"' in v]
            label = f"{method.upper()} {path}"
            rep.count(1, ("census-op", name, label))
            if not mods:
                if label not in texts:
                    rep.violate(f"C07/census/{name}/operation-unaccounted/{label}", f"{name}: {label} has neither an endpoint module nor a diagnostic naming it")
                continue
            mod = mods[0]
            named = label in texts
            for status in (op.get("responses") or {}):
                ok = (str(status).isdigit() and f"response.status_code == {int(status)}" in mod) or (named and f"status code {status}" in texts) or (named and str(status) in texts)
                if not ok:
                    rep.violate(f"C07/census/{name}/status-unaccounted/{label}/{status}", f"{name}: {label}: documented status {status} has no branch and is not named in a warning")
            body = _resolve(doc, op.get("requestBody") or {})
            for media in (body.get("content") or {}):
                mt = media.split(";")[0].strip()
                ok = media in mod or (mt == "multipart/form-data" and '_kwargs["files"]' in mod) or media in texts
                if not ok:
                    rep.violate(f"C07/census/{name}/media-type-unaccounted/{label}/{mt}", f"{name}: {label}: request media type {media} is neither sent by a body variant nor named in a warning")
            params = [_resolve(doc, p) for p in (item.get("parameters") or []) + (op.get("parameters") or [])]
            for prm in params:
                pn, loc = prm.get("name"), prm.get("in")
                if not isinstance(pn, str) or loc not in ("query", "header", "cookie", "path"):
                    continue
                py = str(utils.PythonIdentifier(pn, "field_"))
                ok = _re.search(rf"\b{_re.escape(py)}\w*\b", mod) or f'"{pn}"' in mod or (named and pn in texts)      # a model-typed query parameter is exploded: only its python name shows
                if not ok:
                    rep.violate(f"C07/census/{name}/parameter-unaccounted/{label}/{loc}:{pn}", f"{name}: {label}: {loc} parameter {pn} is neither sent nor named in a warning")


def run(rep) -> None:
    quick = rep.tier == "quick"
    rnd = random.Random(seed() * 1013 + 7)
    d = scratch("c07-")
    try:
        cases = pipe.run_universe(rep, 3, d)
        schema_census(rep, cases)
        rs = ops.enumerate_ops(1 if quick else 2, 2, d)
        ocases = []
        for r in rs:
            rep.tlc(r)
            if r.violated:
                rep.notes.append(f"TLC(Ops): {sorted(set(r.violated))}: {r.counterexample[:400]}")
            ocases += r.printed
        if len(ocases) < 1000:
            raise RuntimeError("ops universe too small")
        if not quick and len(ocases) > 400000:
            ocases = rnd.sample(ocases, 400000)
        real = ops.replay_many([c["op"] for c in ocases])
        ops_census(rep, ocases, real)
        strata: dict = {}
        for c in cases:
            strata.setdefault(pipe.sig(c["doc"]), []).append(c)
        sdocs = [rnd.choice(v) for _, v in sorted(strata.items())][: (120 if quick else 1200)]
        # rendering sample: every response combination, every body kind, every parameter combination at least once on a
        # generated operation (one factor at a time), then random fill
        def pick(keyfn):
            seen: dict = {}
            pool = list(ocases)
            rnd.shuffle(pool)
            for c in pool:
                if c["result"] == "ok":
                    seen.setdefault(keyfn(c), c)
            return [seen[k] for k in sorted(seen)]
        sops = pick(lambda c: tuple(r["key"] for r in c["op"]["rs"]))
        sops += pick(lambda c: c["op"]["body"])
        sops += pick(lambda c: (tuple(p["how"] + p["loc"] for p in c["op"]["ps"]), tuple(p["how"] for p in c["op"]["pips"])))
        sops += rnd.sample(ocases, 40 if quick else 1500)
        rendered_census(rep, sdocs, sops, d)
        collisions(rep)
        from .. import zoo
        from . import C05 as c05
        from . import C12 as c12
        gdocs = {"zoo": zoo.zoo_clean(), "zoo-warn": zoo.zoo_warn(), "maximal": c05.maximal_document(), **{k: v for k, v in c12.rich_documents().items() if k not in ("zoo", "zoo-warn")}}
        for gname, gdoc in gdocs.items():
            if quick and gname.startswith(("baseline_openapi_3.1", "literal_enums")):
                continue
            generic_census(rep, gname, gdoc, d)
        rep.extra["generic_census_documents"] = sorted(gdocs)
        cli_reporting(rep, d)
        docs = [(pipe.concretize(c["doc"]), c["doc"]) for c in rnd.sample(cases, 400 if quick else 4000)]
        docs += [(pipe.concretize(a), a) for a in pipe.random_adocs(rnd, 300 if quick else 3000)]
        pipe.trace_batch(rep, docs, d, "C07", _law_key)
        rep.extra["documents"] = len(cases)
        rep.extra["operations"] = len(ocases)
        rep.sample({"op": ocases[len(ocases) // 2]["op"], "model_result": ocases[len(ocases) // 2]["result"]})
        rep.sample({"adoc": cases[len(cases) // 2]["doc"]})
    finally:
        rmtree(d)
    rep.rule = ("all 3-schema documents of Pipeline.tla's universe and all operations of Ops.tla's universe (parameters x path-item "
                "parameters x 14 body kinds x response sets) replayed through the real parser; census on GeneratorData+diagnostics "
                "for all, on the rendered tree for a stratified sample; non-trivial = something is broken or warned")
    rep.exhaustive = True
    rep.assumptions += ["a diagnostic 'identifies' an item if its header/detail/printed data contains the item's reference path, "
                        "METHOD path, status key or media type",
                        "component schemas that are neither objects nor enumerations need no class"]
