"""C08 - a bad piece of the document never damages unrelated output.

Spec: Pipeline.tla (operational fixpoints + removal cascade; declarative Affected = lfp of Bad; laws Containment,
ImportsClosed, NoFalseAlarm).  Binding A: every TLC-enumerated document (all fault combinations over 3 schemas) is replayed
through the real parser, faulty vs repaired; a stratified sample is rendered and compared byte-wise and imported.
Binding B: hook traces of the real pipeline (TLC documents + larger random ones) validated by PipelineTrace.tla.
"""
from __future__ import annotations

import random

from .. import gen, pipe, treegen
from ..common import rmtree, scratch, seed


def _law_key(why: str, adoc):
    s = pipe.sig(adoc) if adoc else "opaque"
    if "closure" in why or "survived" in why or "outside the cascade" in why or "lost" in why:
        return f"C08/trace/{why.split(' ')[0]}-{'-'.join(why.split(' ')[1:4])}/{s}"
    if "affected class was generated" in why or "differ from Items minus Affected" in why:
        return f"C08/trace/containment/{s}"
    if "did not reach" in why:
        return f"C08/trace/pipeline-aborted/{s}"
    return f"C08/trace/protocol/{why[:40]}"


def parser_isolation(rep, cases) -> list[dict]:
    faulty = []
    for c in cases:
        adoc = c["doc"]
        names = [s["name"] for s in adoc]
        kinds = {s["name"]: s["k"] for s in adoc}
        doc = pipe.concretize(adoc)
        data, exc = gen.parse(doc)
        rep.count(1, tuple((s["k"], s["t"]) for s in adoc) if c["bad"] else None)
        if exc is not None or data is None:
            rep.violate(f"C08/crash/{pipe.sig(adoc)}", "the generator raised on a partly invalid document: everything is lost",
                        adoc=adoc, doc=doc, exc=exc)
            continue
        pr = pipe.project(data, names, adoc)
        pipe.compare_model(rep, c, pr)
        if not c["bad"]:
            continue
        faulty.append(c)
        aff = set(c["aff"])
        rdoc = pipe.repaired(adoc, c["bad"])
        rdata, rexc = gen.parse(rdoc)
        if rexc is not None:
            continue
        rpr = pipe.project(rdata, names, None)
        for n in names:
            if n in aff:
                if n in pr["gen"]:
                    rep.violate(f"C08/affected-generated/{kinds[n]}", f"schema {n} depends on a bad piece but was generated",
                                adoc=adoc, doc=doc, observed=pr)
                if n not in pr["diagnosed"]:
                    rep.violate(f"C08/affected-undiagnosed/{kinds[n]}", f"schema {n} was omitted without a diagnostic naming it",
                                adoc=adoc, doc=doc, observed=pr)
            elif n in rpr["gen"] and n not in pr["gen"]:
                rep.violate(f"C08/unaffected-omitted/lost={kinds[n]}/bad={'+'.join(sorted(kinds[b] for b in c['bad']))}",
                            f"schema {n} is unrelated to the bad piece(s) {c['bad']} but is not generated",
                            adoc=adoc, doc=doc, repaired=rdoc, observed=pr, observed_repaired=rpr)
    return faulty


def rendered_isolation(rep, sample, d) -> None:
    jobs, meta = [], []
    for i, c in enumerate(sample):
        adoc = c["doc"]
        f, r = d / f"f{i:05d}", d / f"r{i:05d}"
        jobs.append((pipe.concretize(adoc), str(f), {}))
        jobs.append((pipe.repaired(adoc, c["bad"]), str(r), {}))
        meta.append((c, f, r))
    res = treegen.generate_many(jobs)
    pkgs = []
    for i, (c, f, r) in enumerate(meta):
        fres, rres = res[2 * i], res[2 * i + 1]
        adoc = c["doc"]
        if fres["exc"]:
            rep.violate(f"C08/crash-render/{pipe.sig(adoc)}", "rendering a partly invalid document raised", adoc=adoc,
                        exc=fres["exc"])
            continue
        if rres["exc"] or rres["rejected"] or fres["rejected"]:
            continue
        fs, rs = gen.snapshot(f, content=True), gen.snapshot(r, content=True)
        aff = set(c["aff"])
        for s in adoc:
            n = s["name"]
            path = f"models/{n.lower()}.py"
            if n in aff:
                if path in fs:
                    rep.violate(f"C08/affected-module-written/{s['k']}", f"{path} written although {n} is affected", adoc=adoc)
            elif path in rs:
                if path not in fs:
                    rep.violate(f"C08/unaffected-module-missing/lost={s['k']}", f"{path} missing in the faulty tree", adoc=adoc)
                elif fs[path] != rs[path]:
                    rep.violate(f"C08/unaffected-module-differs/{s['k']}", f"{path} differs between faulty and repaired tree",
                                adoc=adoc, faulty=fs[path].decode(), repaired=rs[path].decode())
        for fixed in ("client.py", "errors.py", "types.py", "__init__.py", "api/__init__.py"):
            if fs.get(fixed) != rs.get(fixed):
                rep.violate(f"C08/fixed-module-differs/{fixed}", f"{fixed} differs between faulty and repaired tree", adoc=adoc)
        pkgs.append((str(d), f.name))
        for prob in treegen.relative_import_check(f)[:3]:
            rep.violate(f"C08/remaining-module-refers-to-removed/{pipe.sig(adoc)}", f"faulty tree: {prob}", adoc=adoc, problem=prob)
        rep.count(1)
    bad = treegen.import_check(pkgs)
    by = {f.name: c for c, f, r in meta}
    for pkg, errs in bad.items():
        mod, err = sorted(errs.items())[0]
        rep.violate(f"C08/remaining-module-does-not-import/{err.split(':')[0]}",
                    f"module {mod} of the faulty tree fails to import: {err}", adoc=by[pkg]["doc"], errors=errs)
    rep.extra["rendered_pairs"] = len(meta)
    rep.extra["imported_packages"] = len(pkgs)


def sibling_operations(rep, d) -> None:
    """A failing operation next to valid ones - on the same path item (every method order) and on other paths: the valid operations and
    the classes they declare inline are generated exactly as in the document without the failing operation."""
    from .. import treegen
    S = {"type": "string"}
    ok200 = {"200": {"description": "d", "content": {"application/json": {"schema": {"type": "object", "properties": {"r": S, "k": {"type": "string", "enum": ["a", "b"]}}}}}}}

    def valid(opid):
        return {"operationId": opid, "parameters": [{"name": "mode", "in": "query", "schema": {"type": "string", "enum": ["x", "y"]}}],
                "requestBody": {"content": {"application/json": {"schema": {"type": "object", "properties": {"b": S}}}}}, "responses": ok200}
    failing = {
        "dupparam": {"operationId": "bad", "parameters": [{"name": "p", "in": "query", "schema": S}, {"name": "p", "in": "query", "schema": S}], "responses": ok200},
        "optionalpath": {"operationId": "bad", "parameters": [{"name": "id", "in": "path", "required": False, "schema": S}], "responses": ok200},
        "badparamschema": {"operationId": "bad", "parameters": [{"name": "p", "in": "query", "schema": {"type": "array"}}], "responses": ok200},
        "nobody": {"operationId": "bad", "requestBody": {"content": {"application/json": {"schema": {"type": "array"}}}}, "responses": ok200},
        "danglingparam": {"operationId": "bad", "parameters": [{"$ref": "#/components/parameters/Nope"}], "responses": ok200},
    }
    jobs, meta = [], []
    for why, bad in failing.items():
        for layout in ("valid-then-bad", "bad-then-valid", "valid-bad-valid", "other-path"):
            if layout == "valid-then-bad":
                item = {"get": valid("first"), "post": bad}
            elif layout == "bad-then-valid":
                item = {"get": bad, "post": valid("first")}
            elif layout == "valid-bad-valid":
                item = {"get": valid("first"), "put": bad, "delete": valid("second")}
            else:
                item = {"get": valid("first")}
            path = "/things/{id}" if why == "optionalpath" else "/things"
            paths = {path: item}
            if why == "optionalpath":
                for o in item.values():
                    if o is not bad:
                        o.setdefault("parameters", []).append({"name": "id", "in": "path", "required": True, "schema": S})
            if layout == "other-path":
                paths["/other" + ("/{id}" if why == "optionalpath" else "")] = {"post": bad}
            good_paths = {pth: {m: o for m, o in it.items() if o is not bad} for pth, it in paths.items()}
            good_paths = {pth: it for pth, it in good_paths.items() if it}
            a, b = d / f"sib{len(jobs):03d}", d / f"sib{len(jobs) + 1:03d}"
            jobs += [(gen.mkdoc(paths=paths), str(a), {}), (gen.mkdoc(paths=good_paths), str(b), {})]
            meta.append((why, layout, a, b))
    res = treegen.generate_many(jobs)
    for i, (why, layout, a, b) in enumerate(meta):
        g1, g2 = res[2 * i], res[2 * i + 1]
        rep.count(1, ("sibling-ops", why, layout))
        key = f"{why}/{layout}"
        if g1["exc"] or g1["rejected"]:
            rep.violate(f"C08/sibling-operations/{key}/everything-lost", f"a failing operation ({why}) makes the whole document fail: {(g1['exc'] or str(g1['diags'][:1]))[-200:]}")
            continue
        s1, s2 = gen.snapshot(a), gen.snapshot(b)
        lost = sorted(k for k in s2 if k not in s1)
        changed = sorted(k for k in s2 if k in s1 and s1[k] != s2[k] and k.endswith(".py") and not k.endswith("__init__.py"))
        if lost or changed:
            rep.violate(f"C08/sibling-operations/{key}/valid-operations-damaged", f"with the failing operation ({why}, {layout}) present, the valid operations lose {lost[:4]} / differ in {changed[:4]}",
                        lost=lost, changed=changed)
        if not any("bad" in (x["header"] + x["detail"]).lower() or "POST" in x["header"] or "GET" in x["header"] or "PUT" in x["header"] for x in g1["diags"]):
            rep.violate(f"C08/sibling-operations/{key}/failing-operation-undiagnosed", f"the failing operation ({why}) is not named in any diagnostic: {g1['diags'][:2]}")


def isolation_pairs(rep, d) -> None:
    """Hand-written (faulty, repaired) document pairs around things SHARED between a removed model and survivors: component enums,
    equal inline enums, parameters.  Every file of the repaired tree that does not concern an affected schema must be in the faulty tree,
    byte-identical, and the faulty package must import."""
    from .. import treegen
    S = {"type": "string"}
    R = lambda n: {"$ref": f"#/components/schemas/{n}"}
    ok = lambda sch: {"200": {"description": "d", "content": {"application/json": {"schema": sch}}}}
    bad, good = {"type": "array"}, {"type": "array", "items": S}
    enum = {"type": "string", "enum": ["eur", "usd"]}

    def shared_component_enum(b):
        return gen.mkdoc({"X": {"type": "object", "properties": {"b": b}}, "D": {"type": "object", "properties": {"x": R("X"), "cur": R("Currency"), "l": {"type": "array", "items": R("Currency")}}},
                          "Currency": enum, "Keeper": {"type": "object", "properties": {"cur": R("Currency")}}},
                         {"/k": {"get": {"operationId": "k", "parameters": [{"name": "cur", "in": "query", "schema": R("Currency")}], "responses": ok(R("Keeper"))}}})

    def equal_inline_enum(b):
        return gen.mkdoc({"Pet": {"type": "object", "properties": {"status": dict(enum), "b": b}}, "PetStatus": dict(enum), "Order": {"type": "object", "properties": {"s": R("PetStatus")}}},
                         {"/o": {"get": {"operationId": "o", "parameters": [{"name": "s", "in": "query", "schema": R("PetStatus")}], "responses": ok(R("Order"))}}})

    def chain_with_survivor_siblings(b):
        return gen.mkdoc({"X": {"type": "object", "properties": {"b": b}}, "Mid": {"allOf": [R("X"), {"type": "object", "properties": {"m": R("Leaf")}}]}, "Leaf": {"type": "object", "properties": {"v": S, "e": dict(enum)}},
                          "Other": {"type": "object", "properties": {"leaf": R("Leaf"), "leaves": {"type": "object", "additionalProperties": R("Leaf")}}}},
                         {"/x": {"get": {"operationId": "x", "responses": ok(R("Other"))}}})
    def overridden_path_parameter(b):
        # the path item declares a parameter whose schema is bad; one operation redeclares it (same name and location) with a good schema and is untouched
        # by the fault, the other inherits it
        return gen.mkdoc({}, {"/things/{id}": {"parameters": [{"name": "q", "in": "query", "schema": b}, {"name": "id", "in": "path", "required": True, "schema": S},
                                                              {"name": "X-H", "in": "header", "schema": b}],
                                               "get": {"operationId": "overrides", "parameters": [{"name": "q", "in": "query", "schema": S}, {"name": "X-H", "in": "header", "schema": {"type": "integer"}}],
                                                       "responses": ok(S)},
                                               "post": {"operationId": "inherits", "responses": ok(S)}}})
    def tightening_child_fails(b):
        # a child that tightens its parent (`required` names an inherited property, at the top level or in an inline member) and is itself the
        # bad piece; b = None: the document WITHOUT the child.  The parent is used on its own and must not notice the child at all.
        sch = {"Base": {"type": "object", "required": ["id"], "properties": {"id": {"type": "integer"}, "note": S, "tags": {"type": "array", "items": S}}},
               "Keeper": {"type": "object", "properties": {"base": R("Base")}}}
        if b is not None:
            sch["Tight"] = {"allOf": [R("Base"), {"type": "object", "required": ["note"], "properties": {"b": b}}]}
            sch["TightTop"] = {"required": ["tags"], "allOf": [R("Base"), {"type": "object", "properties": {"b": b}}]}
        return gen.mkdoc(sch, {"/b": {"get": {"operationId": "getBase", "responses": ok(R("Base"))}}, "/k": {"get": {"operationId": "getKeeper", "responses": ok(R("Keeper"))}}})
    fams = {"tightening-child-fails": (tightening_child_fails, {"Tight", "TightTop"}), "overridden-path-parameter": (overridden_path_parameter, {"inherits"}), "shared-component-enum": (shared_component_enum, {"X", "D"}), "equal-inline-enum": (equal_inline_enum, {"Pet"}), "chain-with-siblings": (chain_with_survivor_siblings, {"X", "Mid"})}
    jobs = []
    for name, (mk, aff) in fams.items():
        jobs += [(mk(bad), str(d / f"iso-{name}-faulty"), {}), (mk(good if name != "tightening-child-fails" else None), str(d / f"iso-{name}-repaired"), {})]
    res = treegen.generate_many(jobs)
    from openapi_python_client import utils
    for i, (name, (mk, aff)) in enumerate(fams.items()):
        g1 = res[2 * i]
        rep.count(1, ("isolation-pair", name))
        if g1["exc"] or g1["rejected"]:
            rep.violate(f"C08/isolation/{name}/everything-lost", f"{name}: {(g1['exc'] or str(g1['diags'][:1]))[-200:]}")
            continue
        s1, s2 = gen.snapshot(d / f"iso-{name}-faulty"), gen.snapshot(d / f"iso-{name}-repaired")
        affmods = {str(utils.PythonIdentifier(utils.ClassName(a, ""), "")) for a in aff}
        unrelated = [k for k in s2 if k.endswith(".py") and not k.endswith("__init__.py") and not any(k.endswith(f"/{m}.py") or k.startswith(f"models/{m}_") for m in affmods)]
        lost = sorted(k for k in unrelated if k not in s1)
        changed = sorted(k for k in unrelated if k in s1 and s1[k] != s2[k])
        if lost or changed:
            rep.violate(f"C08/isolation/{name}/unrelated-output-damaged", f"{name}: with the bad piece present, unrelated files are lost {lost[:4]} / differ {changed[:4]}", lost=lost, changed=changed)
        bad_imports = treegen.import_check([(str(d), f"iso-{name}-faulty".replace("-", "_"))]) if False else {}
        for prob in treegen.relative_import_check(d / f"iso-{name}-faulty")[:3]:
            rep.violate(f"C08/isolation/{name}/dangling-import", f"{name}: {prob}")


def run(rep) -> None:
    quick = rep.tier == "quick"
    rnd = random.Random(seed() * 1009 + 8)
    d = scratch("c08-")
    try:
        cases = pipe.run_universe(rep, 3, d)
        faulty = parser_isolation(rep, cases)
        rep.extra["documents"] = len(cases)
        rep.extra["faulty_documents"] = len(faulty)
        # stratified sample for rendering: one per (set of kinds, |aff|) class, then random fill
        strata: dict = {}
        for c in faulty:
            strata.setdefault((pipe.sig(c["doc"]), len(c["aff"])), []).append(c)
        keys = sorted(strata)
        rnd.shuffle(keys)
        budget = 160 if quick else 2500
        sample = [rnd.choice(strata[k]) for k in keys[:budget]]
        rendered_isolation(rep, sample, d)
        # the same abstract documents with "a reference through an array" written differently (tuple arrays, nested arrays, typed additional
        # properties): the model's predictions and the containment oracle are the same
        witharr = [c for c in cases if any(s["k"] in ("objarr", "arr") for s in c["doc"])]
        for variant in ("tuple", "nested", "addl"):
            pipe.VARIANT = variant
            try:
                sub = rnd.sample(witharr, min(len(witharr), 1500 if quick else 20000))
                n0 = len(rep.violations)
                parser_isolation(rep, sub)
                for v in rep.violations[n0:]:
                    v.key = v.key.replace("C08/", f"C08/{variant}-arrays/", 1)
            finally:
                pipe.VARIANT = None
        rep.extra["array_variants"] = ["tuple", "nested", "addl"]
        sibling_operations(rep, d)
        isolation_pairs(rep, d)
        docs = [(pipe.concretize(c["doc"]), c["doc"]) for c in rnd.sample(cases, 800 if quick else 6000)]
        docs += [(pipe.concretize(a), a) for a in pipe.random_adocs(rnd, 700 if quick else 6000)]
        pipe.trace_batch(rep, docs, d, "C08", _law_key)
        rep.sample({"adoc": faulty[len(faulty) // 3]["doc"], "bad": faulty[len(faulty) // 3]["bad"],
                    "affected": faulty[len(faulty) // 3]["aff"]})
    finally:
        rmtree(d)
    rep.rule = ("TLC enumerates every 3-schema document over 15 shape kinds x targets (all fault combinations, dependants at distance "
                "1-2, cycles); each is replayed faulty vs repaired through the real parser; a stratified sample is rendered, "
                "compared byte-wise and imported; non-trivial = document with at least one bad piece")
    rep.exhaustive = True
    rep.assumptions += ["'document without the bad piece' = every bad schema replaced by its good twin / a plain object",
                        "Affected is the least fixpoint of Bad under the document's own $ref graph (Pipeline.tla, declarative layer)"]
