"""C09 - derived names are valid identifiers and never merge silently.

Spec: Names.tla (operational transcription of utils.py + scope machines; laws N1-N3) via NamesMC.tla / NamesTrace.tla.
Binding A: every TLC-enumerated name / name set is replayed through the real functions / the real parser.
Binding B: outputs of the real functions on longer random names are validated by TLC against the transcription.
Oracle (model independent): str.isidentifier and not keyword; NFKC-injective per scope or a diagnostic.
"""
from __future__ import annotations

import json
import random
import re

from .. import gen, names, tlc
from ..common import rmtree, scratch, seed
from ..names import conc, norm, valid_ident, why_invalid

S14 = ["n", "o", "t", "e", "N", "T", "1", "_", "-", " ", ".", "$", "LE", "SQ2"]
S9 = ["n", "N", "t", "1", "_", "-", " ", "LE", "SQ2"]
S7 = ["n", "N", "1", "_", "-", "LE", "FWA"]
SPATH = ["n", "N", "i", "d", "_", "-"]
SBIG = S14 + ["UE", "FWA", "AD", "i", "d", "/"]
PREFIXES = ["field_", "attr_", "x", "_p"]


def _utils():
    gen.ensure_repo_on_path()
    from openapi_python_client import utils
    return utils


# ------------------------------------------------------------------ single names
def _real_single(u, s: str, prefix: str = "field_") -> dict:
    cn = u.ClassName(s, prefix)
    return {"sn": u.snake_case(s), "pa": u.pascal_case(s), "ke": u.kebab_case(s),
            "py": str(u.PythonIdentifier(s, prefix)), "pyr": str(u.PythonIdentifier(s, prefix, skip_snake_case=True)),
            "tag": str(u.PythonIdentifier(s, "tag")), "cn": str(cn), "mod": str(u.PythonIdentifier(cn, prefix))}


def _judge_single(rep, s: str, real: dict, where: str) -> None:
    for fn in ("py", "tag", "cn", "mod"):
        if not valid_ident(real[fn]):
            rep.violate(f"C09/ident/{why_invalid(real[fn])}",
                        f"derived name {real[fn]!r} ({fn}) from {s!r} is not a valid non-keyword identifier",
                        input=s, derivation=fn, observed=real, where=where)


def single(rep, maxlen: int, sigma: list[str], d) -> None:
    u = _utils()
    cfg = tlc.write_cfg(d / "single.cfg", {"Sigma": set(sigma), "MaxLen": maxlen, "Mode": "single", "SetSize": 1,
                                           "EmitJson": True}, ["N1Single", "EmitSingle"])
    res = tlc.run_tlc("NamesMC.tla", cfg, workers=1, timeout=1500)
    rep.tlc(res)
    if res.violated:
        # the design law failed on the model outside the known classes: concretise TLC's counterexample below
        rep.notes.append(f"TLC: {res.violated} violated in single mode: {res.counterexample[:400]}")
    model_bad = 0
    for r in res.printed:
        s = conc(r["i"])
        real = _real_single(u, s)
        rep.count(1, ("single", s) if real["py"] != s else None)
        pred = {k: conc(r[k]) for k in ("sn", "pa", "ke", "py", "pyr", "tag", "cn", "mod")}
        if pred != real:
            rep.drifted(mode="single", input=s, model=pred, real=real)
        if not r["ok"]:
            model_bad += 1
        _judge_single(rep, s, real, "tlc-single")
    rep.extra["single_cases"] = len(res.printed)
    rep.extra["single_model_law_failures"] = model_bad
    if res.printed:
        rep.sample({"mode": "single", "input": conc(res.printed[len(res.printed) // 2]["i"]),
                    "real": _real_single(u, conc(res.printed[len(res.printed) // 2]["i"]))})
    if len(res.printed) < 100:
        raise tlc.TlcFailure("single mode emitted too few cases")


# ------------------------------------------------------------------ scopes through the real parser
def _parse(doc):
    data, exc = gen.parse(doc)
    return data, exc


def _is_err(data) -> bool:
    from openapi_python_client.parser.errors import GeneratorError
    return isinstance(data, GeneratorError)


def _scope_verdict(rep, scope: str, inp, pynames: list[str] | None, diagnosed: bool, exc, replay: dict) -> None:
    if exc is not None:
        rep.violate(f"C09/{scope}/crash:{exc.strip().splitlines()[-1].split(':')[0]}",
                    f"{scope}: generator raised instead of disambiguating or diagnosing", input=inp, exc=exc, **replay)
        return
    if pynames is None:
        if not diagnosed:
            rep.violate(f"C09/{scope}/dropped-without-diagnostic", f"{scope}: item missing and no diagnostic",
                        input=inp, **replay)
        return
    for n in pynames:
        if not valid_ident(n):
            rep.violate(f"C09/{scope}/{why_invalid(n)}", f"{scope}: derived name {n!r} is not a valid identifier",
                        input=inp, names=pynames, **replay)
            return
    if len({norm(n) for n in pynames}) != len(pynames):
        if diagnosed:
            return
        kind = "collision" if len(set(pynames)) != len(pynames) else "nfkc-collision"
        rep.violate(f"C09/{scope}/{kind}", f"{scope}: distinct document names map to one Python name {pynames}",
                    input=inp, names=pynames, **replay)


def _attr_real(inp: list[str]):
    doc = gen.mkdoc(schemas={"M": {"type": "object", "properties": {n: {"type": "string"} for n in inp}}})
    data, exc = _parse(doc)
    if exc or _is_err(data):
        return None, bool(data is not None), exc, doc
    ms = [m for m in data.models if m.class_info.name == "M"]
    if not ms:
        return None, bool(data.errors), None, doc
    m = ms[0]
    props = {p.name: str(p.python_name) for p in (m.required_properties or []) + (m.optional_properties or [])}
    if set(props) != set(inp):
        return None, bool(data.errors), None, doc
    return [props[n] for n in inp], bool(data.errors), None, doc


def _enum_real(inp: list[str]):
    doc = gen.mkdoc(schemas={"E": {"type": "string", "enum": list(inp)}})
    data, exc = _parse(doc)
    if exc or _is_err(data):
        return None, bool(data is not None), exc, doc
    es = [e for e in data.enums if e.class_info.name == "E"]
    if not es:
        return None, bool(data.errors), None, doc
    return es[0].values, bool(data.errors), None, doc


def _param_real(inp: list[dict]):
    pathnames = [p["name"] for p in inp if p["loc"] == "path"]
    path = "/x" + "".join("/{%s}" % x for x in pathnames)
    params = [{"name": p["name"], "in": p["loc"], "required": True, "schema": {"type": "string"}} for p in inp]
    doc = gen.mkdoc(paths={path: {"get": {"operationId": "g", "parameters": params,
                                           "responses": {"200": {"description": "d"}}}}})
    data, exc = _parse(doc)
    if exc or _is_err(data):
        return None, bool(data is not None), exc, doc
    col = data.endpoint_collections_by_tag.get("default")
    if not col or not col.endpoints:
        return None, bool(col and col.parse_errors), None, doc
    e = col.endpoints[0]
    real = {(loc.value, p.name): str(p.python_name) for loc, p in e.iter_all_parameters()}
    return [real.get((p["loc"], p["name"])) for p in inp], bool(col.parse_errors), None, doc


def _class_real(inp: list[str]):
    doc = gen.mkdoc(schemas={n: {"type": "object", "properties": {"a": {"type": "string"}}} for n in inp})
    data, exc = _parse(doc)
    if exc or _is_err(data):
        return None, bool(data is not None), exc, doc
    ms = list(data.models)
    return [(str(m.class_info.name), str(m.class_info.module_name)) for m in ms], bool(data.errors), None, doc


def _ops_real(inp: list[str]):
    u = _utils()
    paths = {f"/p{i}": {"get": {"operationId": n, "responses": {"200": {"description": "d"}}}} for i, n in enumerate(inp)}
    doc = gen.mkdoc(paths=paths)
    data, exc = _parse(doc)
    if exc or _is_err(data):
        return None, bool(data is not None), exc, doc
    col = data.endpoint_collections_by_tag.get("default")
    if not col:
        return None, False, None, doc
    mods = [str(u.PythonIdentifier(e.name, "field_")) for e in col.endpoints]
    return mods, bool(col.parse_errors), None, doc


def _allof_real(par: list[str], own: str):
    doc = gen.mkdoc(schemas={
        "P": {"type": "object", "properties": {n: {"type": "string"} for n in par}},
        "C": {"allOf": [{"$ref": "#/components/schemas/P"},
                        {"type": "object", "properties": {own: {"type": "string", "format": "date"}}}]},
        # pure compositions of two parents (no member of their own), in both orders
        "Q": {"type": "object", "properties": {own: {"type": "string", "format": "date"}}},
        "C2": {"allOf": [{"$ref": "#/components/schemas/P"}, {"$ref": "#/components/schemas/Q"}]},
        "C3": {"allOf": [{"$ref": "#/components/schemas/Q"}, {"$ref": "#/components/schemas/P"}]}})
    data, exc = _parse(doc)
    if exc or _is_err(data):
        return None, bool(data is not None), exc, doc
    out = {}
    for m in data.models:
        out[str(m.class_info.name)] = {p.name: str(p.python_name)
                                       for p in (m.required_properties or []) + (m.optional_properties or [])}
    return out, bool(data.errors), None, doc


def _nested_real(p1: str, p2: str):
    inner = {"type": "object", "properties": {"y": {"type": "string"}}}
    doc = gen.mkdoc(schemas={"A": {"type": "object", "properties": {
        p1: {"type": "object", "properties": {p2: inner, "z": {"type": "integer"}}}}}})
    data, exc = _parse(doc)
    if exc or _is_err(data):
        return None, bool(data is not None), exc, doc
    return [(str(m.class_info.name), str(m.class_info.module_name)) for m in data.models], bool(data.errors), None, doc


_PRE: dict = {}


def _cfg_for(mode: str, sigma: list[str], maxlen: int, size: int, d, emit_all: bool):
    return tlc.write_cfg(d / f"{mode}-{len(sigma)}-{size}.cfg",
                         {"Sigma": set(sigma), "MaxLen": maxlen, "Mode": mode, "SetSize": size, "EmitJson": emit_all},
                         [{"attr": "EmitAttr", "enum": "EmitEnum", "enummenu": "EmitEnum", "param": "EmitParam", "class": "EmitClass",
                           "ops": "EmitOps", "allof": "EmitAllof", "nested": "EmitNested"}[mode]]
                         + {"param": ["N3Terminates", "N2Param"], "attr": ["N2Attr"], "enum": ["N2Enum"], "enummenu": ["N2Enum"],
                            "allof": ["N2Allof"]}.get(mode, []))


def prefetch(jobs, d) -> None:
    """Run the TLC part of several scope jobs concurrently (one single-worker JVM each; PrintT needs -workers 1)."""
    from concurrent.futures import ThreadPoolExecutor

    def one(job):
        mode, sigma, maxlen, size, emit_all = job
        cfg = _cfg_for(mode, sigma, maxlen, size, d, emit_all)
        return job, tlc.run_tlc("NamesMC.tla", cfg, workers=1, timeout=3000, extra=["-continue"], heap="3g")

    with ThreadPoolExecutor(max_workers=12) as ex:
        for job, res in ex.map(one, jobs):
            _PRE[(job[0], tuple(job[1]), job[2], job[3])] = res


def scope(rep, mode: str, sigma: list[str], maxlen: int, size: int, d, emit_all: bool = True) -> None:
    res = _PRE.pop((mode, tuple(sigma), maxlen, size), None)
    if res is None:
        res = tlc.run_tlc("NamesMC.tla", _cfg_for(mode, sigma, maxlen, size, d, emit_all), workers=1, timeout=3000,
                          extra=["-continue"])
    rep.tlc(res)
    if res.violated:
        # a law fails on the MODEL: concretised below against the real code (every ~Ok case is emitted)
        rep.notes.append(f"TLC: {sorted(set(res.violated))} violated in {mode} mode: {res.counterexample[:600]}")
        rep.extra.setdefault("tlc_law_violations", []).append({"mode": mode, "laws": sorted(set(res.violated))})
    nbad = 0
    for r in res.printed:
        nbad += 0 if r["ok"] else 1
        if mode == "allof":
            par, own = [conc(x) for x in r["par"]], conc(r["own"])
            rep.count(1, ("allof", json.dumps([par, own])) if own in par or r["err"] else None)
            out, diag, exc, doc = _allof_real(par, own)
            if exc is not None or out is None:
                _scope_verdict(rep, "attr-scope/allOf", [par, own], None, diag, exc, {"doc": doc})
            else:
                for cls in ("P", "C", "C2", "C3"):
                    if cls in out:
                        _scope_verdict(rep, "attr-scope/allOf", [par, own], list(out[cls].values()), False, None,
                                       {"doc": doc, "model": cls})
                    elif not diag:
                        rep.violate("C09/attr-scope/allOf/dropped-without-diagnostic", f"model {cls} missing, no diagnostic",
                                    input=[par, own], doc=doc)
                pred = None if r["err"] else dict(zip([conc(x) for x in r["names"]], [conc(x) for x in r["py"]]))
                real = out.get("C")
                if (real is None) != (pred is None) or (real is not None and real != pred):
                    rep.drifted(mode=mode, input=[par, own], model=pred, real=real)
            continue
        if mode == "nested":
            p1, p2 = conc(r["i"][0]), conc(r["i"][1])
            rep.count(1, ("nested", p1, p2) if r["dup"] else None)
            cm, diag, exc, doc = _nested_real(p1, p2)
            if exc is not None or cm is None:
                _scope_verdict(rep, "class-scope/nested", [p1, p2], None, diag, exc, {"doc": doc})
            else:
                if len(cm) < 3 and not diag:
                    rep.violate("C09/class-scope/nested/collapsed-without-diagnostic",
                                f"3 schemas (A, A.{p1!r}, A.{p1!r}.{p2!r}) produced classes {cm} and no diagnostic",
                                input=[p1, p2], doc=doc)
                _scope_verdict(rep, "class-scope/nested/class", [p1, p2], [c for c, _ in cm], False, None, {"doc": doc})
                _scope_verdict(rep, "class-scope/nested/module", [p1, p2], [m for _, m in cm], False, None, {"doc": doc})
                pred = sorted(zip([conc(x) for x in r["cls"]], [conc(x) for x in r["mod"]])) if not r["dup"] else None
                if pred is not None and sorted(cm) != pred:
                    rep.drifted(mode=mode, input=[p1, p2], model=pred, real=cm)
                if pred is None and len(cm) == 3:
                    rep.drifted(mode=mode, input=[p1, p2], model="dup", real=cm)
            continue
        if mode == "param":
            inp = [{"loc": p["loc"], "name": conc(p["name"])} for p in r["i"]]
        else:
            inp = [conc(x) for x in r["i"]]
        rep.count(1, (mode, json.dumps(inp)) if not r["ok"] or r.get("err") else None)
        if mode == "attr":
            py, diag, exc, doc = _attr_real(inp)
            _scope_verdict(rep, "attr-scope", inp, py, diag, exc, {"doc": doc})
            pred = None if r["err"] else [conc(x) for x in r["py"]]
            if (py is None) != (pred is None) or (py is not None and py != pred):
                rep.drifted(mode=mode, input=inp, model=pred, real=py)
        elif mode == "enum":
            vals, diag, exc, doc = _enum_real(inp)
            if exc is not None and "Duplicate key" in exc:
                rep.violate("C09/enum-keys/duplicate-key-raises-ValueError",
                            "colliding enum member keys are reported by an unhandled ValueError, not a diagnostic",
                            input=inp, exc=exc, doc=doc)
            elif vals is not None and len(vals) != len(inp):
                if not diag:
                    rep.violate("C09/enum-keys/sanitised-collision",
                                f"enum values {inp} silently merged into members {list(vals)}", input=inp,
                                members=dict(vals), doc=doc)
            else:
                _scope_verdict(rep, "enum-keys", inp, None if vals is None else list(vals), diag, exc, {"doc": doc})
            pred = None if r["err"] else [conc(x) for x in r["keys"]]
            realk = None if vals is None else list(vals)
            if (realk is None) != (pred is None) or (realk is not None and realk != pred):
                rep.drifted(mode=mode, input=inp, model=pred, real=realk)
        elif mode == "param":
            py, diag, exc, doc = _param_real(inp)
            _scope_verdict(rep, "param-scope", inp, py, diag, exc, {"doc": doc})
            pred = None if r["err"] else [conc(x) for x in r["py"]]
            if (py is None) != (pred is None) or (py is not None and py != pred):
                rep.drifted(mode=mode, input=inp, model=pred, real=py)
        elif mode == "class":
            cm, diag, exc, doc = _class_real(inp)
            if exc is not None or cm is None:
                _scope_verdict(rep, "class-scope", inp, None, diag, exc, {"doc": doc})
            else:
                if len(cm) < len(inp) and not diag:
                    rep.violate("C09/class-scope/dropped-without-diagnostic", "schema lost without diagnostic",
                                input=inp, doc=doc)
                _scope_verdict(rep, "class-scope/class", inp, [c for c, _ in cm], False, None, {"doc": doc})
                _scope_verdict(rep, "class-scope/module", inp, [m for _, m in cm], False, None, {"doc": doc})
            pred = [(conc(c), conc(m)) for c, m, dup in zip(r["cls"], r["mod"], r["dup"]) if not dup]
            if cm is not None and sorted(cm) != sorted(pred):
                rep.drifted(mode=mode, input=inp, model=pred, real=cm)
        elif mode == "ops":
            mods, diag, exc, doc = _ops_real(inp)
            _scope_verdict(rep, "tag-ops", inp, mods, diag, exc, {"doc": doc})
            pred = [conc(x) for x in r["mod"]]
            if mods is not None and mods != pred:
                rep.drifted(mode=mode, input=inp, model=pred, real=mods)
    rep.extra[f"{mode}_cases"] = len(res.printed)
    rep.extra[f"{mode}_model_law_failures"] = nbad
    if res.printed:
        r = res.printed[-1]
        rep.sample({"mode": mode, "case": r.get("i") or [r.get("par"), r.get("own")], "model_ok": r["ok"]})
    if len(res.printed) < 20 and not res.violated and emit_all:
        raise tlc.TlcFailure(f"{mode} mode emitted too few cases")


def enum_explicit(rep) -> None:
    """Value lists of three and more whose member names collide only through a disambiguation / positional suffix (`kb_2` next to `kb`, `KB`;
    `value_1` next to a value named by position): no value may disappear without a diagnostic."""
    lists = [["kb_2", "kb", "KB"], ["kb", "KB", "kb_1"], ["a_1", "a", "A"], ["x_2", "y", "x", "X"], ["value_1", "1st", "2nd"], ["1st", "value_0"], ["VALUE_0", "0", "x"],
             ["a", "A", "a_1", "A_1"], ["n", "N", "n_1", "n_2", "N_2"], ["b-1", "b", "B", "b_1"]]
    for inp in lists:
        vals, diag, exc, doc = _enum_real(inp)
        rep.count(1, ("enum-explicit", json.dumps(inp)))
        if exc is not None and "Duplicate key" in exc:
            rep.violate("C09/enum-keys/duplicate-key-raises-ValueError", "colliding enum member keys are reported by an unhandled ValueError, not a diagnostic", input=inp, exc=exc, doc=doc)
        elif exc is not None:
            _scope_verdict(rep, "enum-keys", inp, None, diag, exc, {"doc": doc})
        elif vals is not None and (len(vals) != len(inp) or sorted(map(str, vals.values())) != sorted(inp)) and not diag:
            rep.violate("C09/enum-keys/value-lost", f"enum values {inp} became members {dict(vals)}: a value disappeared without a diagnostic", input=inp, members=dict(vals), doc=doc)
        else:
            _scope_verdict(rep, "enum-keys", inp, None if vals is None else list(vals), diag, exc, {"doc": doc})


def reserved_parameters(rep) -> None:
    """Names.tla's ReservedParams: a parameter whose name is one the generated function uses itself (client, url, body, and the
    headers / params / cookies dictionaries) must be renamed - in every location, with and without a request body, whether or not the
    path item declares parameters too (the conflict check runs at different moments in those cases)."""
    for name in ("client", "url", "headers", "params", "cookies", "body", "Body", "HEADERS"):
        for loc in ("query", "header", "cookie", "path"):
            for has_body in (False, True):
                for pathitem in (False, True):
                    path = "/x/{%s}" % name if loc == "path" else "/x"
                    op = {"operationId": "g", "parameters": [{"name": name, "in": loc, "required": True, "schema": {"type": "string"}}], "responses": {"200": {"description": "d"}}}
                    if has_body:
                        op["requestBody"] = {"content": {"application/json": {"schema": {"type": "object", "properties": {"a": {"type": "string"}}}}}}
                    item = {"post": op}
                    if pathitem:
                        item["parameters"] = [{"name": "other", "in": "query", "schema": {"type": "string"}}]
                    doc = gen.mkdoc(paths={path: item})
                    data, exc = _parse(doc)
                    rep.count(1, ("reserved-param", name, loc, has_body, pathitem))
                    if exc or _is_err(data):
                        _scope_verdict(rep, "param-scope/reserved", [name, loc], None, data is not None, exc, {"doc": doc})
                        continue
                    col = data.endpoint_collections_by_tag.get("default")
                    if not col or not col.endpoints:
                        _scope_verdict(rep, "param-scope/reserved", [name, loc], None, bool(col and col.parse_errors), None, {"doc": doc})
                        continue
                    e = col.endpoints[0]
                    py = [str(p.python_name) for _, p in e.iter_all_parameters()]
                    fixed = ["client"] + (["body"] if has_body else [])
                    taken = set(fixed) | {"headers", "params", "cookies", "url"}
                    clash = [n for n in py if n in taken]
                    if clash and not col.parse_errors:
                        rep.violate(f"C09/param-scope/reserved/{name.lower()}/{loc}/body={has_body}/pathitem={pathitem}",
                                    f"parameter {name!r} in {loc} keeps the name {clash} although the generated function uses it itself "
                                    f"(arguments {fixed}, locals headers/params/cookies)", doc=doc, names=py)
                    _scope_verdict(rep, "param-scope/reserved", [name, loc], py + fixed, bool(col.parse_errors), None, {"doc": doc})


# ------------------------------------------------------------------ every code point, three positions
def sweep(rep) -> None:
    u = _utils()
    import sys
    sigs: dict[tuple, int] = {}
    ctxs = [("", "ab"), ("a", "b"), ("ab", "")]
    base = {c: _real_single(u, c[0] + c[1]) for c in ctxs}
    n = 0
    stripped = 0
    for cp in range(sys.maxunicode + 1):
        if 0xD800 <= cp <= 0xDFFF:
            continue
        c = chr(cp)
        sg = names.signature(c)
        sigs[sg] = sigs.get(sg, 0) + 1
        if u.sanitize(c) == "":
            stripped += 1
            if cp % 4099 != 0:      # stripped characters cannot influence a name; spot-check 1 in 4099
                continue
            for pre, suf in ctxs:
                if _real_single(u, pre + c + suf) != base[(pre, suf)]:
                    rep.violate("C09/sweep/stripped-char-influences-name", f"U+{cp:04X} stripped by sanitize but changes names",
                                cp=cp)
            continue
        for pre, suf in ctxs:
            s = pre + c + suf
            n += 1
            _judge_single(rep, s, _real_single(u, s), "codepoint-sweep")
        for pfx in PREFIXES[1:]:
            py = str(u.PythonIdentifier(c + "a", pfx))
            if not valid_ident(py):
                rep.violate(f"C09/ident/{why_invalid(py)}", f"PythonIdentifier({c + 'a'!r}, {pfx!r}) = {py!r}", input=c + "a",
                            prefix=pfx)
    rep.count(n)
    rep.extra["sweep_codepoints"] = sys.maxunicode + 1 - 2048
    rep.extra["sweep_stripped"] = stripped
    rep.extra["sweep_named_evaluations"] = n
    rep.extra["char_signatures"] = len(sigs)
    modelled = {names.signature(conc([t])) for t in SBIG + ["UE", "FWUA", "BSL", "DQ"]}
    rep.extra["signatures_modelled"] = len([s for s in sigs if s in modelled])
    rep.extra["signatures_oracle_only"] = len([s for s in sigs if s not in modelled])


# ------------------------------------------------------------------ code -> spec: trace validation of real outputs
def traces(rep, n: int, d) -> None:
    u = _utils()
    rnd = random.Random(seed() * 7919 + 11)
    alpha = SBIG
    path = d / "names.ndjson"
    lines = []
    for tid in range(1, n + 1):
        toks = [rnd.choice(alpha) for _ in range(rnd.randint(4, 9))]
        s = conc(toks)
        r = _real_single(u, s)
        lines.append({"tid": tid, "i": toks, **{k: names.abst(r[k]) for k in ("sn", "pa", "ke", "py", "pyr", "cn")}})
    # binding self-test: one deliberately corrupted line must be reported as non-conforming
    bad = dict(lines[0]); bad["tid"] = n + 1; bad["sn"] = list(bad["sn"]) + ["x"]
    lines.append(bad)
    path.write_text("\n".join(json.dumps(x) for x in lines) + "\n")
    res = tlc.run_tlc("NamesTrace.tla", "NamesTrace.cfg", workers=1, env={"TRACE_FILE": str(path)}, timeout=900)
    rep.tlc(res)
    post = [p for p in res.printed if isinstance(p, dict) and "nonconforming" in p]
    if not post:
        raise tlc.TlcFailure("NamesTrace produced no verdict:\n" + res.out[-2000:])
    v = post[0]
    if v["consumed"] != len(lines):
        raise tlc.TlcFailure(f"NamesTrace consumed {v['consumed']} of {len(lines)} lines")
    if (n + 1) not in v["nonconforming"]:
        raise tlc.TlcFailure("binding self-test failed: corrupted trace line was accepted by NamesTrace")
    rep.traces += n
    by = {x["tid"]: x for x in lines}
    for tid in v["nonconforming"]:
        if tid != n + 1:
            rep.drifted(mode="trace", input=conc(by[tid]["i"]))
    for tid in v["lawfail"]:
        if tid == n + 1:
            continue
        s = conc(by[tid]["i"])
        _judge_single(rep, s, _real_single(u, s), "trace-law(TLC)")
    rep.extra["trace_law_failures_by_TLC"] = len([t for t in v["lawfail"] if t != n + 1])


def run(rep) -> None:
    quick = rep.tier == "quick"
    d = scratch("c09-")
    jobs = [("attr", S9 if quick else S14, 2, 2, True), ("enum", S9 if quick else S14, 2, 2, True),
            ("class", S9 if quick else S14, 2, 2, True), ("ops", S9 if quick else S14, 2, 2, True),
            ("param", ["i", "d", "I", "-", "_"], 2, 2 if quick else 3, quick),
            ("attr", ["a", "A", "FWA", "_", "BN"], 2, 2, True),
            ("allof", ["n", "N", "_", "-"] if quick else ["n", "N", "_", "-", "1", " "], 2, 2, True),
            ("nested", S9 if quick else S14, 2, 2, True)]
    if not quick:
        jobs += [("attr", S7, 2, 3, False), ("enum", S7, 2, 3, False)]
    try:
        prefetch(jobs, d)
        single(rep, 3 if quick else 4, S14, d)
        for mode, sigma, maxlen, size, emit_all in jobs:
            scope(rep, mode, sigma, maxlen, size, d, emit_all)
        sweep(rep)
        reserved_parameters(rep)
        enum_explicit(rep)
        traces(rep, 1500 if quick else 12000, d)
    finally:
        rmtree(d)
    rep.rule = ("TLC enumerates all names / ordered name sets over the token alphabet up to the tier's bounds; every case is replayed "
                "through the real utils functions / the real parser; every Unicode code point is swept in 3 positions; "
                "non-trivial = name changed by derivation, or scope case with a predicted conflict/error")
    rep.exhaustive = True
    rep.assumptions += ["token representatives stand for their character-class signature (measured: char_signatures)",
                        "CPython's str.isidentifier / keyword.iskeyword define identifier validity"]
