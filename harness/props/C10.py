"""C10 - absent, null and present stay three distinct states.

Spec: Codec.tla law K4 (absent <-> UNSET <-> absent; null <-> None <-> null exactly for nullable descriptors; required + absent raises)
evaluated by TLC for every descriptor, plus the signature laws checked on the real classes: mandatory constructor argument <=> required
and no default; the declared type admits None <=> the schema is nullable.  Binding A/B as in C02 (same universe, same sandbox); the
nullable spellings of the statement (3.0 `nullable`, 3.1 type list, null union member, null enum member) are generated side by side.
Parameters (query/header/cookie) and bodies are covered by the endpoint leg (harness/endpoint.py) when present.
"""
from __future__ import annotations

import json
import re

from .. import codec, gen, paramwire, tlc
from ..common import rmtree, scratch


def nullable_of(d: dict) -> bool:
    ms = d["ms"] if d["kind"] == "union" else [d["kind"]]
    return d["nul"] or "none" in ms or "any" in ms


def judge(rep, descs, cases, out) -> None:
    for p, c in zip(descs, cases):
        d = p["d"]
        rr = out["results"].get(c["cls"], {})
        meta = out["meta"].get(c["cls"], {})
        if rr.get("__missing__"):
            continue
        sig = d["kind"] if d["kind"] != "union" else "union(" + ",".join(d["ms"]) + ")"
        nullable = nullable_of(d)
        rep.count(1, json.dumps(d, sort_keys=True))
        # signature: mandatory <=> required and no default (no defaults in this universe)
        if meta.get("mandatory") is not None and meta["mandatory"] != d["req"]:
            rep.violate(f"C10/signature/{sig}/req={d['req']}", f"constructor argument mandatory={meta['mandatory']} but required={d['req']}", d=d, meta=meta)
        if meta.get("hints_error"):
            rep.violate(f"C10/annotation-unresolvable/{sig}", f"type hints cannot be resolved: {meta['hints_error']}", d=d)
        elif meta.get("admits_none") is not None and meta["admits_none"] != nullable and d["kind"] != "any" and "any" not in d["ms"]:
            rep.violate(f"C10/annotation-none/{sig}/nullable={nullable}", f"declared type {meta.get('hint')} admits None={meta['admits_none']} but schema nullable={nullable}",
                        d=d, meta=meta, schema=codec.schema_of(d))
        ctor = rr.get("__ctor__", {})
        if not d["req"]:
            if ctor.get("raise"):
                rep.violate(f"C10/optional-not-omittable/{sig}", f"optional property cannot be omitted from the constructor: {ctor}", d=d)
            elif ctor.get("py") != "Unset" or ctor.get("enc") != "__ABSENT__":
                rep.violate(f"C10/omitted-not-unset/{sig}", f"omitted optional argument reads back as {ctor.get('py')} and encodes as {ctor.get('enc')}", d=d, ctor=ctor)
            a = rr["absent"]
            if a["dec"] != "ok":
                rep.violate(f"C10/absent-rejected/{sig}", f"absent optional property does not decode: {a['dec']}", d=d)
            elif a["py"] != "Unset" or a.get("enc_present"):
                key = f"C10/absent-optional-list-becomes-empty/{d['kind']}" if d["kind"] in ("listdate", "listM") else f"C10/absent-not-unset/{sig}"
                rep.violate(key, f"absent optional property reads back as {a['py']} and is re-encoded as {json.dumps(a.get('enc'))} (present={a.get('enc_present')})",
                            d=d, observed=a)
        else:
            if not ctor.get("raise"):
                rep.violate(f"C10/required-omittable/{sig}", f"required property without default can be omitted from the constructor: {ctor}", d=d)
            if rr["absent"]["dec"] == "ok":
                rep.violate(f"C10/required-absent-accepted/{sig}", "a document without the required property decodes", d=d, observed=rr["absent"])
        n = rr["null"]
        if nullable:
            if n["dec"] != "ok" or n["py"] != "None":
                rep.violate(f"C10/null-not-none/{sig}", f"null for a nullable property decodes as {n.get('py', n['dec'])}", d=d, observed=n, schema=codec.schema_of(d))
            elif not n.get("enc_present") or n.get("enc") is not None:
                rep.violate(f"C10/none-not-null/{sig}", f"None is encoded as {json.dumps(n.get('enc'))} (present={n.get('enc_present')})", d=d, observed=n)
        # decoding never consumes the caller's payload (a second decode of the same dict sees the same members)
        for w, r in rr.items():
            if isinstance(r, dict) and r.get("dec") == "ok":
                if r.get("src_unchanged") is False:
                    rep.violate(f"C10/decode-mutates-payload/{'closed' if c.get('closed') else 'open'}-holder", f"from_dict changes the dict it is given (wire value {w})", d=d, w=w)
                elif r.get("again_equal") not in (True, None):
                    rep.violate(f"C10/second-decode-differs/{'closed' if c.get('closed') else 'open'}-holder", f"decoding the same dict twice gives {r.get('again_equal')} (wire value {w})", d=d, w=w)
        # a PRESENT value (also a falsy one: 0, "", False, {}, []) is neither absent nor null
        for i, w in enumerate(codec.WIRESEQ):
            if w in ("absent", "null") or not p["valid"][i] or w == "f10":
                continue
            r = rr[w]
            if r.get("enc_raise"):
                continue      # the encoder raised: C02's business (round trip), no statement about the three states
            if r["dec"] == "ok" and (r["py"] == "Unset" or not r.get("enc_present")):
                rep.violate(f"C10/present-value-becomes-absent/{sig}/{w}", f"present value {json.dumps(codec.WIRE[w])} reads back as {r['py']} and is "
                            f"{'not ' if not r.get('enc_present') else ''}transmitted", d=d, w=w, observed=r, schema=codec.schema_of(d))
            elif r["dec"] == "ok" and r["py"] == "None":
                rep.violate(f"C10/present-value-becomes-null/{sig}/{w}", f"present value {json.dumps(codec.WIRE[w])} reads back as None", d=d, w=w)
        # the three states are pairwise distinct Python values
        if not d["req"] and nullable and rr["absent"].get("py") == rr["null"].get("py"):
            rep.violate(f"C10/absent-null-conflated/{sig}", f"absent and null both read back as {rr['null'].get('py')}", d=d)


def spellings(rep, d) -> None:
    """The four nullable notations of the statement, side by side, for scalar / enum / model / array."""
    S = {"type": "string"}
    props = {
        "n30": {"type": "string", "nullable": True}, "n31": {"type": ["string", "null"]}, "nmem": {"oneOf": [S, {"type": "null"}]},
        "e30": {"type": "string", "enum": ["a", "b", None], "nullable": True}, "e31": {"type": ["string", "null"], "enum": ["a", "b", None]},
        "emem": {"oneOf": [{"type": "string", "enum": ["a", "b"]}, {"type": "null"}]}, "enull": {"enum": ["a", "b", None]},
        "m30": {"allOf": [{"$ref": "#/components/schemas/M"}], "nullable": True}, "mmem": {"oneOf": [{"$ref": "#/components/schemas/M"}, {"type": "null"}]},
        "a30": {"type": "array", "items": {"type": "integer"}, "nullable": True}, "a31": {"type": ["array", "null"], "items": {"type": "integer"}},
        "plain": S, "eplain": {"type": "string", "enum": ["a", "b"]}, "tlist_enum_no_null": {"type": ["string", "null"], "enum": ["a", "b"]},
    }
    for version, keys in (("3.0.3", ["n30", "e30", "m30", "a30", "plain", "eplain"]), ("3.1.0", [k for k in props if not k.endswith("30")])):
        schemas = dict(codec.COMPONENTS)
        cases = []
        for k in keys:
            schemas[f"H{k.title()}"] = {"type": "object", "properties": {"p": props[k]}}
        doc = gen.mkdoc(schemas=schemas, version=version)
        pkg = "sp" + version.replace(".", "")
        g = gen.generate(doc, d / pkg)
        if g["exc"] or g["rejected"]:
            rep.violate("C10/spellings-not-generated", f"nullable spellings document failed: {g['exc'] or g['diags'][:1]}", doc=doc)
            continue
        from openapi_python_client import utils
        for k in keys:
            cases.append({"cls": str(utils.ClassName(f"H{k.title()}", "")), "prop": "p", "wires": [["absent", False, None], ["null", True, None], ["m1", True, "a"], ["arri", True, [1, 2]]],
                          "construct_empty": True})
        out = codec.run_sandbox(d, pkg, cases)
        if "__crash__" in out:
            rep.violate("C10/spellings-sandbox", "sandbox crashed: " + out["__crash__"][-300:])
            continue
        for k, c in zip(keys, cases):
            rr, meta = out["results"][c["cls"]], out["meta"][c["cls"]]
            rep.count(1, ("spelling", version, k))
            if rr.get("__missing__"):
                rep.violate(f"C10/spelling-class-missing/{k}", f"model for nullable spelling {k} not generated", schema=props[k])
                continue
            # a nullable enum is one whose value list contains null (JSON-Schema semantics); plain / type-list-without-null-member are not nullable
            nullable = k not in ("plain", "eplain", "tlist_enum_no_null")
            n = rr["null"]
            if nullable and (n["dec"] != "ok" or n["py"] != "None" or n.get("enc") is not None or not n.get("enc_present")):
                rep.violate(f"C10/spelling/{k}/null-not-preserved", f"{k}: null decodes as {n.get('py', n['dec'])} and re-encodes as {json.dumps(n.get('enc'))}",
                            schema=props[k], observed=n)
            if meta.get("admits_none") is not None and meta["admits_none"] != nullable:
                rep.violate(f"C10/spelling/{k}/annotation-none", f"{k}: declared type {meta.get('hint')} admits None={meta['admits_none']}, nullable={nullable}", schema=props[k])
            if rr["absent"].get("py") != "Unset":
                rep.violate(f"C10/spelling/{k}/absent-not-unset", f"{k}: absent reads back as {rr['absent'].get('py')}", schema=props[k])


SPELLINGS = {
    "n30": ({"type": "string", "nullable": True}, True), "n31": ({"type": ["string", "null"]}, True), "nmem": ({"oneOf": [{"type": "string"}, {"type": "null"}]}, True),
    "e30": ({"type": "string", "enum": ["a", "b", None], "nullable": True}, True), "e31": ({"type": ["string", "null"], "enum": ["a", "b", None]}, True),
    "emem": ({"oneOf": [{"type": "string", "enum": ["a", "b"]}, {"type": "null"}]}, True), "enull": ({"enum": ["a", "b", None]}, True),
    "ienull": ({"type": "integer", "enum": [1, 2, None]}, True), "a31": ({"type": ["array", "null"], "items": {"type": "integer"}}, True),
    "i30": ({"type": "integer", "nullable": True}, True), "d31": ({"type": ["string", "null"], "format": "date"}, True),
    "plain": ({"type": "string"}, False), "eplain": ({"type": "string", "enum": ["a", "b"]}, False), "iplain": ({"type": "integer"}, False),
    # not about null, but about being built more than once: tuple arrays with and without `items`, nested unions
    "tuple": ({"type": "array", "prefixItems": [{"type": "string"}, {"type": "integer"}]}, False),
    "tupleitems": ({"type": "array", "prefixItems": [{"type": "string"}, {"type": "integer"}], "items": {"type": "boolean"}}, False),
    "nestedunion": ({"oneOf": [{"oneOf": [{"type": "string"}, {"type": "integer"}]}, {"type": "array", "items": {"type": "number"}}]}, False),
}


def deep(prop) -> list:
    """Structure of a built property with document-chosen names stripped: kind, members (with multiplicity), leaves' type strings."""
    n = type(prop).__name__
    if n == "UnionProperty":
        return [n, [deep(x) for x in prop.inner_properties]]
    if n == "ListProperty":
        return [n, deep(prop.inner_property)]
    if n in ("EnumProperty", "LiteralEnumProperty"):
        return [n, sorted(map(str, prop.values.values() if isinstance(prop.values, dict) else prop.values))]
    return [n, re.sub(r"Holder\d+P\d+", "X", prop.get_type_string(no_optional=True))]


def shared_positions(rep) -> None:
    """The same schema OBJECT reached more than once (component parameter used by two operations, path-item parameter under two methods,
    a component retried in a later round, a property built twice): every use must be what the first use is - in particular as nullable."""
    import copy

    from openapi_python_client import schema as oai
    from openapi_python_client.parser.properties import Schemas, property_from_data

    def admits_none(ts: str) -> bool:
        return "None" in ts

    for literal in (False, True):
        cf = {"literal_enums": literal}
        for k, (sch, nullable) in SPELLINGS.items():
            # (1) one object, built twice by the property builder
            cfg = gen.make_config(out="/nonexistent-opcv", **cf)
            obj = oai.Schema.model_validate(copy.deepcopy(sch))
            ts = []
            for n in range(3):
                prop, _ = property_from_data(name=f"p{n}", required=True, data=obj, schemas=Schemas(), parent_name=f"Holder{n}", config=cfg)
                ts.append("ERR" if type(prop).__name__ == "PropertyError" else json.dumps([prop.get_type_string().replace(f"Holder{n}P{n}", "X"), deep(prop)]))
            rep.count(1, ("double-parse", k, literal))
            if len(set(ts)) != 1:
                rep.violate(f"C10/shared/built-twice/{k}", f"building a property from the same schema object {json.dumps(sch)} three times gives {ts} (literal_enums={literal})", schema=sch)
            # (2) the sharing patterns of a real document
            ok = {"200": {"description": "ok"}}
            doc = gen.mkdoc(
                {"Later": {"type": "object", "properties": {"z": {"type": "string"}}},
                 "Retry": {"type": "object", "properties": {"u": {"oneOf": [copy.deepcopy(sch) if "oneOf" not in sch else {"type": "integer"}, {"$ref": "#/components/schemas/ZLater"}]}, "direct": copy.deepcopy(sch)}},
                 "ZLater": {"type": "object", "properties": {"z": {"type": "string"}}}},
                {"/one": {"get": {"operationId": "one", "parameters": [{"$ref": "#/components/parameters/Shared"}], "responses": ok}},
                 "/two": {"get": {"operationId": "two", "parameters": [{"$ref": "#/components/parameters/Shared"}], "responses": ok}},
                 "/three": {"post": {"operationId": "three", "parameters": [{"$ref": "#/components/parameters/Shared"}], "responses": ok}},
                 "/both": {"parameters": [{"name": "mode", "in": "query", "schema": copy.deepcopy(sch)}],
                           "get": {"operationId": "bothGet", "responses": ok}, "post": {"operationId": "bothPost", "responses": ok}, "put": {"operationId": "bothPut", "responses": ok}}},
                components={"parameters": {"Shared": {"name": "mode", "in": "query", "schema": copy.deepcopy(sch)}}})
            data, exc = gen.parse(doc, **cf)
            if exc or type(data).__name__ == "GeneratorError":
                rep.violate(f"C10/shared/document-rejected/{k}", f"sharing document for {k} rejected: {exc or data}", doc=doc)
                continue
            uses = {}
            for coll in data.endpoint_collections_by_tag.values():
                for ep in coll.endpoints:
                    for prm in ep.query_parameters:
                        if prm.name == "mode":
                            uses[ep.name] = prm.get_type_string()
            rep.count(1, ("shared", k, literal))
            want = {"one", "two", "three", "bothGet", "bothPost", "bothPut"}
            if set(uses) != want:
                rep.violate(f"C10/shared/parameter-missing/{k}", f"{k}: the shared parameter is missing from {sorted(want - set(uses))}", doc=doc)
            def canon(v: str) -> str:
                v = re.sub(r"\b(One|Two|Three|BothGet|BothPost|BothPut)Mode", "XMode", v)
                m = re.fullmatch(r"Union\[(.*)\]", v)
                return "Union[" + ", ".join(sorted(m.group(1).split(", "))) + "]" if m else v
            norm = {canon(v) for v in uses.values()}
            if len(norm) > 1 or any(admits_none(v) != nullable for v in uses.values()):
                rep.violate(f"C10/shared/uses-differ/{k}", f"{k} (nullable={nullable}): the uses of one shared parameter are typed {uses} (literal_enums={literal})", doc=doc, uses=uses)
            retry = next((m for m in data.models if str(m.class_info.name) == "Retry"), None)
            if retry is None:
                rep.violate(f"C10/shared/retried-model-missing/{k}", f"{k}: the model that needs a second round is missing", doc=doc)
            else:
                direct = next((q for q in (retry.required_properties or []) + (retry.optional_properties or []) if q.name == "direct"), None)
                if direct is not None and admits_none(direct.get_type_string(no_optional=True)) != nullable:
                    rep.violate(f"C10/shared/retried-model/{k}", f"{k} (nullable={nullable}): in a model built in a later round the property is typed {direct.get_type_string()}", doc=doc)


def allof_required(rep, d) -> None:
    """A property is a mandatory argument iff SOME allOf member (or the schema itself) requires it - wherever `required` is written."""
    S = {"type": "string"}
    R = lambda n: {"$ref": f"#/components/schemas/{n}"}
    base = {"Base": {"type": "object", "required": ["id"], "properties": {"id": {"type": "integer"}, "email": S}}}
    fam = {
        # name: (schema, {property: expected mandatory})
        "SameMember": ({"allOf": [R("Base"), {"type": "object", "required": ["n"], "properties": {"n": S}}]}, {"id": True, "email": False, "n": True}),
        "LaterMember": ({"allOf": [R("Base"), {"type": "object", "properties": {"n": S, "m": S}}, {"type": "object", "required": ["n"]}]}, {"n": True, "m": False, "id": True}),
        "EarlierMember": ({"allOf": [{"type": "object", "required": ["n"]}, {"type": "object", "properties": {"n": S, "m": S}}]}, {"n": True, "m": False}),
        "TopLevelRequired": ({"required": ["n"], "allOf": [R("Base"), {"type": "object", "properties": {"n": S}}]}, {"n": True, "id": True, "email": False}),
        "TopLevelProps": ({"type": "object", "properties": {"n": S, "m": S}, "allOf": [{"type": "object", "required": ["n"]}]}, {"n": True, "m": False}),
        # `required` naming an INHERITED property that is not re-declared: mandatory in the derived model, and the base model stays as it is
        "InheritedRequired": ({"allOf": [R("Base"), {"type": "object", "required": ["email"], "properties": {"n": S}}]}, {"id": True, "email": True, "n": False}),
        "InheritedRequiredTop": ({"required": ["email"], "allOf": [R("Base"), {"type": "object", "properties": {"n": S}}]}, {"id": True, "email": True, "n": False}),
        "OtherChild": ({"allOf": [R("Base"), {"type": "object", "properties": {"o": S}}]}, {"id": True, "email": False, "o": False}),
        "Base": (base["Base"], {"id": True, "email": False}),
        "RedeclaredOptional": ({"allOf": [R("Base"), {"type": "object", "properties": {"id": {"type": "integer"}}}]}, {"id": True, "email": False}),
        "Plain": ({"type": "object", "required": ["a"], "properties": {"a": S, "b": S, "c": {"type": "string", "default": "x"}, "dflt": {"type": "integer", "default": 3}},
                   }, {"a": True, "b": False, "c": False, "dflt": False}),
        "RequiredWithDefault": ({"type": "object", "required": ["a", "b"], "properties": {"a": {"type": "string", "default": "x"}, "b": S}}, {"a": False, "b": True}, {"a", "b"}),
        # one member documents a default, another member requires the property (possibly narrowing it): the argument has a default, the KEY is required
        "DefaultThenRequired": ({"allOf": [{"type": "object", "properties": {"role": {"type": "string", "default": "user"}, "n": S}}, {"type": "object", "required": ["role"]}]},
                                {"role": False, "n": False}, {"role"}),
        "DefaultNarrowedRequired": ({"allOf": [{"type": "object", "properties": {"role": {"type": "string", "default": "user"}}},
                                               {"type": "object", "required": ["role"], "properties": {"role": {"type": "string", "enum": ["user", "admin"]}}}]}, {"role": False}, {"role"}),
        "DefaultInBaseRequiredInChild": ({"allOf": [R("WithDefault"), {"type": "object", "required": ["role"], "properties": {"role": {"type": "string", "default": "user"}}}]}, {"role": False}, {"role"}),
    }
    base["WithDefault"] = {"type": "object", "properties": {"role": {"type": "string", "default": "user"}}}
    # the base is declared first and the tightening children right after it, the other child and the base's own expectations last
    doc = gen.mkdoc(schemas={**base, **{k: v[0] for k, v in fam.items() if k != "Base"}})
    g = gen.generate(doc, d / "ar")
    if g["exc"] or g["rejected"] or g["diags"]:
        rep.violate("C10/allof-family-not-generated", f"{g['exc'] or g['diags'][:2]}", doc=doc)
        return
    cases = []
    fam = {k: (v[0], v[1], (v[2] if len(v) > 2 else {p for p, m in v[1].items() if m})) for k, v in fam.items()}
    for k, (schema, exp, _) in fam.items():
        for prop in exp:
            cases.append({"cls": k, "prop": prop, "wires": [], "construct_empty": False})
    out = codec.run_sandbox(d, "ar", cases)
    # run_sandbox keys results by class: collect meta per (class, prop) with a second pass
    import subprocess
    from ..common import VENV_PY
    script = ("import json,sys,inspect; sys.path.insert(0, %r); import ar.models as m\n"
              "VAL={'id':1,'dflt':3}\n"
              "def dec(k, props):\n"
              "    C=getattr(m,k); full={p:VAL.get(p, 'user' if p=='role' else 'x') for p in props}; r={}\n"
              "    try: C.from_dict(dict(full)); r['__full__']='ok'\n"
              "    except Exception as e: r['__full__']=repr(e)[:80]\n"
              "    for p in props:\n"
              "        part={q:v for q,v in full.items() if q!=p}\n"
              "        try: C.from_dict(part); r[p]='ok'\n"
              "        except KeyError: r[p]='keyerror'\n"
              "        except Exception as e: r[p]=repr(e)[:80]\n"
              "    return r\n"
              "print(json.dumps({k: {'sig': {n: (p.default is inspect.Parameter.empty) for n, p in inspect.signature(getattr(m, k)).parameters.items()}, 'dec': dec(k, props)} for k, props in %r.items()}))"
              ) % (str(d), {k: sorted(v[1]) for k, v in fam.items()})
    p = subprocess.run([VENV_PY, "-I", "-c", script], capture_output=True, text=True, timeout=120)
    if p.returncode != 0:
        rep.violate("C10/allof-family-import", p.stderr[-500:], doc=doc)
        return
    both = json.loads(p.stdout.strip().splitlines()[-1])
    sigs = {k: v["sig"] for k, v in both.items()}
    for k, (schema, exp, reqd) in fam.items():
        dec = both[k]["dec"]
        if dec["__full__"] != "ok":
            rep.violate(f"C10/allof-required/{k}/full-instance-rejected", f"{k}: an instance carrying every property is rejected: {dec['__full__']}", schema=schema)
            continue
        for prop in exp:
            if prop in reqd and dec[prop] != "keyerror" and not (k.startswith("InheritedRequired") and prop == "email"):
                rep.violate(f"C10/allof-required/{k}/{prop}/absent-key-accepted", f"{k}.{prop} is required by a member but an instance without it decodes ({dec[prop]})", schema=schema)
            if prop not in reqd and dec[prop] != "ok":
                rep.violate(f"C10/allof-required/{k}/{prop}/optional-key-demanded", f"{k}.{prop} is required by no member but an instance without it fails: {dec[prop]}", schema=schema)
    for k, (schema, exp, reqd) in fam.items():
        for prop, mand in exp.items():
            rep.count(1, ("allof-required", k, prop))
            got = sigs[k].get(prop)
            if got is None:
                rep.violate(f"C10/allof-required/{k}/{prop}/missing", f"{k}.{prop} is not a constructor argument", schema=schema)
            elif got != mand:
                rep.violate(f"C10/allof-required/{k}/{prop}", f"{k}.{prop}: mandatory argument={got}, but required-by-some-member-and-no-default={mand}", schema=schema, signature=sigs[k])


ODD_NAMES = ['plain', 'height"', 'bay\\slot', 'line\nbreak', 'tab\tsep', 'uni\u2028sep', 'sp ace', 'dash-ed', '1digit', 'class', "quo'te", 'nul\x00l', 'del\x7fete', 'cr\rx']


def odd_names(rep, d) -> None:
    """`required` is matched against the property names AS WRITTEN, whatever characters they contain: a required property is a mandatory
    key on decode (absence raises) and is always encoded; the same property left out of `required` may be absent both ways."""
    props = {n: {"type": "string"} for n in ODD_NAMES}
    doc = gen.mkdoc(schemas={"OddReq": {"type": "object", "required": list(ODD_NAMES), "properties": props},
                             "OddOpt": {"type": "object", "properties": props},
                             "OddHalf": {"type": "object", "required": ODD_NAMES[1::2], "properties": props}})
    for literal in (False,):
        g = gen.generate(doc, d / "oddn")
        if g["exc"] or g["rejected"]:
            rep.violate("C10/odd-names/not-generated", f"{g['exc'] or g['diags'][:2]}", doc=doc)
            return
        dropped = {x["header"] + x["detail"] for x in g["diags"]}
        script = ("import json,sys; sys.path.insert(0, %r); import oddn.models as m; names=%r; out={}\n"
                  "for cls in ('OddReq','OddOpt','OddHalf'):\n"
                  "    C=getattr(m, cls, None)\n"
                  "    if C is None: out[cls]='absent'; continue\n"
                  "    full={n:'v' for n in names}; r={}\n"
                  "    try: r['full']=C.from_dict(dict(full)).to_dict()==full\n"
                  "    except Exception as e: r['full']=repr(e)[:80]\n"
                  "    for n in names:\n"
                  "        part={k:v for k,v in full.items() if k!=n}\n"
                  "        try: o=C.from_dict(dict(part)); r[n]=['ok', o.to_dict()==part]\n"
                  "        except KeyError: r[n]=['keyerror', None]\n"
                  "        except Exception as e: r[n]=[repr(e)[:80], None]\n"
                  "    out[cls]=r\n"
                  "print(json.dumps(out))") % (str(d), ODD_NAMES)
        import subprocess
        from ..common import VENV_PY
        p = subprocess.run([VENV_PY, "-I", "-c", script], capture_output=True, text=True, timeout=120)
        if p.returncode != 0:
            rep.violate("C10/odd-names/import", p.stderr[-500:], doc=doc)
            return
        out = json.loads(p.stdout.strip().splitlines()[-1])
        req = {"OddReq": set(ODD_NAMES), "OddOpt": set(), "OddHalf": set(ODD_NAMES[1::2])}
        for cls, r in out.items():
            if r == "absent":
                if not any(cls in x for x in dropped):
                    rep.violate(f"C10/odd-names/{cls}/absent-undiagnosed", "the model is neither generated nor named in a diagnostic", doc=doc)
                continue
            if r["full"] is not True:
                rep.violate(f"C10/odd-names/{cls}/full-instance", f"an instance carrying every property does not round-trip: {r['full']}", doc=doc)
            for i, n in enumerate(ODD_NAMES):
                rep.count(1, ("odd-names", cls, n))
                how, same = r[n]
                label = "".join(ch if ch.isalnum() else f"u{ord(ch):04x}" for ch in n)
                if n in req[cls] and how != "keyerror":
                    rep.violate(f"C10/odd-names/required-not-mandatory/{label}", f"{cls}: property {n!r} is listed in `required` but an instance without it is accepted ({how})", doc=doc, cls=cls)
                if n not in req[cls] and (how != "ok" or same is not True):
                    rep.violate(f"C10/odd-names/optional-not-omittable/{label}", f"{cls}: optional property {n!r} absent: {how}, re-encoded identically={same}", doc=doc, cls=cls)


def run(rep) -> None:
    quick = rep.tier == "quick"
    d = scratch("c10-")
    try:
        res, descs, cases, out, gens = codec.observe(d, 2 if quick else 3,
                                                     None if quick else ["none", "str", "date", "datetime", "enums", "modelM", "modelN", "listint", "listM"])
        rep.tlc(res)
        rep.extra["descriptors"] = len(descs)
        rep.extra["K4_refuted_on_model"] = [p["d"] for p in descs if not p["k4"]][:8]
        judge(rep, descs, cases, out)
        # code -> spec: the tri-state observations (absent / null) validated by CodecTrace
        trace = []
        for p, c in zip(descs, cases):
            rr = out["results"].get(c["cls"], {})
            if rr.get("__missing__"):
                continue
            for w in ("absent", "null"):
                dec, enc = codec.project_dec(rr[w])
                trace.append({"tid": len(trace) + 1, "d": p["d"], "w": w, "dec": "raise" if dec == "raise" else "ok", "py": "x" if dec == "raise" else dec[0], "enc": enc})
        (d / "obs.ndjson").write_text("\n".join(json.dumps(e) for e in trace) + "\n")
        tres = tlc.run_tlc("CodecTrace.tla", "CodecTrace.cfg", workers=1, env={"TRACE_FILE": str(d / "obs.ndjson")}, timeout=900)
        rep.tlc(tres)
        post = [p for p in tres.printed if isinstance(p, dict) and "nonconforming" in p]
        if not post or post[0]["consumed"] != len(trace):
            raise tlc.TlcFailure("CodecTrace did not consume the observations")
        rep.traces += len(trace)
        for t in post[0]["nonconforming"][:20]:
            rep.drifted(mode="codec-trace", obs=trace[t - 1])
        spellings(rep, d)
        shared_positions(rep)
        allof_required(rep, d)
        odd_names(rep, d)
        # ParamWire.tla W3: an omitted optional parameter is not transmitted in any location; None never reaches the query string
        paramwire.judge(rep, "C10", d)
        rep.sample({"descriptor": descs[3]["d"], "states": ["absent", "null", "present"]})
    finally:
        rmtree(d)
    rep.rule = ("every descriptor of Codec.tla's universe (kind x required x nullable, unions) on the real classes: signature, annotation, "
                "absent/null/present decode + encode; 14 nullable spellings under OpenAPI 3.0 and 3.1; "
                "14 spellings x sharing patterns (one schema object built 3 times, a component parameter used by 3 operations, a path-item parameter under 3 methods, "
                "a model built in a later round) x both enum styles; non-trivial = distinct descriptor")
    rep.exhaustive = True
    rep.assumptions += ["a nullable enum is one whose value list contains null (JSON-Schema semantics)"]
