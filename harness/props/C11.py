"""C11 - generated code type-checks and its annotations are truthful.

Spec: Codec.tla (the decoded Python value classes of every descriptor: the law 'RuntimeAtom(Decode(d, w)) is admitted by Annot(d)' is
evaluated on the REAL annotations, resolved with typing.get_type_hints, for every descriptor x schema-valid wire class) and Endpoint.tla
(the parsed value of every documented response is admitted by the return annotation).  TLC enumerates the descriptors / operations; the
truthfulness half is decided on the real classes in the sandbox.  mypy's verdict is an OBSERVATION of the real output on the packages the
model's enumeration concretises (the model enumerates, mypy judges): the repository's own flags (disallow_any_generics,
disallow_untyped_defs, warn_redundant_casts, strict_equality) on the packed codec / endpoint / structured packages, literal_enums on and off.
Environment deviation: types-python-dateutil cannot be installed offline, so dateutil.* gets ignore_missing_imports.
"""
from __future__ import annotations

import base64
import json
import os
import random
import subprocess
from concurrent.futures import ThreadPoolExecutor

from .. import codec, endpoint, gen, paramwire, tlc
from ..common import VENV_PY, rmtree, scratch, seed
from . import C02 as c02
from . import C12 as c12

MYPY_INI = """[mypy]
disallow_any_generics = True
disallow_untyped_defs = True
warn_redundant_casts = True
strict_equality = True
[mypy-dateutil.*]
ignore_missing_imports = True
"""


def run_mypy(pkgdir, d) -> list[str]:
    ini = d / "mypy.ini"
    if not ini.exists():
        ini.write_text(MYPY_INI)
    p = subprocess.run([VENV_PY, "-m", "mypy", "--config-file", str(ini), "--no-incremental", "--cache-dir", os.devnull, pkgdir.name], cwd=str(pkgdir.parent),
                       capture_output=True, text=True, timeout=1500)
    errs = [l for l in p.stdout.splitlines() if ": error:" in l]
    if p.returncode not in (0, 1):
        errs.append("mypy crashed: " + (p.stderr or p.stdout)[-300:])
    return errs


def classify_mypy(err: str) -> str:
    """error code + message with file names, line numbers and quoted identifiers removed (so that one defect has one key)"""
    import re
    code = err.rsplit("[", 1)[-1].rstrip("]") if err.endswith("]") else "?"
    msg = err.split(": error:", 1)[-1].rsplit("[", 1)[0]
    msg = re.sub(r"\d+", "N", msg)
    slug = "-".join(re.findall(r"[A-Za-z]+", msg)[:18]).lower()[:110]
    return f"{code}/{slug}"


def run(rep) -> None:
    quick = rep.tier == "quick"
    rnd = random.Random(seed() * 1063 + 11)
    d = scratch("c11-")
    try:
        packages = []
        # ---- codec universe: truthfulness of attribute annotations + packages for mypy
        for literal in (False, True):
            sub = d / f"codec{int(literal)}"
            sub.mkdir()
            res, descs, cases, out, gens = codec.observe(sub, 2 if quick else 3, None if quick else ["none", "str", "date", "datetime", "enums", "modelM", "modelN", "listint", "listM"],
                                                         cfg={"literal_enums": literal})
            rep.tlc(res)
            validity = codec.screen_validity([(codec.schema_of(p["d"]), [codec.WIRE[w] for w in codec.WIRESEQ[1:]]) for p in descs])
            for p, c, val in zip(descs, cases, validity):
                rr = out["results"].get(c["cls"], {})
                meta = out["meta"].get(c["cls"], {})
                if rr.get("__missing__"):
                    continue
                dd = p["d"]
                sig = dd["kind"] if dd["kind"] != "union" else "union(" + ",".join(dd["ms"]) + ")"
                if meta.get("hints_error"):
                    rep.violate(f"C11/annotation-unresolvable/{sig}", f"annotations of the generated class cannot be resolved: {meta['hints_error']}", d=dd, literal=literal)
                    continue
                for i, w in enumerate(codec.WIRESEQ):
                    valid = (not dd["req"]) if w == "absent" else val[i - 1]
                    r = rr[w]
                    rep.count(1, (json.dumps(dd, sort_keys=True), w, literal) if valid else None)
                    if not valid or r["dec"] != "ok" or "truthful" not in r:
                        continue
                    if w == "f10" and not ({"float", "any"} & set(dd["ms"] if dd["kind"] == "union" else [dd["kind"]])):
                        continue
                    if not r["truthful"]:
                        key = f"C11/attribute-annotation-untruthful/{sig}/{w}" + ("/literal" if literal else "")
                        if dd["kind"] == "union" or dd["nul"]:
                            key = c02.union_key(dd, w, None, r.get("py")).replace("C02/union-lossy", "C11/untruthful-after-first-match") if any(
                                k in (dd["ms"] or []) for k in ("listint",)) and False else key
                        rep.violate(key, f"decoding {json.dumps(codec.WIRE.get(w))} stores a {r['py']} in an attribute annotated {meta.get('hint')}", d=dd, w=w, literal=literal)
            for k in range(len(gens)):
                packages.append(sub / f"pk{k}")
            if not literal:
                # code -> spec: the observed decoded value classes are the ones Codec.tla's operational layer yields
                trace = []
                for p, c in zip(descs, cases):
                    rr = out["results"].get(c["cls"], {})
                    if rr.get("__missing__"):
                        continue
                    for w in codec.WIRESEQ:
                        dec, enc = codec.project_dec(rr[w])
                        trace.append({"tid": len(trace) + 1, "d": p["d"], "w": w, "dec": "raise" if dec == "raise" else "ok", "py": "x" if dec == "raise" else dec[0], "enc": enc})
                (sub / "obs.ndjson").write_text("\n".join(json.dumps(e) for e in trace) + "\n")
                tres = tlc.run_tlc("CodecTrace.tla", "CodecTrace.cfg", workers=1, env={"TRACE_FILE": str(sub / "obs.ndjson")}, timeout=1800)
                rep.tlc(tres)
                post = [x for x in tres.printed if isinstance(x, dict) and "nonconforming" in x]
                if not post or post[0]["consumed"] != len(trace):
                    raise tlc.TlcFailure("CodecTrace did not consume the observations")
                rep.traces += len(trace)
                for t in post[0]["nonconforming"][:10]:
                    rep.drifted(mode="codec-trace", obs=trace[t - 1])
        # ---- endpoints: truthfulness of return annotations + package for mypy
        rres = endpoint.enumerate_universe("response", 0, d)[0]
        rep.tlc(rres)
        cases = rres.printed
        ops = {}
        for c in cases:
            ops.setdefault(endpoint.op_key(c["op"]), c["op"])
        oplist = list(ops.values())
        idx = {endpoint.op_key(o): i for i, o in enumerate(oplist)}
        doc, infos = endpoint.pack_ops(oplist, method="get")
        gen.generate(doc, d / "rp")
        calls, meta = [], {}
        for k, c in enumerate(cases):
            if c["raise"]:
                continue
            i = idx[endpoint.op_key(c["op"])]
            documented = {r["status"]: r["how"] for r in c["op"]["rs"]}
            calls.append({"id": str(k), "module": infos[i]["module"], "variant": c["variant"], "secured": False, "raise": False, "kwargs": {}, "body": None,
                          "served": endpoint.served_spec(documented.get(c["served"], "x"), c["served"])})
            meta[str(k)] = c
        out = endpoint.run_calls(d, "rp", calls)
        if "__crash__" in out:
            rep.violate("C11/endpoint-package-broken", out["__crash__"][-400:])
        else:
            for cid, c in meta.items():
                o = out[cid]
                rep.count(1, (endpoint.op_key(c["op"]), c["served"], c["variant"]))
                if o.get("truthful_return") is False:
                    rep.violate(f"C11/return-annotation-untruthful/{c['variant']}/rs={'+'.join(r['how'] for r in c['op']['rs'])}",
                                f"{c['variant']} returned {o.get('return', {}).get('parsed')} but is annotated {o.get('return_hint')}", op=c["op"], served=c["served"])
        packages.append(d / "rp")
        # response with two media types of different schemas (first supported one decides both accessor and schema)
        S = endpoint.S
        fdoc = gen.mkdoc(paths={"/m": {"get": {"operationId": "mixed", "tags": ["t"], "responses": {
            "200": {"description": "d", "content": {"text/plain": {"schema": S}, "application/json": {"schema": {"$ref": "#/components/schemas/Out"}}}},
            "400": {"description": "d", "content": {"application/json": {"schema": {"$ref": "#/components/schemas/Out"}}}}}}}}, components=json.loads(json.dumps(endpoint.COMPONENTS)))
        gen.generate(fdoc, d / "mix")
        mo = endpoint.run_calls(d, "mix", [{"id": v, "module": "t.mixed", "variant": v, "secured": False, "raise": False, "kwargs": {}, "body": None,
                                            "served": {"status": 200, "ctype": "text/plain", "body_b64": base64.b64encode(b"plain words").decode()}} for v in ("sync_detailed", "sync")])
        for v, o in mo.items():
            rep.count(1, ("mixed", v))
            if isinstance(o, dict) and (o.get("raised") or o.get("truthful_return") is False):
                rep.violate("C11/return-annotation-untruthful/mixed-media-types", f"text/plain + application/json response: {o.get('raised') or o.get('return')} annotated {o.get('return_hint')}")
        packages.append(d / "mix")
        # responses that are unions with non-primitive members, next to other typed statuses (no untyped status: Any would make the union vacuous)
        out_ref, other = {"$ref": "#/components/schemas/Out"}, {"type": "object", "required": ["w"], "properties": {"w": S}}
        prob = {"type": "object", "required": ["title"], "properties": {"title": S}}
        comps = json.loads(json.dumps(endpoint.COMPONENTS))
        comps["schemas"].update({"Other": other, "Problem": prob})
        js = lambda sch: {"description": "d", "content": {"application/json": {"schema": sch}}}
        ufam = {"umodels": ({"200": js({"oneOf": [out_ref, {"$ref": "#/components/schemas/Other"}]}), "404": js({"$ref": "#/components/schemas/Problem"})}, 200, b'{"w": "x"}'),
                "umodels404": ({"200": js({"oneOf": [out_ref, {"$ref": "#/components/schemas/Other"}]}), "404": js({"$ref": "#/components/schemas/Problem"})}, 404, b'{"title": "t"}'),
                "udatetime": ({"200": js({"oneOf": [{"type": "string", "format": "date-time"}, out_ref]}), "404": js({"type": "array", "items": out_ref})}, 200, b'"2020-01-02T03:04:05+00:00"'),
                "unullable": ({"200": js({"oneOf": [out_ref, {"type": "null"}]}), "400": js({"$ref": "#/components/schemas/Problem"})}, 200, b'{"v": 1}'),
                "ulist": ({"200": js({"anyOf": [{"type": "array", "items": out_ref}, {"$ref": "#/components/schemas/Other"}]}), "409": js({"type": "integer"})}, 200, b'[{"v": 2}]')}
        udoc = gen.mkdoc(paths={f"/u/{n}": {"get": {"operationId": n, "tags": ["t"], "responses": rs}} for n, (rs, _, _) in ufam.items()}, components=comps)
        gen.generate(udoc, d / "unionresp")
        uo = endpoint.run_calls(d, "unionresp", [{"id": f"{n}-{v}", "module": f"t.{n}", "variant": v, "secured": False, "raise": False, "kwargs": {}, "body": None,
                                                  "served": {"status": st, "ctype": "application/json", "body_b64": base64.b64encode(body).decode()}}
                                                 for n, (_, st, body) in ufam.items() for v in ("sync_detailed", "sync", "asyncio_detailed", "asyncio")])
        if "__crash__" in uo:
            rep.violate("C11/endpoint-package-broken/union-responses", uo["__crash__"][-400:])
        else:
            for cid, o in uo.items():
                rep.count(1, ("union-response", cid))
                if isinstance(o, dict) and (o.get("raised") or o.get("truthful_return") is False):
                    rep.violate(f"C11/return-annotation-untruthful/union-response/{cid.split('-')[0]}", f"{cid}: {o.get('raised') or o.get('return')} annotated {o.get('return_hint')}")
        packages.append(d / "unionresp")
        # ---- ParamWire.tla W1: every value class admitted by a parameter's annotation is accepted by the encoder (all locations x kinds x
        # required x nullable x enum style, blocking and asyncio)
        paramwire.judge(rep, "C11", d)
        for style in ("class", "literal"):
            if (d / "paramwire" / f"pw_{style}").is_dir():
                packages.append(d / "paramwire" / f"pw_{style}")
        # ---- request universe package + structured + rich documents, for mypy
        reqs = endpoint.enumerate_universe("request", 1, d)
        rops = {}
        for r in reqs:
            rep.tlc(r)
            for c in r.printed:
                rops.setdefault(endpoint.op_key(c["op"]), c["op"])
        doc, _ = endpoint.pack_ops(list(rops.values()))
        for literal in (False, True):
            gen.generate(doc, d / f"req{int(literal)}", literal_enums=literal)
            packages.append(d / f"req{int(literal)}")
        # the generated code must also RUN where it type-checks: the structured families are decoded and encoded (names that only exist under
        # TYPE_CHECKING, helpers that are annotated but not imported ...)
        c02.structured(rep, d, pkg="runs", prop="C11")
        c02.structured(rep, d, pkg="runs_literal", prop="C11", literal_enums=True)
        comps, fam = c02.structured_families()
        g = gen.generate(gen.mkdoc(schemas={**comps, **{k: v[0] for k, v in fam.items()}}), d / "structured")
        if not g["exc"] and not g["rejected"]:
            packages.append(d / "structured")
        for name, rdoc in c12.rich_documents().items():
            if name in ("rich", "zoo", "zoo-warn", "baseline_openapi_3.1.yaml") or not quick:
                pk = d / ("rich_" + "".join(ch if ch.isalnum() else "_" for ch in name))
                g = gen.generate(rdoc, pk)
                if not g["exc"] and not g["rejected"]:
                    packages.append(pk)
        # names the generated MODEL code uses itself (harvested from the code under test on each run) as property names of models whose
        # additional properties need transforming: a loop variable or helper that shares a name with a declared property shows up as a
        # type error (and as wrong behaviour in C18)
        from . import C18 as c18
        _, scopes = c18.harvest(d)
        # names whose capture is a recorded C18 finding (prop, additional_property_item*, ...) are judged there, by name
        import fnmatch, re as _re
        from .. import findings as _findings
        recorded = [m.group(1) for e in _findings.load() if e.get("status") == "open" and e.get("property") == "C18" for m in [_re.search(r"name=([A-Za-z_*]+)", e["key"])] if m]
        owned = [n for n in scopes["model"] if n.isidentifier() and n.islower() and not n.startswith("_") and not any(fnmatch.fnmatchcase(n, pat) for pat in recorded)][:120]
        rep.extra["harvested_model_names_type_checked"] = len(owned)
        cap = {"M": {"type": "object", "required": ["v"], "properties": {"v": {"type": "integer"}}}, "E": {"type": "string", "enum": ["x", "y"]}}
        for i, n in enumerate(owned):
            cap[f"Cap{i}M"] = {"type": "object", "required": [n], "properties": {n: {"type": "integer"}, "zother": {"type": "string"}}, "additionalProperties": {"$ref": "#/components/schemas/M"}}
            cap[f"Cap{i}E"] = {"type": "object", "properties": {n: {"type": "integer"}, "zother": {"type": "string"}}, "additionalProperties": {"$ref": "#/components/schemas/E"}}
            cap[f"Cap{i}L"] = {"type": "object", "properties": {n: {"type": "string"}}, "additionalProperties": {"type": "array", "items": {"type": "string", "format": "date"}}}
        g = gen.generate(gen.mkdoc(schemas=cap), d / "capnames")
        if not g["exc"] and not g["rejected"]:
            packages.append(d / "capnames")
        # parameters named like the endpoint code's own names (harvested), with and without a body: a name that is reserved only under some
        # condition shows up as a redefinition under mypy
        from . import C01 as c01
        g = gen.generate(c01.endpoint_owned_names_document(d), d / "ownnames")
        if not g["exc"] and not g["rejected"]:
            packages.append(d / "ownnames")
        if quick:       # the packed codec packages are large: type-check one of each style + everything else
            keep = [p for p in packages if not p.name.startswith("pk")] + [p for p in packages if p.name == "pk0"]
            packages = keep
        with ThreadPoolExecutor(max_workers=8) as ex:
            results = list(ex.map(lambda p: (p, run_mypy(p, d)), packages))
        total = 0
        for p, errs in results:
            total += 1
            rep.count(1, ("mypy", str(p.relative_to(d))))
            seen = set()
            for e in errs:
                k = classify_mypy(e)
                if k in seen:
                    continue
                seen.add(k)
                rep.violate(f"C11/mypy/{k}", f"mypy ({p.relative_to(d)}): {e[:260]}", package=str(p.relative_to(d)), errors=errs[:8], n_errors=len(errs))
        rep.extra["packages_type_checked"] = total
        rep.traces += 0
        rep.sample({"descriptor": {"kind": "union", "ms": ["date", "modelM"], "req": False, "nul": True}, "law": "type of decoded value is admitted by typing.get_type_hints(cls)['p']"})
        rep.sample({"mypy_flags": ["disallow_any_generics", "disallow_untyped_defs", "warn_redundant_casts", "strict_equality"]})
    finally:
        rmtree(d)
    rep.rule = ("truthfulness: every descriptor of Codec.tla's universe x schema-valid wire class under both enum styles, every response of Endpoint.tla's "
                "response universe x call variant; mypy on the packed codec / endpoint / rich / repository-document packages")
    rep.exhaustive = False
    rep.assumptions += ["mypy's verdict is an observation on model-enumerated packages, not a model result",
                        "dateutil.* has ignore_missing_imports (types-python-dateutil cannot be installed offline)"]
