"""C12 - same document, same bytes: deterministic and order-independent.

Specs: Pipeline.tla (the operational outcome equals ExpectedClasses/Affected, which do not mention document order => order-free; all
orders of every 3-schema document are enumerated) and Emission.tla (a set-valued attribute is never emitted unsorted; the site
census is extracted from the current templates by Jinja2's parser and validated by TLC).  Binding: diagnostics-free documents of
the universe plus rich documents (many model-typed properties, unions, the repository's own documents) are generated in separate
interpreters under several PYTHONHASHSEED values and under permutations of components.schemas / paths; oracle = sha256 equality.
"""
from __future__ import annotations

import itertools
import json
import random

from .. import gen, pipe, tlc, treegen
from ..common import REPO, rmtree, scratch, seed


def site_census() -> list[dict]:
    """Every `for` loop of every template: (template, iterated attribute, goes through sort/dictsort)."""
    import jinja2
    from jinja2 import nodes
    tdir = REPO / "openapi_python_client" / "templates"
    env = jinja2.Environment(extensions=["jinja2.ext.loopcontrols"])
    sites = []
    for f in sorted(tdir.rglob("*.jinja")):
        ast = env.parse(f.read_text())
        for node in ast.find_all(nodes.For):
            it = node.iter
            is_sorted = False
            while isinstance(it, nodes.Filter):
                if it.name in ("sort", "dictsort"):
                    is_sorted = True
                it = it.node
            if isinstance(it, nodes.Getattr):
                attr = it.attr
            elif isinstance(it, nodes.Name):
                attr = it.name
            elif isinstance(it, nodes.Call) and isinstance(it.node, nodes.Getattr):
                attr = it.node.attr
                if attr == "items" and isinstance(it.node.node, nodes.Getattr):
                    attr = it.node.node.attr
            elif isinstance(it, nodes.Add):
                attr = "required_plus_optional"
            else:
                attr = type(it).__name__
            if f.name == "literal_enum.py.jinja" and attr == "values":
                attr = "values_literal"
            sites.append({"tpl": str(f.relative_to(tdir)), "attr": attr, "sorted": is_sorted, "line": node.lineno})
    return sites


def rich_documents() -> dict:
    S = {"type": "string"}
    def r(n):
        return {"$ref": f"#/components/schemas/{n}"}
    names = ["Zed", "Alpha", "Mid", "Beta", "Quux", "Gamma"]
    schemas = {}
    for i, n in enumerate(names):
        others = [m for m in names if m != n]
        schemas[n] = {"type": "object", "required": ["a"], "properties": {
            "a": r(others[0]), "b": r(others[1]), "c": r(others[2]), "d": {"type": "array", "items": r(others[3])},
            "e": {"oneOf": [r(others[4]), r(others[0]), {"type": "null"}]}, "f": {"type": "string", "enum": ["x", "y", "z"]},
            "g": {"type": "string", "format": "date-time"}, "h": {"type": "string", "format": "uuid"},
            "i": {"type": "object", "properties": {"q": r(others[1])}}},
            "additionalProperties": r(others[2])}
    schemas["Child"] = {"allOf": [r("Alpha"), {"type": "object", "properties": {"own": r("Beta")}}]}
    schemas["Kid"] = {"allOf": [r("Alpha"), {"type": "object", "required": ["b"], "properties": {"extra": S}}]}
    schemas["Base"] = {"type": "object", "properties": {"first": S, "email": S, "z": {"type": "integer"}}}
    schemas["GuestA"] = {"allOf": [r("Base"), {"type": "object", "required": ["email"]}]}
    schemas["GuestB"] = {"allOf": [r("Base"), {"type": "object", "properties": {"more": S}}]}
    schemas["Lit"] = {"type": "string", "enum": ["b", "a", "c"]}
    # legal but unusual: `required` names properties nobody declares, repeats names, and names inherited ones
    schemas["Ghosts"] = {"type": "object", "required": ["ghost_b", "real", "ghost_a", "ghost_c", "ghost_a", "ghost_d"], "properties": {"real": S}}
    schemas["GhostKid"] = {"allOf": [r("Ghosts"), {"type": "object", "required": ["phantom_z", "phantom_y", "real", "phantom_x"], "properties": {"own": S}}]}
    # a union with an INLINE member that extends a component, an alias of a model that has a parent itself: whether the parent comes first or last
    schemas["Shelter"] = {"type": "object", "properties": {"resident": {"oneOf": [{"allOf": [r("Late"), {"type": "object", "properties": {"k": S}}]}, r("Beta")]},
                                                           "keeper": {"anyOf": [{"allOf": [r("Late")], "description": "wrapped"}, {"type": "integer"}]}}}
    schemas["KidAlias"] = {"allOf": [r("Kid")]}
    schemas["UsesAlias"] = {"type": "object", "properties": {"k": r("KidAlias"), "ks": {"type": "array", "items": r("KidAlias")}}}
    schemas["Late"] = {"type": "object", "properties": {"n": S}}
    paths = {}
    for i, n in enumerate(names):
        # the first tag (the one that decides the module) of four operations is spelled in three ways that give one module name
        paths[f"/{n.lower()}/{{id}}"] = {"get": {"operationId": f"get{n}", "tags": [["grp", "Grp", "GRP", "grp"][i] if i < 4 else n.lower(), "all"], "parameters": [
            {"name": "id", "in": "path", "required": True, "schema": S}, {"name": "f", "in": "query", "schema": r("Lit")},
            {"name": "when", "in": "query", "schema": {"type": "string", "format": "date"}},
            {"name": "w", "in": "query", "schema": {"oneOf": [{"type": "string", "format": "date-time"}, {"type": "integer"}]}},
            {"name": "X-H", "in": "header", "schema": S}],
            "requestBody": {"content": {"application/json": {"schema": r(n)}, "multipart/form-data": {"schema": r(names[(i + 1) % 6])}}},
            "responses": {"200": {"description": "d", "content": {"application/json": {"schema": r(n)}}},
                          "404": {"description": "d", "content": {"application/json": {"schema": r(names[(i + 2) % 6])}}},
                          "409": {"description": "d", "content": {"application/json": {"schema": {"type": "array", "items": r("Child")}}}},
                          # shared component responses / parameters / bodies whose schemas are written INLINE (classes are named after the user)
                          "422": {"$ref": "#/components/responses/Problem"}, "503": {"$ref": "#/components/responses/Problem"}}}}
        paths[f"/{n.lower()}/{{id}}"]["get"]["parameters"].append({"$ref": "#/components/parameters/Mode"})
    paths["/shared"] = {"post": {"operationId": "sharedBody", "tags": ["all"], "requestBody": {"$ref": "#/components/requestBodies/Inline"}, "responses": {"422": {"$ref": "#/components/responses/Problem"}}},
                        "put": {"operationId": "sharedBody2", "tags": ["all"], "requestBody": {"$ref": "#/components/requestBodies/Inline"}, "responses": {"422": {"$ref": "#/components/responses/Problem"}}}}
    comps = {"responses": {"Problem": {"description": "d", "content": {"application/json": {"schema": {"type": "object", "properties": {"code": {"type": "string", "enum": ["e1", "e2"]},
                                                                                                                                  "detail": {"type": "object", "properties": {"why": S}}}}}}}},
             "parameters": {"Mode": {"name": "mode", "in": "query", "schema": {"type": "string", "enum": ["fast", "slow"]}}},
             "requestBodies": {"Inline": {"content": {"application/json": {"schema": {"type": "object", "properties": {"payload": {"type": "object", "properties": {"x": S}}}}}}}}}
    from .. import zoo
    docs = {"rich": gen.mkdoc(schemas=schemas, paths=paths, components=comps), "zoo": zoo.zoo_clean(), "zoo-warn": zoo.zoo_warn()}
    e2e = REPO / "end_to_end_tests"
    from ruamel.yaml import YAML
    for f in ["baseline_openapi_3.0.json", "baseline_openapi_3.1.yaml", "3.1_specific.openapi.yaml", "literal_enums.openapi.yaml"]:
        p = e2e / f
        if p.exists():
            docs[f] = json.loads(p.read_text()) if f.endswith(".json") else YAML(typ="safe").load(p)
    return docs


def permuted(doc: dict, rnd, k: int = 1) -> dict:
    """k = 0: both sections reversed (deterministic: what came first comes last); otherwise a random shuffle."""
    d = json.loads(json.dumps(doc))
    sch = (d.get("components") or {}).get("schemas")
    if sch:
        items = list(sch.items())
        items.reverse() if k == 0 else rnd.shuffle(items)
        d["components"]["schemas"] = dict(items)
    if d.get("paths"):
        items = list(d["paths"].items())
        items.reverse() if k == 0 else rnd.shuffle(items)
        d["paths"] = dict(items)
    return d


def run(rep) -> None:
    quick = rep.tier == "quick"
    rnd = random.Random(seed() * 1031 + 12)
    d = scratch("c12-")
    try:
        # ---- model: order-free outcome + emission discipline
        cases = pipe.run_universe(rep, 3, d)
        sites = site_census()
        (d / "sites.ndjson").write_text("\n".join(json.dumps(s) for s in sites) + "\n")
        res = tlc.run_tlc("Emission.tla", "Emission.cfg", workers=1, env={"TRACE_FILE": str(d / "sites.ndjson")})
        rep.tlc(res)
        post = [p for p in res.printed if isinstance(p, dict) and "unsafe" in p]
        if not post or post[0]["consumed"] != len(sites):
            raise tlc.TlcFailure("Emission census not validated:\n" + res.out[-1500:])
        rep.traces += len(sites)
        rep.extra["emission_sites"] = len(sites)
        for s in post[0]["unknown"]:
            rep.drifted(mode="emission-site", site=s)
        for s in post[0]["unsafe"]:
            rep.notes.append(f"Emission.tla: set-valued attribute emitted unsorted at {s}")
            rep.extra.setdefault("unsafe_sites", []).append(s)
        # ---- documents
        clean = [c for c in cases if not c["errs"] and not c["bad"]]
        strata: dict = {}
        for c in clean:
            strata.setdefault(pipe.sig(c["doc"]), []).append(c)
        picked = [rnd.choice(v) for _, v in sorted(strata.items())][: (60 if quick else 400)]
        docs = {f"u{i}": pipe.concretize(c["doc"]) for i, c in enumerate(picked)}
        docs.update(rich_documents())
        rep.extra["documents"] = len(docs)
        seeds = [0, 1, 2, 3, 1000 + seed() % 977, 2000 + (seed() * 7) % 991] if not quick else [0, 1, 2, 1000 + seed() % 977]
        procs = []
        for s in seeds:
            jobs = [(doc, str(d / f"s{s}" / name.replace("/", "_")), {}) for name, doc in docs.items()]
            (d / f"s{s}").mkdir()
            procs.append((s, treegen.generate_batch_subprocess(jobs, d, s, f"seed{s}", wait=False)))
        # with the default formatting post-hooks (ruff from /venv/bin) on the rich documents, two seeds
        import os
        hook_docs = {k: v for k, v in docs.items() if not k.startswith("u")}
        for s in seeds[:2]:
            jobs = [(doc, str(d / f"h{s}" / name.replace("/", "_")), {"post_hooks": ["ruff check . --fix --extend-select=I", "ruff format ."]})
                    for name, doc in hook_docs.items()]
            (d / f"h{s}").mkdir()
            procs.append((f"hooks{s}", treegen.generate_batch_subprocess(jobs, d, s, f"hooks{s}", wait=False,
                                                                         extra_env={"PATH": "/venv/bin:" + os.environ.get("PATH", "")})))
        results = {}
        for s, (p, rf) in procs:
            _, err = p.communicate()
            if p.returncode != 0:
                raise RuntimeError(f"generation batch failed (seed {s}): {err[-1500:]}")
            results[s] = json.loads(rf.read_text())
        names = list(docs)
        base = results[seeds[0]]
        for s in seeds[1:]:
            for name, a, b in zip(names, base, results[s]):
                rep.count(1, (name, s))
                if a["exc"] or b["exc"]:
                    continue
                if a["snap"] != b["snap"]:
                    diff = sorted(k for k in set(a["snap"]) | set(b["snap"]) if a["snap"].get(k) != b["snap"].get(k))
                    kind = "models" if any("models/" in x for x in diff) else ("api" if any("api/" in x for x in diff) else "other")
                    rep.violate(f"C12/hash-seed/{kind}", f"{name}: trees differ between PYTHONHASHSEED={seeds[0]} and {s}: {diff[:5]}",
                                document=name, seeds=[seeds[0], s], files=diff, doc=docs[name] if len(json.dumps(docs[name])) < 20000 else "(large)")
        hnames = list(hook_docs)
        ha, hb = results[f"hooks{seeds[0]}"], results[f"hooks{seeds[1]}"]
        for name, a, b in zip(hnames, ha, hb):
            rep.count(1, (name, "hooks"))
            if a["snap"] != b["snap"]:
                diff = sorted(k for k in set(a["snap"]) | set(b["snap"]) if a["snap"].get(k) != b["snap"].get(k))
                rep.violate("C12/hash-seed/with-post-hooks", f"{name}: formatted trees differ between hash seeds: {diff[:5]}", document=name, files=diff)
        # ---- permutations of components.schemas and paths (diagnostics-free documents only)
        jobs, meta, suspicious = [], [], []
        for name, doc in docs.items():
            if any(x["diags"] for x in [base[names.index(name)]]):
                rep.extra.setdefault("permutation_leg_skipped_documents_with_diagnostics", []).append(name)
                if name not in ("rich", "zoo"):
                    continue
                # the hand-written family documents are valid: diagnostics in the order they are written in are either an effect of that order
                # (decided by the permutations below) or the leg is about to lose its richest input unnoticed (machinery failure)
                suspicious.append(name)
            for k in range(3 if quick else 6):
                pd = permuted(doc, rnd, k)
                jobs.append((pd, str(d / "perm" / f"{name.replace('/', '_')}-{k}"), {}))
                meta.append((name, k, pd))
        (d / "perm").mkdir()
        res2 = treegen.generate_many(jobs)
        for (name, k, pd), r in zip(meta, res2):
            rep.count(1, (name, "perm", k))
            if r["exc"]:
                rep.violate("C12/permutation/crash", f"{name}: permuted document raised", exc=r["exc"])
                continue
            snap = gen.snapshot(d / "perm" / f"{name.replace('/', '_')}-{k}")
            ref = base[names.index(name)]["snap"]
            if name in suspicious:
                bd = sorted((x["header"], x["detail"]) for x in base[names.index(name)]["diags"])
                if sorted((x["header"], x["detail"]) for x in r["diags"]) != bd or snap != ref:
                    rep.violate("C12/permutation/diagnostics-depend-on-order", f"{name}: a valid document is reported on in the order it is written in ({bd[0][0].strip()[:80]} ...) "
                                "and reordering components.schemas/paths changes the diagnostics or the tree", document=name, diags=base[names.index(name)]["diags"][:3])
                    suspicious.remove(name)
                continue
            if r["diags"]:
                rep.violate("C12/permutation/diagnostics-appear", f"{name}: reordering made diagnostics appear", document=name,
                            diags=r["diags"][:3], doc=pd if len(json.dumps(pd)) < 20000 else "(large)")
            elif snap != ref:
                diff = sorted(x for x in set(snap) | set(ref) if snap.get(x) != ref.get(x))
                kind = "file-set" if set(snap) != set(ref) else "contents"
                rep.violate(f"C12/permutation/{kind}", f"{name}: reordering components.schemas/paths changes the tree: {diff[:5]}",
                            document=name, files=diff, doc=pd if len(json.dumps(pd)) < 20000 else "(large)")
        if suspicious:
            raise tlc.TlcFailure(f"the documents {suspicious} produce diagnostics in every order and are left out of the permutation leg: "
                                 f"{base[names.index(suspicious[0])]['diags'][:2]}")
        rep.sample({"document": "rich (6 mutually referencing models with 9 properties each, allOf children, 6 operations)", "seeds": seeds})
        rep.sample({"emission_site": sites[0]})
    finally:
        rmtree(d)
    rep.rule = ("diagnostics-free documents of Pipeline.tla's universe (one per kind signature) + a rich synthetic document + the repository's "
                "documents, each generated in fresh interpreters under 4-6 hash seeds (2 with the ruff post-hooks) and under random permutations "
                "of components.schemas and paths; non-trivial = (document, seed) or (document, permutation)")
    rep.exhaustive = False
    rep.assumptions += ["PYTHONHASHSEED is the only process-level nondeterminism (no threads, no clocks in the generator)"]
