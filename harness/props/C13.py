"""C13 - declared defaults become equal Python defaults, bad defaults are rejected.

Spec: Convert.tla (every convert_value transcribed as a case table over 20 kinds x 24 JSON value classes; declarative WellTyped /
IllTyped / Lenient; laws D1 (a well-typed default becomes a default that encodes to the declared value) and D2 (an ill-typed default is
rejected)).  TLC evaluates D1/D2 on the whole table - refutations are design-level counterexamples.  Binding A: every (kind, value) cell is
built into a real model property (routes: direct, through a $ref wrapper, through an allOf override; Enum classes and literal_enums), the
document is generated, instances are constructed with the argument omitted in a sandbox and encoded; ill-typed cells must be diagnosed,
their class absent and the literal nowhere in the tree.  Binding B: real outcomes are validated against the table by ConvertTrace (TLC).
"""
from __future__ import annotations

import json

from .. import codec, gen, tlc
from ..common import rmtree, scratch

VAL = {"null": None, "true": True, "false": False, "i0": 0, "i1": 1, "im1": -1, "f10": 1.0, "f15": 1.5, "sabc": "abc", "s1": "1", "s15": "1.5",
       "strue": "true", "sTRUE": "TRUE", "sdate": "2020-01-02", "sdt": "2020-01-02T03:04:05+00:00", "suuid": "12345678-1234-5678-1234-567812345678",
       "sNone": "None", "arr": [], "obj": {}, "sa": "a", "szzz": "zzz", "squote": 'a"b', "i2": 2, "i7": 7, "ibig": 2 ** 53 + 1, "imax": 2 ** 63 - 1}
ES = {"type": "string", "enum": ["a", "b"]}
EI = {"type": "integer", "enum": [1, 2]}
KIND = {"string": {"type": "string"}, "int": {"type": "integer"}, "float": {"type": "number"}, "bool": {"type": "boolean"},
        "date": {"type": "string", "format": "date"}, "datetime": {"type": "string", "format": "date-time"}, "uuid": {"type": "string", "format": "uuid"},
        "enums": ES, "enumi": EI, "lits": ES, "liti": EI, "consts": {"const": "abc"}, "consti": {"const": 1}, "any": {}, "none": {"type": "null"},
        "file": {"type": "string", "format": "binary"}, "list": {"type": "array", "items": {"type": "integer"}},
        "model": {"allOf": [{"$ref": "#/components/schemas/M"}]}, "uintstr": {"type": ["integer", "string"]},
        "udateint": {"oneOf": [{"type": "string", "format": "date"}, {"type": "integer"}]},
        "umodelstr": {"oneOf": [{"$ref": "#/components/schemas/M"}, {"type": "string"}]}, "umodelint": {"oneOf": [{"$ref": "#/components/schemas/M"}, {"type": "integer"}]}}
OTHER = {"string": ["zzz", "yyy"], "int": [7, 8], "float": [2.5, 3.5], "bool": [True, False], "date": ["2021-02-03", "2022-03-04"],
         "datetime": ["2021-02-03T04:05:06+00:00", "2022-03-04T05:06:07+00:00"], "uuid": ["22345678-1234-5678-1234-567812345678", "32345678-1234-5678-1234-567812345678"],
         "enums": ["a", "b"], "enumi": [1, 2]}
PYTYPE = {"str": "str", "int": "int", "float": "float", "bool": "bool", "date": "date", "datetime": "datetime", "UUID": "UUID", "NoneType": "None"}


def cell_schema(k: str, v: str, route: str) -> dict:
    s = dict(KIND[k])
    if route == "ref":          # default written next to a single-reference wrapper of a component
        return {"allOf": [{"$ref": f"#/components/schemas/K{k}"}], "default": VAL[v]}
    s["default"] = VAL[v]
    return s


def build(cells, route: str, literal: bool, d, pkg: str):
    schemas = {"M": {"type": "object", "properties": {"v": {"type": "integer"}}}}
    for k in KIND:
        if k not in ("model",):
            schemas[f"K{k}"] = KIND[k]
    cases = []
    for i, (k, v) in enumerate(cells):
        cls = f"D{pkg.upper()}X{i}"
        if route in ("allofover", "allofover2"):
            # the base declares ANOTHER (valid) default - untyped, or with the same type; the later member's default is the declared one
            other = next(x for x in OTHER[k] if json.dumps(x) != json.dumps(VAL[v]))
            schemas[cls + "Base"] = {"type": "object", "properties": {"p": {"default": other} if route == "allofover" else dict(KIND[k], default=other)}}
            schemas[cls] = {"allOf": [{"$ref": f"#/components/schemas/{cls}Base"}, {"type": "object", "properties": {"p": cell_schema(k, v, "direct")}}]}
        elif route.startswith("over:"):
            # the base declares ANOTHER declaration of the same property class (a const with another value, a union with other members)
            schemas[cls + "Base"] = {"type": "object", "properties": {"p": KIND[route[5:]]}}
            schemas[cls] = {"allOf": [{"$ref": f"#/components/schemas/{cls}Base"}, {"type": "object", "properties": {"p": cell_schema(k, v, "direct")}}]}
        elif route == "allof":
            schemas[cls + "Base"] = {"type": "object", "properties": {"p": KIND[k]}}
            schemas[cls] = {"allOf": [{"$ref": f"#/components/schemas/{cls}Base"}, {"type": "object", "properties": {"p": cell_schema(k, v, "direct")}}]}
        else:
            schemas[cls] = {"type": "object", "properties": {"p": cell_schema(k, v, route)}}
        cases.append({"cls": cls, "prop": "p", "wires": [], "construct_empty": True})
    doc = gen.mkdoc(schemas=schemas)
    g = gen.generate(doc, d / pkg, literal_enums=literal)
    return doc, g, cases


def judge(rep, cells, table, route, literal, doc, g, cases, out, snap_text: str, trace: list) -> None:
    texts = [(x["header"] + "\n" + x["detail"]) for x in g["diags"]]
    for (k, v), c in zip(cells, cases):
        m = table[(k, v)]
        rr = out["results"].get(c["cls"], {})
        generated = not rr.get("__missing__")
        diagnosed = any(c["cls"] in t for t in texts)
        ctor = rr.get("__ctor__", {}) if generated else {}
        rep.count(1, (k, v, route, literal))
        if generated and ctor.get("raise") and ctor["raise"] != "TypeError":
            real = "crash:" + ctor["raise"]
        elif not generated:
            real = "err"
        elif ctor.get("py") == "Unset":
            real = "none"
        else:
            real = "val"
        pred = m["out"][0]
        enc = ctor.get("enc") if real == "val" else None
        def _same(a, b):
            if isinstance(a, (int, float)) and isinstance(b, (int, float)) and not isinstance(a, bool) and not isinstance(b, bool):
                return a == b
            return json.dumps(a) == json.dumps(b)
        if (route == "direct" or route.startswith("over:")) and (real != pred or (real == "val" and m["out"][2] in VAL and not _same(enc, VAL[m["out"][2]]))):
            rep.drifted(mode="convert", k=k, v=v, literal=literal, model=m["out"], real=[real, ctor.get("py"), enc])
        if route == "direct":
            trace.append({"tid": len(trace) + 1, "k": k, "v": v, "real": real, "enc_is_v": real == "val" and json.dumps(enc) == json.dumps(VAL[v])})
        sig = f"{k}/{v}/{route}" + ("/literal" if literal else "")
        if not generated and not diagnosed:
            rep.violate(f"C13/dropped-without-diagnostic/{sig}", f"default {VAL[v]!r} for {k}: class missing and no diagnostic names it", k=k, v=VAL[v])
            continue
        if real.startswith("crash"):
            rep.violate(f"C13/default-crashes-at-construction/{sig}", f"default {VAL[v]!r} for {k}: constructing the model raises {ctor}", k=k, v=VAL[v])
            continue
        if m["well"]:
            if real == "err":
                rep.violate(f"C13/well-typed-default-rejected/{sig}", f"default {VAL[v]!r} is a valid {k} but was rejected: {[t[:150] for t in texts if c['cls'] in t][:1]}", k=k, v=VAL[v])
            elif real == "none":
                rep.violate(f"C13/well-typed-default-dropped/{sig}", f"default {VAL[v]!r} for {k}: the constructor default is UNSET", k=k, v=VAL[v])
            else:
                if json.dumps(enc) != json.dumps(VAL[v]) and not (isinstance(enc, (int, float)) and isinstance(VAL[v], (int, float)) and not isinstance(enc, bool) and enc == VAL[v]):
                    rep.violate(f"C13/default-altered/{sig}", f"default {VAL[v]!r} for {k}: omitting the argument encodes {enc!r}", k=k, v=VAL[v], got=enc, ctor=ctor)
                want = {"date": "date", "datetime": "datetime", "uuid": "UUID", "enums": "Enum:", "enumi": "Enum:", "int": "int", "float": ("float", "int"), "bool": "bool",
                        "string": "str"}.get(k)
                py = ctor.get("py", "")
                if want and not literal and not (py.startswith(want) if isinstance(want, str) else py in want):
                    rep.violate(f"C13/default-wrong-python-type/{sig}", f"default {VAL[v]!r} for {k} is a {py}, expected {want}", k=k, v=VAL[v], ctor=ctor)
        elif m["ill"]:
            if real != "err":
                rep.violate(f"C13/ill-typed-default-accepted/{k}/{v}" + ("/literal" if literal else "") + (f"/{route}" if route != "direct" else ""),
                            f"default {VAL[v]!r} is not a valid {k} but was emitted: constructor default {ctor.get('value_repr')} encodes {enc!r}",
                            k=k, v=VAL[v], ctor=ctor, schema=cell_schema(k, v, route))
            elif isinstance(VAL[v], str) and len(VAL[v]) > 3 and f'"{VAL[v]}"' in snap_text and False:
                pass


def enum_reuse(rep, d) -> None:
    """A default belongs to the USE of an enum, not to the (shared) class: same-named, same-valued enums with different defaults."""
    combos = [("a", "b"), (None, "b"), ("a", None), ("b", "b"), ("a", "zzz")]
    for literal in (False, True):
        for order in ("component-first", "holder-first"):
            schemas = {}
            exp = {}
            for i, (cdef, idef) in enumerate(combos):
                comp = {"type": "string", "enum": ["a", "b"], **({"default": cdef} if cdef is not None else {})}
                inl = {"type": "string", "enum": ["a", "b"], **({"default": idef} if idef is not None else {})}
                h = {"type": "object", "properties": {"e": inl, "viaref": {"allOf": [{"$ref": f"#/components/schemas/Reuse{i}E"}]}}}
                items = [(f"Reuse{i}E", comp), (f"Reuse{i}", h)]
                if order == "holder-first":
                    items.reverse()
                schemas.update(dict(items))
                exp[f"Reuse{i}"] = (cdef, idef)
            pkg = f"reuse{int(literal)}{order[0]}"
            g = gen.generate(gen.mkdoc(schemas=schemas), d / pkg, literal_enums=literal)
            if g["exc"] or g["rejected"]:
                rep.violate("C13/enum-reuse/generator-crash", f"{(g['exc'] or str(g['diags'][:1]))[-300:]}")
                continue
            texts = [(x["header"] + "\n" + x["detail"]) for x in g["diags"]]
            cases = [{"cls": k, "prop": "e", "wires": [], "construct_empty": True} for k in exp]
            out = codec.run_sandbox(d, pkg, cases)
            if "__crash__" in out:
                rep.violate("C13/enum-reuse/package-broken", out["__crash__"][-300:])
                continue
            for k, (cdef, idef) in exp.items():
                rr = out["results"][k]
                rep.count(1, ("enum-reuse", k, literal, order))
                tag = f"{'literal' if literal else 'class'}/{order}"
                if idef == "zzz":
                    if not rr.get("__missing__") and rr.get("__ctor__", {}).get("py") != "Unset" or (not rr.get("__missing__") and not any(k in t for t in texts)):
                        if not any(k in t for t in texts):
                            rep.violate(f"C13/enum-reuse/invalid-default-not-diagnosed/{tag}", f"{k}: inline enum default 'zzz' is not a member but nothing is reported", observed=rr.get("__ctor__"))
                    continue
                if rr.get("__missing__"):
                    rep.violate(f"C13/enum-reuse/holder-missing/{tag}", f"{k} not generated: {[t[:120] for t in texts if k in t][:1]}")
                    continue
                enc = rr["__ctor__"].get("enc")
                want = "__ABSENT__" if idef is None else idef
                if enc != want:
                    rep.violate(f"C13/enum-reuse/default-of-other-use/{tag}", f"{k}.e declares default {idef!r} (the same-named component declares {cdef!r}) but omitting the argument encodes {enc!r}",
                                component_default=cdef, inline_default=idef, got=enc)


PARAM_DEFAULTS = {"string": ("zzz", "zzz"), "int": (7, "7"), "float": (2.5, "2.5"), "bool": (True, "true"), "date": ("2021-02-03", "2021-02-03"),
                  "datetime": ("2021-02-03T04:05:06+00:00", "2021-02-03T04:05:06+00:00"), "uuid": ("22345678-1234-5678-1234-567812345678", "22345678-1234-5678-1234-567812345678"),
                  "enums": ("b", "b"), "enumi": (2, "2")}


def parameter_defaults(rep, d) -> None:
    """D1 for PARAMETERS: a default declared on a query / header / cookie / path parameter is the default of the function argument - calling
    the endpoint with the argument omitted sends exactly the declared value.  Path parameters: the defaulted one last (after one without a
    default), and all of them defaulted."""
    paths, plan = {}, []
    n = 0
    for literal in (False, True):
        pass
    for k, (dv, text) in PARAM_DEFAULTS.items():
        sch = dict(KIND[k], default=dv)
        for loc in ("query", "header", "cookie", "path-last", "path-all"):
            if loc == "header" and k in ("date", "datetime"):
                continue            # not an allowed header kind
            n += 1
            if loc == "path-last":
                path = f"/t{n}/{{tenant}}/r/{{p}}"
                params = [{"name": "tenant", "in": "path", "required": True, "schema": {"type": "string"}}, {"name": "p", "in": "path", "required": True, "schema": sch}]
            elif loc == "path-all":
                path = f"/t{n}/{{tenant}}/r/{{p}}"
                params = [{"name": "tenant", "in": "path", "required": True, "schema": {"type": "string", "default": "acme"}}, {"name": "p", "in": "path", "required": True, "schema": sch}]
            else:
                path = f"/t{n}"
                params = [{"name": "p", "in": loc, "required": False, "schema": sch}]
            paths[path] = {"get": {"operationId": f"pd{n}", "tags": ["t"], "parameters": params, "responses": {"204": {"description": "d"}}}}
            plan.append({"op": f"pd{n}", "k": k, "loc": loc, "text": text})
    doc = gen.mkdoc(paths=paths)
    for literal in (False, True):
        pkg = f"pdef{int(literal)}"
        g = gen.generate(doc, d / pkg, literal_enums=literal)
        if g["exc"] or g["rejected"] or g["diags"]:
            rep.violate(f"C13/parameter-defaults/not-generated{'/literal' if literal else ''}", f"{(g['exc'] or str(g['diags'][:2]))[-400:]}", doc=doc)
            continue
        script = r'''
import json, sys, importlib
from urllib.parse import parse_qsl, unquote
import httpx
job = json.load(sys.stdin); sys.path.insert(0, job["parent"]); pkg = job["pkg"]
client_mod = importlib.import_module(pkg + ".client")
out = {}
for c in job["plan"]:
    seen = []
    def handler(request, seen=seen):
        seen.append(request); return httpx.Response(204)
    try:
        mod = importlib.import_module(f"{pkg}.api.t.{c['op']}")
        client = client_mod.Client(base_url="http://t/b", httpx_args={"transport": httpx.MockTransport(handler)})
        kw = {"tenant": "acme"} if c["loc"] == "path-last" else {}
        mod.sync_detailed(client=client, **kw)
        r = seen[0]
        if c["loc"].startswith("path"):
            got = unquote(r.url.raw_path.decode().split("?")[0].rsplit("/", 1)[-1]); tenant = r.url.raw_path.decode().split("/")[3]
            out[c["op"]] = {"got": got, "tenant": tenant}
        elif c["loc"] == "query":
            out[c["op"]] = {"got": dict(parse_qsl(r.url.query.decode())).get("p")}
        elif c["loc"] == "header":
            out[c["op"]] = {"got": r.headers.get("p")}
        else:
            ck = dict(x.strip().split("=", 1) for x in r.headers.get("cookie", "").split(";") if "=" in x)
            out[c["op"]] = {"got": ck.get("p")}
    except Exception as e:
        out[c["op"]] = {"error": type(e).__name__ + ": " + str(e)[:160]}
print(json.dumps(out))
'''
        import subprocess
        from ..common import VENV_PY
        p = subprocess.run([VENV_PY, "-I", "-c", script], input=json.dumps({"parent": str(d), "pkg": pkg, "plan": plan}), capture_output=True, text=True, timeout=300)
        if p.returncode != 0:
            rep.violate(f"C13/parameter-defaults/package-broken{'/literal' if literal else ''}", p.stderr[-500:], doc=doc)
            continue
        out = json.loads(p.stdout.strip().splitlines()[-1])
        for c in plan:
            o = out[c["op"]]
            rep.count(1, ("param-default", c["k"], c["loc"], literal))
            key = f"C13/parameter-default/{c['loc']}/{c['k']}" + ("/literal" if literal else "")
            want = c["text"]
            if c["loc"].startswith("path"):         # str() of the value in a path (ParamWire.tla: pycap / spacedt are recoverable forms)
                want = {"bool": "True", "datetime": c["text"].replace("T", " ")}.get(c["k"], want)
            if "error" in o:
                rep.violate(key + "/omitted-argument-fails", f"{c['loc']} parameter of kind {c['k']} with default {c['text']!r}: calling with the argument omitted fails: {o['error']}", case=c)
            elif o["got"] != want:
                rep.violate(key + "/not-sent", f"{c['loc']} parameter of kind {c['k']} with default {c['text']!r}: the request carries {o['got']!r}", case=c, observed=o)
            elif c["loc"] == "path-all" and o.get("tenant") != "acme":
                rep.violate(key + "/other-default-lost", f"the defaulted path parameter before it carries {o.get('tenant')!r}", case=c, observed=o)


def run(rep) -> None:
    quick = rep.tier == "quick"
    d = scratch("c13-")
    try:
        cfg = tlc.write_cfg(d / "conv.cfg", {}, ["Emit", "LawD1", "LawD2", "LawD3"])
        res = tlc.run_tlc("ConvertMC.tla", cfg, workers=1, extra=["-continue"])
        rep.tlc(res)
        table = {(p["k"], p["v"]): p for p in res.printed}
        if len(table) < 400:
            raise tlc.TlcFailure("Convert table not emitted")
        rep.extra["table_cells"] = len(table)
        rep.extra["D1_refuted_on_model"] = [(p["k"], p["v"]) for p in res.printed if not p["d1"]]
        rep.extra["D2_refuted_on_model"] = [(p["k"], p["v"]) for p in res.printed if not p["d2"]]
        trace: list = []
        plans = [("direct", False, [c for c in table if c[0] not in ("lits", "liti")], "dn"),
                 ("direct", True, [c for c in table if c[0] in ("lits", "liti")], "dl"),
                 ("ref", False, [c for c in table if c[0] in ("enums", "enumi", "string", "int", "date")], "rn"),
                 ("ref", True, [c for c in table if c[0] in ("lits", "liti")], "rl"),
                 ("allof", False, [c for c in table if c[0] in ("enums", "enumi", "string", "int", "float", "bool", "date", "datetime", "uuid")], "an"),
                 ("allofover", False, [c for c in table if c[0] in OTHER and table[c]["well"]], "ao"),
                 ("allofover2", False, [c for c in table if c[0] in OTHER and table[c]["well"]], "ap")]
        rep.extra["D3_refuted_on_model"] = sorted(x for x in res.violated if x == "LawD3")
        # an allOf override inside one property class (Convert.tla: SameClass, ConvertOver, D3): the table per base kind
        over = {}
        for p in res.printed:
            for o in p["over"]:
                over.setdefault(o["kp"], {})[(p["k"], p["v"])] = {"out": o["out"], "well": False, "ill": o["ill"], "k": p["k"], "v": p["v"]}
        overtables = {}
        for n, (kp, t) in enumerate(sorted(over.items())):
            plans.append((f"over:{kp}", False, list(t), f"ov{n}"))
            overtables[f"over:{kp}"] = t
        for route, literal, cells, pkg in plans:
            cells = [c for c in cells if c[1] != "null"]
            doc, g, cases = build(cells, route, literal, d, pkg)
            if g["exc"] or g["rejected"]:
                rep.violate(f"C13/generator-crash/{route}", f"defaults document ({route}, literal={literal}) failed: {(g['exc'] or str(g['diags'][:1]))[-400:]}", doc=doc if len(json.dumps(doc)) < 30000 else "(large)")
                continue
            out = codec.run_sandbox(d, pkg, cases)
            if "__crash__" in out:
                rep.violate(f"C13/generated-package-broken/{route}{'/literal' if literal else ''}", "package with defaults does not import: " + out["__crash__"][-500:])
                continue
            mapped = {(k, v): overtables.get(route, table)[(k, v)] for k, v in cells}
            if route != "direct":
                # through a reference / allOf override the outcome classes are the same table (re-conversion against the referenced / merged type)
                pass
            judge(rep, cells, mapped, route, literal, doc, g, cases, out, "", trace)
        enum_reuse(rep, d)
        parameter_defaults(rep, d)
        # code -> spec: outcomes of the direct route validated against Convert.tla by TLC
        (d / "obs.ndjson").write_text("\n".join(json.dumps(e) for e in trace) + "\n")
        tres = tlc.run_tlc("ConvertTrace.tla", "ConvertTrace.cfg", workers=1, env={"TRACE_FILE": str(d / "obs.ndjson")})
        rep.tlc(tres)
        post = [p for p in tres.printed if isinstance(p, dict) and "nonconforming" in p]
        if not post or post[0]["consumed"] != len(trace):
            raise tlc.TlcFailure("ConvertTrace did not consume the observations")
        rep.traces += len(trace)
        rep.extra["trace_nonconforming"] = len(post[0]["nonconforming"])
        rep.extra["trace_D1_failures_by_TLC"] = len(post[0]["d1"])
        rep.extra["trace_D2_failures_by_TLC"] = len(post[0]["d2"])
        rep.sample({"kind": "date", "default": "2020-01-02", "expected": "isoparse('2020-01-02').date(); omitted argument encodes '2020-01-02'"})
        rep.sample({"kind": "int", "default": True, "expected": "diagnostic, class absent"})
    finally:
        rmtree(d)
    rep.rule = ("every cell of Convert.tla's table (20 kinds x 23 non-null JSON value classes) built into real properties through 3 routes and both enum "
                "styles, generated, constructed with the argument omitted and encoded in a sandbox; judged when WellTyped or IllTyped; non-trivial = cell")
    rep.exhaustive = True
    rep.assumptions += ["the lenient band (string spelling of a number, integral float for an integer, scalar for a string ...) is observed, not judged",
                        "array / object / null typed schemas are not among the kinds the statement lists"]
