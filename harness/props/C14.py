"""C14 - enumerations and constants admit exactly the declared values.

Specs: Names.tla (EnumKeys: the member-name derivation of EnumProperty.values_from_list with its duplicate check; law N2: distinct
values get distinct valid member names or the collision is reported) and Codec.tla (law K6: an enum decodes exactly its listed values).
TLC enumerates every ordered value list (strings over a character-class alphabet incl. case-only / punctuation-only / leading-digit
differences and the empty string) and evaluates the laws on the model; every list is built into real enums (inline and referenced,
Enum classes and literal_enums, with and without null) and executed in a sandbox: one member per value, listed values decode to their
member and encode back, unlisted values fail, null => nullable and no member, colliding names => reported.  Integer lists and consts of
every scalar type are enumerated directly.
"""
from __future__ import annotations

import itertools
import json
import random
import subprocess

from .. import gen, names, tlc
from ..common import VENV_PY, VERIF, rmtree, scratch, seed
from ..names import conc
from . import C09 as c09

SIGMA = ["a", "A", "n", "1", "-", " ", "_", "LE"]


def run_enum_sandbox(parent, pkg, cases):
    p = subprocess.run([VENV_PY, "-I", str(VERIF / "harness" / "runners" / "enum_runner.py")],
                       input=json.dumps({"parent": str(parent), "pkg": pkg, "cases": cases}), capture_output=True, text=True, timeout=600)
    if p.returncode != 0:
        return {"__crash__": p.stderr[-2000:]}
    return json.loads(p.stdout.strip().splitlines()[-1])


def build_and_run(rep, lists: list[dict], d, literal: bool, tag: str) -> None:
    """lists: [{"values": [...], "null": bool, "inline": bool, "pred": model prediction or None}]"""
    CH = 400
    # enums that make the parser raise (the pinned ValueError) abort a whole run: judge them alone, pack only the others
    ok_lists = []
    for it in lists:
        vals = list(it["values"]) + ([None] if it["null"] else [])
        _, exc = gen.parse(gen.mkdoc(schemas={"E": {"enum": vals, **({"type": "string"} if all(isinstance(v, str) for v in it["values"]) else {"type": "integer"})}}),
                           literal_enums=literal)
        if exc is not None:
            judge(rep, {"_it": it, "probe": [], "holder": "-", "enum": "-", "values": it["values"]}, None, {"exc": exc, "diags": []}, literal)
        else:
            ok_lists.append(it)
    lists = ok_lists
    for ci in range(0, len(lists), CH):
        chunk = lists[ci:ci + CH]
        schemas, cases = {}, []
        for i, it in enumerate(chunk):
            vals = list(it["values"]) + ([None] if it["null"] else [])
            es = {"enum": vals}
            if all(isinstance(v, str) for v in it["values"]):
                es["type"] = "string"
            elif all(isinstance(v, int) for v in it["values"]):
                es["type"] = "integer"
            if it.get("tnull") and "type" in es:
                es["type"] = [es["type"], "null"]
            hname, ename = f"H{tag}X{ci + i}", f"E{tag}X{ci + i}"
            if it["inline"]:
                schemas[hname] = {"type": "object", "properties": {"e": es}}
                ecls = hname + "E"
            else:
                schemas[ename] = es
                schemas[hname] = {"type": "object", "properties": {"e": {"$ref": f"#/components/schemas/{ename}"}}}
                ecls = ename
            probe = ["zzz-not-listed", 987654] + (["A" if "a" in it["values"] and "A" not in it["values"] else "a "] if it["values"] and isinstance(it["values"][0], str) else [])
            cases.append({"holder": hname, "enum": ecls, "values": it["values"], "null": it["null"], "probe": probe, "_it": it})
        doc = gen.mkdoc(schemas=schemas)
        pkg = f"en{tag}{ci // CH}"
        g = gen.generate(doc, d / pkg, literal_enums=literal)
        crashed = g["exc"]
        if crashed:
            # the pinned ValueError aborts the whole run: bisect to single enums so that one list cannot implicate another
            for c in cases:
                one = {k: v for k, v in schemas.items() if k in (c["holder"], c["enum"])}
                g1 = gen.generate(gen.mkdoc(schemas=one), d / (pkg + "one"), literal_enums=literal)
                obs1 = None
                if not g1["exc"]:
                    o1 = run_enum_sandbox(d, pkg + "one", [{k: v for k, v in c.items() if k != "_it"}])
                    obs1 = o1.get(c["holder"]) if "__crash__" not in o1 else None
                judge(rep, c, obs1, g1, literal)
                rmtree(d / (pkg + "one"))
            continue
        out = run_enum_sandbox(d, pkg, [{k: v for k, v in c.items() if k != "_it"} for c in cases])
        if "__crash__" in out:
            rep.violate(f"C14/sandbox-crash/{'literal' if literal else 'class'}", "generated enum package fails in the sandbox: " + out["__crash__"][-400:],
                        sample_values=[c["values"] for c in cases[:5]])
            continue
        texts = [(x["header"] + "\n" + x["detail"]) for x in g["diags"]]
        for c in cases:
            judge(rep, c, out.get(c["holder"]), {"exc": None, "diags": [t for t in g["diags"] if c["holder"] in (t["header"] + t["detail"]) or c["enum"] in (t["header"] + t["detail"])]}, literal)


def _names_collide(values) -> bool:
    gen.ensure_repo_on_path()
    from openapi_python_client import utils
    keys = []
    for i, v in enumerate(values):
        if isinstance(v, int):
            keys.append(f"VALUE_NEGATIVE_{-v}" if v < 0 else f"VALUE_{v}")
        else:
            k = v.upper() if v and v[0].isalpha() else f"VALUE_{i}"
            keys.append(utils.snake_case(k).upper())
    return len(set(keys)) != len(keys)


def judge(rep, c, obs, g, literal: bool) -> None:
    it = c["_it"]
    vals = it["values"]
    style = "literal" if literal else "class"
    kind = "int" if vals and isinstance(vals[0], int) else "str"
    cls_of = "+".join(sorted({names.why_invalid(v) if not names.valid_ident(v) else "ident" for v in vals if isinstance(v, str)})) or kind
    rep.count(1, (json.dumps(vals), it["null"], it["inline"], literal))
    if g["exc"]:
        if "Duplicate key" in g["exc"] and (_names_collide(vals) or len(set(map(json.dumps, vals))) != len(vals)):
            rep.violate("C14/colliding-member-names-reported-by-exception",
                        "values whose derived member names coincide are reported by an unhandled ValueError instead of a diagnostic", values=vals, style=style)
        else:
            rep.violate(f"C14/generator-crash/{style}/{kind}", f"enum {vals} makes the generator raise: {g['exc'].strip().splitlines()[-1][:150]}", values=vals, exc=g["exc"])
        return
    if obs is None or obs.get("missing"):
        if not g["diags"]:
            rep.violate(f"C14/enum-dropped-silently/{style}/{kind}", f"enum {vals}: holder model not generated and no diagnostic", values=vals)
        elif not _names_collide(vals) and len(set(map(json.dumps, vals))) == len(vals):
            rep.violate(f"C14/valid-enum-rejected/{style}/{kind}/{cls_of}", f"enum {vals} rejected although its member names do not collide: {g['diags'][0]['detail'][:120]}",
                        values=vals, diags=g["diags"][:2])
        return
    members = obs.get("members")
    if members is not None:
        mv = list(members.values())
        if sorted(set(map(json.dumps, mv))) != sorted(set(map(json.dumps, vals))) or len(mv) != len(set(map(json.dumps, vals))):
            merged = len(mv) < len(vals)
            rep.violate(f"C14/members-differ/{style}/{kind}/{'merged' if merged else 'altered'}",
                        f"enum {vals}: generated members {members}", values=vals, members=members, null=it["null"], inline=it["inline"])
            return
        if any(v is None for v in mv):
            rep.violate(f"C14/null-became-member/{style}", f"enum {vals}+null has a null member", values=vals)
    for v in vals:
        r = obs["dec"].get(json.dumps(v))
        if not r or not r["ok"]:
            rep.violate(f"C14/listed-value-rejected/{style}/{kind}", f"listed value {v!r} of {vals} does not decode: {r and r.get('err')}", values=vals, value=v)
        elif r["value"] != v or type(r["value"]) is not type(v) and not isinstance(r["value"], type(v)):
            rep.violate(f"C14/listed-value-decodes-to-other/{style}/{kind}", f"listed value {v!r} decodes to {r['value']!r}", values=vals, value=v, observed=r)
        elif r["enc"] != v:
            rep.violate(f"C14/listed-value-reencoded-differently/{style}/{kind}", f"listed value {v!r} re-encodes as {r['enc']!r}", values=vals, value=v)
        elif not literal and not r["is_member"]:
            rep.violate(f"C14/listed-value-not-a-member/{style}/{kind}", f"listed value {v!r} decodes to a plain {r['py']}", values=vals, value=v)
    for pv in c["probe"]:
        if pv in vals or (isinstance(pv, int) != (kind == "int")):
            continue
        r = obs["dec"].get(json.dumps(pv))
        if r and r["ok"]:
            key = f"C14/unlisted-value-accepted/{style}/{kind}/{'nullable' if it['null'] else ('typenull' if it.get('tnull') else 'plain')}"
            rep.violate(key, f"unlisted value {pv!r} is accepted by enum {vals} (decodes to {r['value']!r})", values=vals, value=pv, null=it["null"])
    rn = obs["dec"].get("null")
    if it["null"]:
        if not rn or not rn["ok"] or not rn["none"] or rn["enc"] is not None:
            rep.violate(f"C14/null-in-enum-not-nullable/{style}/{kind}", f"enum {vals}+null: null decodes as {rn}", values=vals)
    elif rn and rn["ok"]:
        rep.violate(f"C14/null-accepted-by-non-nullable-enum/{style}/{kind}", f"enum {vals} (no null) accepts null", values=vals, observed=rn)


def consts(rep, d) -> None:
    cvals = {"Cs": "abc", "Cq": "a b-c", "Ci": 7, "Cz": 0, "Cn": -3, "Cf": 1.5, "Ct": True, "Cfalse": False, "Ce": ""}
    # name -> (schema, listed values): a bare const, a const next to its declared type, a union of consts (the way OpenAPI 3.1 spells an enumeration with
    # per-value documentation)
    fam = {k: ({"const": v}, [v]) for k, v in cvals.items()}
    fam.update({"Tt": ({"type": "boolean", "const": True}, [True]), "Tfalse": ({"type": "boolean", "const": False}, [False]),
                "Ts": ({"type": "string", "const": "abc"}, ["abc"]), "Ti": ({"type": "integer", "const": 7}, [7]), "Tf": ({"type": "number", "const": 1.5}, [1.5]),
                "Us": ({"oneOf": [{"const": "abc"}, {"const": "abd"}]}, ["abc", "abd"]), "Ui": ({"anyOf": [{"const": 7}, {"const": 8}, {"const": 0}]}, [7, 8, 0]),
                "Um": ({"oneOf": [{"const": "abc"}, {"const": 7}, {"const": ""}]}, ["abc", 7, ""]),
                "Ud": ({"oneOf": [{"const": "abc", "description": "first"}, {"const": "7", "description": "second"}]}, ["abc", "7"])})
    schemas = {}
    for k, (sch, _) in fam.items():
        for req in (True, False):
            schemas[f"{k}{'R' if req else 'O'}"] = {"type": "object", "properties": {"e": sch}, **({"required": ["e"]} if req else {})}
    same = lambda x, v: x == v and type(x) is type(v)
    for literal in (False, True):
        pkg = f"const{int(literal)}"
        g = gen.generate(gen.mkdoc(schemas=schemas), d / pkg, literal_enums=literal)
        if g["exc"] or g["rejected"] or g["diags"]:
            rep.violate("C14/const-family-not-generated", f"{g['exc'] or g['diags'][:2]}")
            continue
        gen.ensure_repo_on_path()
        from openapi_python_client import utils
        cases = [{"holder": str(utils.ClassName(n, "")), "enum": None, "values": fam[n[:-1]][1],
                  "probe": [x for x in ["abc", "abd", 7, 8, 0, 1, 1.5, 2.5, True, False, "", "7", "True", 7.0, 1] if not any(same(x, v) for v in fam[n[:-1]][1])]}
                 for n in schemas]
        out = run_enum_sandbox(d, pkg, cases)
        if "__crash__" in out:
            rep.violate("C14/const-sandbox-crash", out["__crash__"][-400:])
            continue
        for n, c in zip(schemas, cases):
            listed = fam[n[:-1]][1]
            shape = {"C": "", "T": "typed-", "U": "union-"}[n[0]]
            obs = out[c["holder"]]
            rep.count(1, ("const", n, literal))
            if obs.get("missing"):
                rep.violate(f"C14/const-class-missing/{shape}{type(listed[0]).__name__}", f"const {listed!r}: model not generated")
                continue
            for v in listed:
                r = obs["dec"].get(json.dumps(v))
                if not r or not r["ok"] or r["enc"] != v:
                    rep.violate(f"C14/const-rejects-itself/{shape}{type(v).__name__}/{'required' if n.endswith('R') else 'optional'}",
                                f"const {listed!r} ({json.dumps(fam[n[:-1]][0])}) does not accept its own value {v!r}: {r}", const=v)
            for pv in c["probe"]:
                pr = obs["dec"].get(json.dumps(pv))
                if pr and pr["ok"]:
                    if any(isinstance(pv, (int, float)) and isinstance(v, (int, float)) and not isinstance(pv, bool) and not isinstance(v, bool) and pv == v for v in listed):
                        continue        # 7.0 for const 7: equal numbers are the same JSON value
                    confusion = any(pv == v for v in listed)               # 1 == True, 0 == False in Python
                    key = f"C14/const-accepts-other/{shape}{type(listed[0]).__name__}/{'bool-number-confusion' if confusion else 'different'}"
                    rep.violate(key, f"const {listed!r} ({json.dumps(fam[n[:-1]][0])}) accepts {pv!r}", const=listed, value=pv)
            if n.endswith("O") and obs["absent"] != "Unset":
                rep.violate(f"C14/const-optional-absent/{shape}{type(listed[0]).__name__}", f"optional const {listed!r}: absent reads back as {obs['absent']}", const=listed)


def class_collisions(rep, d) -> None:
    """Two enum declarations that derive ONE class name and the same member names but list different values (positional names, punctuation
    variants): either a diagnostic, or every surviving holder admits exactly the values ITS declaration lists."""
    import subprocess

    from ..common import VENV_PY
    pairs = {"positional": (["1", "2", "3"], ["10", "20", "30"]), "punctuation": (["in progress", "done"], ["in_progress", "done"]), "case": (["Active", "Idle"], ["active", "idle"]),
             "ints-vs-strings": ([0, 1], ["0", "1"])}
    for literal in (False, True):
        for name, (va, vb) in pairs.items():
            ea = {"type": "integer" if isinstance(va[0], int) else "string", "enum": va}
            eb = {"type": "string", "enum": vb}
            doc = gen.mkdoc(schemas={"Item": {"type": "object", "properties": {"code": ea}}, "ItemCode": eb, "Other": {"type": "object", "properties": {"c": {"$ref": "#/components/schemas/ItemCode"}}}})
            pkg = f"col{int(literal)}{name.replace('-', '')}"
            g = gen.generate(doc, d / pkg, literal_enums=literal)
            rep.count(1, ("class-collision", name, literal))
            if g["exc"]:
                rep.violate(f"C14/class-collision/{name}/crash", f"{name}: {g['exc'].strip().splitlines()[-1][:160]}", doc=doc)
                continue
            script = ("import json,sys; sys.path.insert(0, %r); out={}\n"
                      "import importlib\n"
                      "for cls, prop, vals in %r:\n"
                      "    try:\n"
                      "        C = getattr(importlib.import_module(%r + '.models'), cls)\n"
                      "    except Exception as e:\n"
                      "        out[cls] = 'missing'; continue\n"
                      "    r = {}\n"
                      "    for v in vals:\n"
                      "        try:\n"
                      "            r[json.dumps(v)] = C.from_dict({prop: v}).to_dict().get(prop) == v\n"
                      "        except (ValueError, TypeError, KeyError):\n"
                      "            r[json.dumps(v)] = 'rejected'\n"
                      "    out[cls] = r\n"
                      "print(json.dumps(out))\n") % (str(d), [("Item", "code", va + vb), ("Other", "c", va + vb)], pkg)
            p = subprocess.run([VENV_PY, "-I", "-c", script], capture_output=True, text=True, timeout=120)
            if p.returncode != 0:
                rep.violate(f"C14/class-collision/{name}/sandbox", p.stderr[-300:], doc=doc)
                continue
            out = json.loads(p.stdout.strip().splitlines()[-1])
            style = "literal" if literal else "class"
            for cls, listed in (("Item", va), ("Other", vb)):
                r = out.get(cls)
                if r == "missing" or r is None:
                    if not g["diags"]:
                        rep.violate(f"C14/class-collision/{name}/{style}/holder-missing-silently", f"{name}: {cls} is not generated and nothing is reported", doc=doc)
                    continue
                wrong = {v: ok for v, ok in r.items() if (json.loads(v) in listed) != (ok is True)}
                if wrong:
                    rep.violate(f"C14/class-collision/{name}/{style}/admits-wrong-values", f"{name}: {cls} lists {listed} but behaves as {r} (two enum declarations with one class name were merged)",
                                doc=doc, observed=r)


def run(rep) -> None:
    quick = rep.tier == "quick"
    rnd = random.Random(seed() * 1039 + 14)
    d = scratch("c14-")
    try:
        jobs = [("enum", SIGMA, 2, 2, True), ("enummenu", ["a"], 1, 3, True)] + ([] if quick else [("enum", ["a", "A", "1", "-", " "], 2, 3, True)])
        c09.prefetch(jobs, d)
        lists = []
        for job in jobs:
            res = c09._PRE.pop((job[0], tuple(job[1]), job[2], job[3]))
            rep.tlc(res)
            if res.violated:
                rep.extra.setdefault("tlc_law_violations", []).append(sorted(set(res.violated)))
            for r in res.printed:
                lists.append({"values": [conc(x) for x in r["i"]], "pred": {"err": r["err"], "keys": [conc(x) for x in r["keys"]]}})
        rep.extra["string_value_lists_enumerated"] = len(lists)
        # member-name prediction vs the real values_from_list for ALL lists (parser level, cheap)
        for it in lists:
            vals, diag, exc, doc = c09._enum_real(it["values"])
            pred = None if it["pred"]["err"] else it["pred"]["keys"]
            realk = None if vals is None else list(vals)
            if (realk is None) != (pred is None) or (realk is not None and realk != pred):
                rep.drifted(mode="enum-keys", values=it["values"], model=pred, real=realk)
        menu_lists = [it for it in lists if len(it["values"]) == 3 and any(v.lower().startswith("value") for v in it["values"])]
        special = [it for it in lists if it["pred"]["err"] or len({v.lower().strip(" -_") for v in it["values"]}) < len(it["values"]) or "" in it["values"]]
        pick = rnd.sample(special, min(len(special), 250 if quick else 4000)) + rnd.sample(lists, min(len(lists), 350 if quick else 6000))
        pick += rnd.sample(menu_lists, min(len(menu_lists), 150 if quick else 720))
        todo = []
        for k, it in enumerate(pick):
            todo.append({"values": it["values"], "null": k % 3 == 0, "inline": k % 2 == 0})
        ints = [list(p) for n in (1, 2, 3) for p in itertools.permutations([-1, 0, 1, 2], n)]
        todo += [{"values": v, "null": i % 2 == 0, "inline": i % 3 == 0} for i, v in enumerate(ints)]
        todo += [{"values": v, "null": False, "inline": False} for v in (["a", "a"], [1, 1], ["x"], [0], ["", "a"], ["A", "a"], ["a b", "a-b"], ["1a", "2b"], ["a", "b", "c"], ["true", "false", "null"], ['12"', "a"], ['say "hi"', "bye"], ["it's", "x"], ['"', "'"], ["a'b\"c", "d"], ["None", "True"],
                                                                      # characters outside ASCII / the BMP, combining marks, separators, controls: the value is data, member for member
                                                                      ["\U0001F44D", "x"], ["\U0001D4B3", "y"], ["a\u0301", "b"], ["\u00e9", "e"], ["\u65e5\u672c", "x"], ["\u2028", "x"],
                                                                      ["tab\there", "x"], ["back\\slash", "x"], ["new\nline", "x"], ["\u200b", "zw"], ["\ud7ff", "\ue000"], ["\x7f", "del"])]
        # nullable by TYPE only (a type list with "null", the 3.1 form of `nullable: true`) while null is NOT among the values: the value list decides,
        # so null and unlisted values are still refused
        todo += [{"values": v, "null": False, "inline": i % 2 == 0, "tnull": True} for i, v in enumerate((["a", "b"], ["low", "high"], [1, 2], [0], ["x"], [-1, 0, 1]))]
        build_and_run(rep, todo, d, False, "c")
        build_and_run(rep, todo, d, True, "l")
        consts(rep, d)
        class_collisions(rep, d)
        rep.traces += len(lists)        # every enumerated list: real member names validated against the model's EnumKeys
        rep.sample({"values": todo[5]["values"], "null": todo[5]["null"], "inline": todo[5]["inline"]})
        rep.sample({"const": [True, 0, "", 1.5]})
        rep.extra["enums_built"] = len(todo) * 2
    finally:
        rmtree(d)
    rep.rule = ("Names.tla enumerates all ordered string value lists (2 values of <=2 tokens over 8 character classes; thorough: 3 values); member names "
                "compared for all; a stratified sample (all collision / case-only / empty-string lists first) and all integer lists over {-1,0,1,2} are "
                "built under both enum styles, inline and referenced, with and without null, and executed; consts of 9 scalar values")
    rep.exhaustive = not quick
    rep.assumptions += ["an unhandled exception naming the duplicate key counts as 'reported' only as a known finding (C06 owns the crash)"]
