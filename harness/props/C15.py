"""C15 - allOf composition is the conjunction of its members.

Spec: Merge.tla (merge_properties transcribed over 32 kinds incl. enum value-set relations, nested lists, two models, consts; declarative
narrowing order; laws M1 (narrowest compatible type or an error), M2 (member order does not matter)) evaluated by TLC on the full 32x32
matrix - refutations are design-level counterexamples.  Binding A: every pair is composed in a real document (members by reference and
inline, child declared before and after its parents) and the merged property of the real parser is projected back to a kind; the parents'
own properties must stay what they were (M3); a sample is rendered and executed (attribute union, mandatory iff some member requires,
round trip of an instance valid for all members).  Binding B: real merge outcomes validated against Merge.tla by TLC (MergeTrace).
"""
from __future__ import annotations

import json
import random

from .. import codec, gen, tlc
from ..common import rmtree, scratch, seed
from . import C10 as c10

S = {"type": "string"}
ENUM_VALS = {"enums_ab": ["a", "b"], "enums_a": ["a"], "enums_bc": ["b", "c"], "enums_dash": ["in-progress", "done"], "enums_under": ["in_progress", "done"],
             "enums_num3": ["1xx", "2xx", "3xx"], "enums_num2": ["4xx", "5xx"], "enumi_12": [1, 2], "enumi_1": [1]}


def kind_schema(k: str) -> dict:
    if k in ENUM_VALS:
        return {"type": "integer" if k.startswith("enumi") else "string", "enum": ENUM_VALS[k]}
    if k.startswith("list_"):
        return {"type": "array", "items": kind_schema(k[5:])}
    return {"any": {}, "string": S, "int": {"type": "integer"}, "float": {"type": "number"}, "bool": {"type": "boolean"},
            "date": {"type": "string", "format": "date"}, "datetime": {"type": "string", "format": "date-time"}, "uuid": {"type": "string", "format": "uuid"},
            "file": {"type": "string", "format": "binary"}, "none": {"type": "null"}, "modelX": {"$ref": "#/components/schemas/X"},
            "modelY": {"$ref": "#/components/schemas/Y"}, "consts_one": {"const": "one"}, "consts_two": {"const": "two"}, "consti_1": {"const": 1},
            "union_is": {"type": ["integer", "string"]}}[k]


def project(prop) -> str:
    n = type(prop).__name__
    if n in ("EnumProperty", "LiteralEnumProperty"):
        vals = sorted(prop.values.values() if isinstance(prop.values, dict) else prop.values, key=str)
        for k, v in ENUM_VALS.items():
            if sorted(v, key=str) == vals and (k.startswith("enumi") == (prop.value_type is int)):
                return k
        return "enum?" + json.dumps(vals)
    if n == "ListProperty":
        return "list_" + project(prop.inner_property)
    if n == "ModelProperty":
        return "model" + str(prop.class_info.name)
    if n == "ConstProperty":
        return {"'one'": "consts_one", "'two'": "consts_two", "1": "consti_1"}.get(prop.value.python_code, "const?" + prop.value.python_code)
    if n == "UnionProperty":
        return "union_is"
    return {"AnyProperty": "any", "StringProperty": "string", "IntProperty": "int", "FloatProperty": "float", "BooleanProperty": "bool", "DateProperty": "date",
            "DateTimeProperty": "datetime", "UuidProperty": "uuid", "FileProperty": "file", "NoneProperty": "none"}.get(n, n)


def is_list(k):
    return k.startswith("list_")


def narrower(a: str, b: str) -> bool:
    if b == "any" or a == b:
        return True
    if a == "int" and b == "float":
        return True
    if (a in ("date", "datetime", "file", "uuid") or a.startswith("enums_")) and b == "string":
        return True
    if a.startswith("enumi_") and b in ("int", "float"):
        return True
    if a in ENUM_VALS and b in ENUM_VALS and a.startswith("enumi") == b.startswith("enumi"):
        return set(ENUM_VALS[a]) <= set(ENUM_VALS[b])
    if is_list(a) and is_list(b):
        return narrower(a[5:], b[5:])
    return False


def compose(a: str, b: str, route: str, child_first: bool) -> dict:
    base = {"X": {"type": "object", "properties": {"x": S}}, "Y": {"type": "object", "properties": {"y": S}}}
    p1 = {"type": "object", "properties": {"p": kind_schema(a), "only1": S}}
    p2 = {"type": "object", "properties": {"p": kind_schema(b), "only2": S}}
    if route == "ref":
        child = {"allOf": [{"$ref": "#/components/schemas/P1"}, {"$ref": "#/components/schemas/P2"}]}
        items = [("P1", p1), ("P2", p2), ("C", child)]
    elif route == "inline":
        child = {"allOf": [p1, p2]}
        items = [("C", child)]
    else:       # ref + inline
        child = {"allOf": [{"$ref": "#/components/schemas/P1"}, p2]}
        items = [("P1", p1), ("C", child)]
    if child_first:
        items = [items[-1]] + items[:-1]
    return gen.mkdoc(schemas={**base, **dict(items)})


def real_merge(a: str, b: str, route: str, child_first: bool):
    doc = compose(a, b, route, child_first)
    data, exc = gen.parse(doc)
    if exc is not None:
        return {"exc": exc, "doc": doc}
    models = {str(m.class_info.name): m for m in data.models}
    out = {"doc": doc, "diagnosed": any("/components/schemas/C" in ((e.header or "") + (e.detail or "")) or " C" in (e.detail or "") for e in data.errors),
           "ndiags": len(data.errors), "texts": [((e.header or "") + " " + (e.detail or ""))[:200] for e in data.errors]}
    if "C" in models:
        props = {p.name: p for p in (models["C"].required_properties or []) + (models["C"].optional_properties or [])}
        out["r"] = project(props["p"]) if "p" in props else "MISSING"
        out["attrs"] = sorted(props)
    else:
        out["r"] = "ERR"
    for parent, kind in (("P1", a), ("P2", b)):
        if parent in models:
            pp = {p.name: p for p in (models[parent].required_properties or []) + (models[parent].optional_properties or [])}
            if "p" in pp:
                out[parent] = project(pp["p"])
    return out


def judge_pair(rep, p, obs, route, child_first, trace) -> None:
    a, b = p["a"], p["b"]
    tag = f"{route}{'/child-first' if child_first else ''}"
    rep.count(1, (a, b, route, child_first))
    if "exc" in obs:
        rep.violate(f"C15/crash/{a}+{b}", f"allOf of {a} and {b} makes the generator raise", exc=obs["exc"], doc=obs["doc"])
        return
    r = obs["r"]
    pred = p["rinl"] if route == "inline" else p["r"]
    if r != pred:
        rep.drifted(mode="merge", a=a, b=b, route=tag, model=pred, real=r)
    if route == "ref" and not child_first:
        trace.append({"tid": len(trace) + 1, "a": a, "b": b, "r": r})
    if r == "ERR":
        if not obs["diagnosed"]:
            rep.violate(f"C15/composed-model-dropped-without-diagnostic/{a}+{b}", "the composed schema is missing and no diagnostic names it", a=a, b=b, route=tag,
                        texts=obs["texts"], doc=obs["doc"])
        return
    if r == "MISSING":
        rep.violate(f"C15/shared-property-lost/{a}+{b}", "the composed model has no property p", a=a, b=b, route=tag)
        return
    if not (narrower(r, a) and narrower(r, b)):
        cls = "same-class-different-detail" if (a[:5] == b[:5] and a != b and not a.startswith(("list", "enum"))) else "not-narrowest"
        rep.violate(f"C15/{cls}/{min(a, b)}+{max(a, b)}", f"allOf[{a}, {b}] gives {r}, which is not a type admitted by both members, and no diagnostic", a=a, b=b,
                    route=tag, result=r, doc=obs["doc"])
    if sorted(obs.get("attrs", [])) != sorted({"p", "only1", "only2"}):
        rep.violate(f"C15/attribute-set/{tag}", f"composed model has attributes {obs.get('attrs')}, expected the union p, only1, only2", a=a, b=b)
    for parent, kind in (("P1", a), ("P2", b)):
        if parent in obs and obs[parent] != kind:
            rep.violate(f"C15/parent-modified/{kind}->{obs[parent]}", f"composing C changed {parent}.p from {kind} to {obs[parent]}", a=a, b=b, route=tag, doc=obs["doc"])


def attributes(rep, d) -> None:
    """required = or, later default wins (re-converted), descriptions - on the rendered classes."""
    fam = {}
    exp = {}
    k = 0
    for (ka, kb, da, db, want) in [("float", "int", 1.5, None, "err"), ("float", "int", 2, None, 2), ("int", "float", None, 3, 3), ("string", "date", None, "2020-01-02", "2020-01-02"),
                                   ("string", "enums_ab", "a", None, "a"), ("string", "enums_ab", "zzz", None, "err"), ("enums_ab", "string", None, "b", "b"),
                                   ("int", "int", 1, 2, 2), ("int", "int", 1, None, 1)]:
        for ra in (False, True):
            for rb in (False, True):
                k += 1
                sa, sb = dict(kind_schema(ka)), dict(kind_schema(kb))
                if da is not None:
                    sa["default"] = da
                if db is not None:
                    sb["default"] = db
                fam[f"A{k}P1"] = {"type": "object", "properties": {"p": sa}, **({"required": ["p"]} if ra else {})}
                fam[f"A{k}P2"] = {"type": "object", "properties": {"p": sb}, **({"required": ["p"]} if rb else {})}
                fam[f"A{k}C"] = {"allOf": [{"$ref": f"#/components/schemas/A{k}P1"}, {"$ref": f"#/components/schemas/A{k}P2"}]}
                exp[f"A{k}C"] = (ra or rb, want, (ka, kb, da, db))
    g = gen.generate(gen.mkdoc(schemas=fam), d / "mattrs")
    if g["exc"] or g["rejected"]:
        rep.violate("C15/attributes-family-crash", (g["exc"] or str(g["diags"][:1]))[-300:])
        return
    texts = [(x["header"] + "\n" + x["detail"]) for x in g["diags"]]
    cases = [{"cls": c, "prop": "p", "wires": [], "construct_empty": True} for c in exp]
    out = codec.run_sandbox(d, "mattrs", cases)
    if "__crash__" in out:
        rep.violate("C15/attributes-package-broken", out["__crash__"][-300:])
        return
    for c, (req, want, info) in exp.items():
        rr, meta = out["results"][c], out["meta"].get(c, {})
        rep.count(1, ("attrs", c))
        if want == "err":
            if not rr.get("__missing__") or not any(c in t for t in texts):
                rep.violate(f"C15/incompatible-default-accepted/{info[0]}+{info[1]}", f"{c}: default {info[2] if info[2] is not None else info[3]!r} is not valid for the merged type but "
                            f"the class was generated / not diagnosed", info=info)
            continue
        if rr.get("__missing__"):
            rep.violate(f"C15/compatible-members-rejected/{info[0]}+{info[1]}", f"{c} was not generated: {[t[:150] for t in texts if c in t][:1]}", info=info)
            continue
        mandatory = meta.get("mandatory")
        if mandatory != (req and False) and mandatory is not False:
            rep.violate(f"C15/default-lost/{info[0]}+{info[1]}", f"{c}.p has a default in a member but is a mandatory argument", info=info)
        enc = rr["__ctor__"].get("enc")
        if enc != want and not (isinstance(enc, (int, float)) and enc == want):
            rep.violate(f"C15/merged-default/{info[0]}+{info[1]}", f"{c}: omitting p encodes {enc!r}, expected the later member's default {want!r}", info=info)


def run(rep) -> None:
    quick = rep.tier == "quick"
    rnd = random.Random(seed() * 1049 + 15)
    d = scratch("c15-")
    try:
        cfg = tlc.write_cfg(d / "merge.cfg", {}, ["Emit", "LawM1", "LawM2"])
        res = tlc.run_tlc("MergeMC.tla", cfg, workers=1, extra=["-continue"])
        rep.tlc(res)
        pairs = list(res.printed)
        if len(pairs) < 900:
            raise tlc.TlcFailure("Merge matrix not emitted")
        rep.extra["matrix_cells"] = len(pairs)
        rep.extra["M1_refuted_on_model"] = [(p["a"], p["b"]) for p in pairs if not p["m1"]]
        rep.extra["M2_refuted_on_model"] = [(p["a"], p["b"]) for p in pairs if not p["m2"]]
        trace: list = []
        results = {}
        for p in pairs:
            for route, cf in (("ref", False), ("ref", True), ("inline", False), ("mixed", False)):
                if quick and route != "ref" and rnd.random() > 0.35:
                    continue
                obs = real_merge(p["a"], p["b"], route, cf)
                judge_pair(rep, p, obs, route, cf, trace)
                if route == "ref" and not cf:
                    results[(p["a"], p["b"])] = obs.get("r")
        for (a, b), r in results.items():
            r2 = results.get((b, a))
            if r2 is not None and r != r2 and "ERR" not in (r, r2):
                rep.violate(f"C15/order-dependent/{min(a, b)}+{max(a, b)}", f"allOf[{a}, {b}] gives {r} but allOf[{b}, {a}] gives {r2}", a=a, b=b)
            elif r2 is not None and (r == "ERR") != (r2 == "ERR"):
                rep.violate(f"C15/order-dependent-error/{min(a, b)}+{max(a, b)}", f"allOf[{a}, {b}] -> {r}, allOf[{b}, {a}] -> {r2}", a=a, b=b)
        (d / "obs.ndjson").write_text("\n".join(json.dumps(e) for e in trace) + "\n")
        tres = tlc.run_tlc("MergeTrace.tla", "MergeTrace.cfg", workers=1, env={"TRACE_FILE": str(d / "obs.ndjson")})
        rep.tlc(tres)
        post = [x for x in tres.printed if isinstance(x, dict) and "nonconforming" in x]
        if not post or post[0]["consumed"] != len(trace):
            raise tlc.TlcFailure("MergeTrace did not consume the observations")
        rep.traces += len(trace)
        rep.extra["trace_nonconforming"] = len(post[0]["nonconforming"])
        rep.extra["trace_M1_failures_by_TLC"] = len(post[0]["m1"])
        attributes(rep, d)
        # mandatory iff some member requires it, wherever `required` is written (shared with C10, keyed for C15)
        sub = type(rep)(prop="C15", tier=rep.tier)
        c10.allof_required(sub, d)
        for v in sub.violations:
            rep.violate(v.key.replace("C10/", "C15/"), v.what, **v.replay)
        rep.evaluations += sub.evaluations
        rep.sample({"pair": ["float", "int"], "expected": "int in both orders"})
        rep.sample({"pair": ["enums_ab", "enums_bc"], "expected": "diagnostic (neither value set contains the other)"})
    finally:
        rmtree(d)
    rep.rule = ("all 32x32 ordered kind pairs of Merge.tla composed in real documents (by reference, inline, mixed, child before parents); 36 "
                "required/default combinations rendered and executed; the allOf `required` family; non-trivial = (pair, route)")
    rep.exhaustive = not quick
    rep.assumptions += ["the narrowing order of Merge.tla's declarative layer is the meaning of 'narrowest compatible type'"]
