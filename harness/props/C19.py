"""C19 - generation writes only where told, never clobbers, converges on overwrite.

Spec: FsHistory.tla (commands unfolded into the real steps; laws Confined, NoClobber(+Step), Converges, NoStale, ExitLaw,
RejectedWritesNothing(+Step)) and Names.tla (law N4: no derived name that becomes a path component contains a separator or is a
dot segment).  Binding A: TLC-enumerated command histories are replayed through the real CLI in a sentinel-filled sandbox, with
byte snapshots of the whole sandbox before/after each command (oracle = the property statement itself).  Binding B: step events
of the real Project.build / CLI (hooks) are validated against FsHistory.tla's actions by FsTrace.tla.
"""
from __future__ import annotations

import json
import random
import shutil
from pathlib import Path

from .. import fshist, gen, tlc
from ..common import NCPU, rmtree, scratch, seed

LAWS = ["NoClobber", "Converges", "NoStale", "ExitLaw", "RejectedWritesNothing"]
PROPS = ["Confined", "NoClobberStep", "RejectedStep", "EveryCommandExits"]
ALL = {"CrashPoints": set(), "Docs": set(fshist.DOCS), "HookKinds": set(fshist.HOOKS), "MaxTouches": 99, "Touches": {"u_top", "u_flav", "u_pkg", "u_models", "u_api", "sib"}}
METAS = ["none", "poetry", "pdm", "setup"]


def model_check(rep, d, quick: bool):
    cfg = tlc.write_cfg(d / "fs-exh.cfg", {"MaxCmds": 2 if quick else 3, **ALL, "EmitJson": False}, LAWS + ["Emit"], props=PROPS,
                        view="View")
    res = tlc.run_tlc("FsHistoryMC.tla", cfg, workers=NCPU, timeout=3000)
    rep.tlc(res)
    if res.violated:
        rep.notes.append(f"TLC: {res.violated} violated on the model: {res.counterexample[:600]}")
        rep.extra["tlc_law_violations"] = res.violated
    # histories of ANY length: the complete reachable graph of file-tree states (FsHistoryUnb.tla: counter and history outside the fingerprint)
    unb = {}
    for name, consts in (("any-length", {"CrashPoints": set(), "Docs": {"d1", "d2", "dBad"} if quick else set(fshist.DOCS), "HookKinds": {"ok"} if quick else set(fshist.HOOKS)}),
                         ("any-length-with-crashes", {"CrashPoints": {"package", "metadata", "rm_models", "client", "hooks"}, "Docs": {"d1", "d2"} if quick else {"d1", "d2", "dWarn"}, "HookKinds": {"ok"}})):
        ucfg = tlc.write_cfg(d / f"fs-{name}.cfg", {"MaxCmds": 1000000, "MaxTouches": 99, "Touches": ALL["Touches"], **consts},
                             ["NoClobber", "Converges", "NoStale", "ExitLaw", "RejectedWritesNothing"], props=["Confined", "NoClobberStep", "RejectedStep"], view="ViewU")
        ures = tlc.run_tlc("FsHistoryUnb.tla", ucfg, workers=NCPU, timeout=3000)
        rep.tlc(ures)
        if ures.violated:
            rep.notes.append(f"TLC ({name}): {ures.violated} violated on the model: {ures.counterexample[:600]}")
            rep.extra.setdefault("tlc_law_violations", []).extend(ures.violated)
        unb[name] = {"distinct_states": ures.distinct, "depth": ures.depth, "complete": "states left on queue" not in ures.out or ", 0 states left on queue" in ures.out}
    rep.extra["histories_of_any_length"] = unb
    # emission run (histories with their predicted trees); smaller alphabet of hooks to keep the number of histories replayable
    cfg = tlc.write_cfg(d / "fs-emit.cfg", {"CrashPoints": set(), "MaxCmds": 2, "Docs": set(fshist.DOCS), "HookKinds": {"ok"} if quick else set(fshist.HOOKS),
                                            "Touches": ALL["Touches"], "MaxTouches": 1 if quick else 2, "EmitJson": True}, LAWS + ["Emit"])
    res2 = tlc.run_tlc("FsHistoryMC.tla", cfg, workers=1, timeout=3000)
    rep.tlc(res2)
    return [p for p in res2.printed if isinstance(p, dict) and "hist" in p]


def _diff(a: dict, b: dict) -> list[str]:
    return sorted(k for k in set(a) | set(b) if a.get(k) != b.get(k))


def replay_history(rep, case: dict, meta: str, d: Path, fresh_cache: dict, tid: int, all_events: list):
    """Replay one TLC history (all commands up to the emitted exit) and judge every command by the property statement."""
    root = d / f"h{tid:05d}"
    sb = fshist.Sandbox(root, meta)
    sb.events.append({"ev": "hist", "tid": tid})
    cmds = case["hist"]
    last = None
    for step_i, h in enumerate(cmds):
        if h["ev"] == "touch":
            sb.touch(h["p"])
            continue
        if h["ev"] != "cmd":
            continue
        c = h["c"]
        before = sb.snap_all()
        existed = sb.out.exists()
        code, output, exc = sb.run(c, tracefile=root / "trace.ndjson")
        after = sb.snap_all()
        last = (c, code)
        key_c = f"doc={c['doc']}/ow={int(c['ow'])}/existed={int(existed)}/meta={meta}"
        rep.count(1, (json.dumps(cmds[: step_i + 1]), meta))
        if exc is not None:
            rep.violate(f"C19/crash/{key_c}", "the CLI raised an unhandled exception", history=cmds[: step_i + 1], exc=exc, meta=meta)
            continue
        changed = _diff(before, after)
        outside = [p for p in changed if not (p == "work/out/" or p.startswith("work/out/")) and p not in ("cfg.json",)
                   and not p.endswith("trace.ndjson")]
        if outside:
            rep.violate(f"C19/outside-output-dir/{key_c}", f"paths outside the output directory changed: {outside[:5]}",
                        history=cmds[: step_i + 1], meta=meta, changed=outside)
        rejected = c["doc"] in ("dBad", "dJunk")
        is_err = "Error(s) encountered" in output or "Unable to parse config" in output
        is_warn = "Warning(s) encountered" in output
        if (code != 0) != (is_err or (c["fow"] and is_warn)):
            rep.violate(f"C19/exit-status/{key_c}/hk={c['hk']}/fow={int(c['fow'])}",
                        f"exit status {code} but error-level={is_err} warning={is_warn} fail-on-warning={c['fow']}",
                        history=cmds[: step_i + 1], meta=meta, output=output[-1500:])
        if rejected:
            if [p for p in changed if p.startswith("work/")]:
                rep.violate(f"C19/rejected-document-wrote/{key_c}", f"a rejected document changed the output location: {changed[:5]}",
                            history=cmds[: step_i + 1], meta=meta)
            if code == 0:
                rep.violate(f"C19/rejected-exit-0/{key_c}", "rejected document but exit status 0", history=cmds[: step_i + 1], meta=meta)
            continue
        if existed and not c["ow"]:
            if [p for p in changed if p.startswith("work/")]:
                rep.violate(f"C19/clobbered-without-overwrite/{key_c}", f"existing directory modified without --overwrite: {changed[:5]}",
                            history=cmds[: step_i + 1], meta=meta)
            if code == 0 or "already exists" not in output:
                rep.violate(f"C19/no-error-without-overwrite/{key_c}", "existing directory, no --overwrite: no error reported",
                            history=cmds[: step_i + 1], meta=meta, output=output[-800:])
            continue
        # a generating command: tree = fresh generation + untouched user files (outside models/ and api/)
        fk = (c["doc"], meta, c["hk"])
        if fk not in fresh_cache:
            fresh_cache[fk] = fshist.fresh_tree(c["doc"], meta, c["hk"], d)
        fresh = fresh_cache[fk]
        tree = gen.snapshot(sb.out, content=True)
        users = {}
        for k in ("u_top", "u_flav", "u_pkg"):
            p = sb.userpath(k)
            rel = str(p.relative_to(sb.out))
            if ("work/out/" + rel) in before:
                users[rel] = k
        for rel in fshist.EXTRA_USER:
            if ("work/out/" + rel) in before:
                users[rel] = "u_flav"
        extra = [p for p in tree if p not in fresh and p not in users]
        missing = [p for p in fresh if p not in tree]
        differs = [p for p in fresh if p in tree and tree[p] != fresh[p]]
        if extra:
            stale = [p for p in extra if "/models/" in "/" + p or "/api/" in "/" + p or p.startswith(("models/", "api/"))]
            kind = "stale-modules" if stale else "extra-files"
            rep.violate(f"C19/{kind}/{key_c}", f"files a fresh generation would not contain survive: {extra[:6]}",
                        history=cmds[: step_i + 1], meta=meta, extra=extra)
        if missing or differs:
            rep.violate(f"C19/not-converged/{key_c}", f"tree differs from a fresh generation: missing={missing[:4]} differs={differs[:4]}",
                        history=cmds[: step_i + 1], meta=meta)
        for rel, k in users.items():
            if rel not in tree or tree[rel] != f"user content {k}".encode():
                rep.violate(f"C19/user-file-touched/{k}/{key_c}", f"user file {rel} was modified or deleted", history=cmds[: step_i + 1],
                            meta=meta)
    # model prediction vs real (drift only)
    if last is not None:
        real = sb.abstract_present()
        pred = sorted(case["present"])
        if real != pred or last[1] != case["code"]:
            rep.drifted(mode="fshistory", meta=meta, history=cmds, model=[pred, case["code"]], real=[real, last[1]])
    all_events += sb.events
    shutil.rmtree(root, ignore_errors=True)


CRASH_AFTER = {"package": ("mkdir", "exists_overwrite"), "metadata": ("package_done",), "rm_models": ("metadata_done",), "client": ("models_done",), "hooks": ("api_done",)}


class SimulatedCrash(BaseException):
    """Raised from the (guarded) trace hook to end Project.build between two steps, as if the process had died."""


def crash_leg(rep, d: Path, quick: bool, rnd) -> None:
    """FsHistory.tla with crash points: a generating process may die before any of the write steps that the hooks delimit.  TLC checks
    the laws with crashes enabled; emitted histories (a crashed command, then commands that complete) are replayed on the real CLI with
    the trace hook raising at the corresponding event; every completed command is judged as usual (convergence to a fresh generation,
    no clobbering without --overwrite, user files untouched, nothing outside the output directory)."""
    from openapi_python_client import _verif_trace

    consts = {"CrashPoints": set(CRASH_AFTER), "MaxCmds": 2 if quick else 3, "Docs": {"d1", "d2"} if quick else {"d1", "d2", "dWarn"}, "HookKinds": {"ok"},
              "Touches": {"u_top", "u_models"}, "MaxTouches": 1, "EmitJson": True}
    cfg = tlc.write_cfg(d / "fs-crash.cfg", consts, LAWS + ["Emit"], props=PROPS)
    res = tlc.run_tlc("FsHistoryMC.tla", cfg, workers=1, timeout=3000)
    rep.tlc(res)
    if res.violated:
        rep.notes.append(f"TLC: {res.violated} violated on the model with crash points: {res.counterexample[:600]}")
        rep.extra.setdefault("tlc_law_violations", []).extend(res.violated)
    cases = [p for p in res.printed if isinstance(p, dict) and "hist" in p and any(h["ev"] == "crash" for h in p["hist"])]
    if len(cases) < 50:
        raise tlc.TlcFailure(f"only {len(cases)} histories with a crash were emitted")
    strata: dict = {}
    for c in cases:
        key = tuple(h["p"] if h["ev"] == "touch" else (h.get("at") or ((h["c"]["doc"], h["c"]["ow"]) if "c" in h else (h["ev"], h.get("code")))) for h in c["hist"])
        strata.setdefault(str(key), c)
    chosen = list(strata.values())
    rnd.shuffle(chosen)
    chosen = chosen[: (60 if quick else 600)]
    fresh_cache: dict = {}
    orig = _verif_trace.emit
    n_crashed = 0
    for tid, case in enumerate(chosen, start=1):
        meta = METAS[tid % 4]
        root = d / f"k{tid:05d}"
        sb = fshist.Sandbox(root, meta)
        hist = case["hist"]
        for i, h in enumerate(hist):
            if h["ev"] == "touch":
                sb.touch(h["p"])
                continue
            if h["ev"] != "cmd":
                continue
            crash_at = hist[i + 1]["at"] if i + 1 < len(hist) and hist[i + 1]["ev"] == "crash" else None
            c = h["c"]
            before = sb.snap_all()
            existed = sb.out.exists()
            if crash_at:
                trigger = CRASH_AFTER[crash_at]

                def emit(ev, _orig=orig, _trigger=trigger, **fields):
                    _orig(ev, **fields)
                    if ev == "fs" and fields.get("op") in _trigger:
                        raise SimulatedCrash()
                _verif_trace.emit = emit
            try:
                try:
                    code, output, exc = sb.run(c, tracefile=root / "trace.ndjson")
                    crashed = False
                except SimulatedCrash:
                    code, output, exc, crashed = None, "", None, True
            finally:
                _verif_trace.emit = orig
            after = sb.snap_all()
            key_c = f"doc={c['doc']}/ow={int(c['ow'])}/existed={int(existed)}/meta={meta}/after-crash"
            rep.count(1, ("crash-history", json.dumps(hist[: i + 2]), meta))
            changed = _diff(before, after)
            outside = [p for p in changed if not (p == "work/out/" or p.startswith("work/out/")) and p not in ("cfg.json",) and not p.endswith("trace.ndjson")]
            if outside:
                rep.violate(f"C19/outside-output-dir/{key_c}", f"paths outside the output directory changed: {outside[:5]}", history=hist[: i + 2], meta=meta)
            if crash_at:
                if not crashed and not (existed and not c["ow"]):
                    rep.drifted(mode="fshistory-crash", note=f"the command was to die before {crash_at} but completed", history=hist[: i + 2], meta=meta)
                n_crashed += crashed
                continue
            if exc is not None:
                rep.violate(f"C19/crash/{key_c}", "the CLI raised an unhandled exception", history=hist[: i + 1], exc=exc, meta=meta)
                continue
            if existed and not c["ow"]:
                if [p for p in changed if p.startswith("work/")]:
                    rep.violate(f"C19/clobbered-without-overwrite/{key_c}", f"existing (partial) directory modified without --overwrite: {changed[:5]}", history=hist[: i + 1], meta=meta)
                if code == 0 or "already exists" not in output:
                    rep.violate(f"C19/no-error-without-overwrite/{key_c}", "existing (partial) directory, no --overwrite: no error reported", history=hist[: i + 1], meta=meta)
                continue
            fk = (c["doc"], meta, c["hk"])
            if fk not in fresh_cache:
                fresh_cache[fk] = fshist.fresh_tree(c["doc"], meta, c["hk"], d)
            fresh = fresh_cache[fk]
            tree = gen.snapshot(sb.out, content=True)
            users = {}
            for k in ("u_top", "u_flav", "u_pkg"):
                pth = sb.userpath(k)
                rel = str(pth.relative_to(sb.out))
                if ("work/out/" + rel) in before:
                    users[rel] = k
            for rel in fshist.EXTRA_USER:
                if ("work/out/" + rel) in before:
                    users[rel] = "u_flav"
            extra = [p for p in tree if p not in fresh and p not in users]
            missing = [p for p in fresh if p not in tree]
            differs = [p for p in fresh if p in tree and tree[p] != fresh[p]]
            if extra or missing or differs:
                rep.violate(f"C19/not-converged/{key_c}", f"after an interrupted generation, regenerating does not give a fresh tree: extra={extra[:4]} missing={missing[:4]} differs={differs[:4]}",
                            history=hist[: i + 1], meta=meta)
            for rel, k in users.items():
                if rel not in tree or tree[rel] != f"user content {k}".encode():
                    rep.violate(f"C19/user-file-touched/{k}/{key_c}", f"user file {rel} was modified or deleted", history=hist[: i + 1], meta=meta)
        real = sb.abstract_present()
        pred = sorted(case["present"])
        if meta == "none":          # this flavour has no metadata files: the artefact is vacuous in the projection
            real, pred = [x for x in real if x != "meta"], [x for x in pred if x != "meta"]
        if real != pred:
            rep.drifted(mode="fshistory-crash", meta=meta, history=hist, model=pred, real=real)
        shutil.rmtree(root, ignore_errors=True)
    rep.extra["crash_histories_replayed"] = len(chosen)
    rep.extra["commands_interrupted"] = n_crashed


HOSTILE = ["../../evil", "/abs/path", "a/b", "..", ".", " ", "x\\y", "..\\..\\w", "~", "$HOME", "%2e%2e/%2e%2e", "-rf", "con", "a/../../b",
           "/", "\\", "...", "nul", "é/ü", "a\x00b" if False else "a:b"]


def hostile_names(rep, d: Path, quick: bool) -> None:
    """Titles, tags, schema and operation names containing separators / dot segments / absolute paths, derived output path."""
    k = 0
    for name in HOSTILE:
        for meta in (["none", "poetry"] if quick else METAS):
            for slot in ("title", "tag", "schema", "operation"):
                k += 1
                root = d / f"n{k:04d}"
                (root / "deep" / "work").mkdir(parents=True)
                (root / "ROOT_SENTINEL").write_text("x")
                (root / "deep" / "DEEP_SENTINEL").write_text("x")
                work = root / "deep" / "work"
                title = name if slot == "title" else "Api"
                schema = name if slot == "schema" else "Thing"
                doc = gen.mkdoc(title=title, schemas={schema: {"type": "object", "properties": {"v": {"type": "string"}}}},
                                paths={"/p": {"get": {"operationId": name if slot == "operation" else "getP",
                                                      "tags": [name if slot == "tag" else "t"],
                                                      "responses": {"200": {"description": "d"}}}}})
                (root / "doc.json").write_text(json.dumps(doc))
                cfgp = root / "cfg.json"
                cfgp.write_text(json.dumps({"post_hooks": []}))
                before = gen.snapshot(root)
                code, output, exc = gen.cli_inproc(["generate", "--path", str(root / "doc.json"), "--meta", meta, "--config", str(cfgp)], work)
                after = gen.snapshot(root)
                rep.count(1, ("hostile", name, slot, meta))
                if exc is not None:
                    rep.violate(f"C19/hostile-name-crash/{slot}", f"{slot} {name!r}: unhandled exception", name=name, slot=slot, meta=meta, exc=exc)
                    shutil.rmtree(root, ignore_errors=True)
                    continue
                changed = [p for p in _diff(before, after)]
                new_top = sorted({p.split("/")[2] for p in changed if p.startswith("deep/work/") and len(p.split("/")) > 2})
                outside = [p for p in changed if not p.startswith("deep/work/")]
                if outside:
                    rep.violate(f"C19/hostile-name-escapes/{slot}", f"{slot} {name!r}: paths outside the working directory changed: {outside[:4]}",
                                name=name, slot=slot, meta=meta, changed=outside)
                if len(new_top) > 1:
                    rep.violate(f"C19/hostile-name-several-dirs/{slot}", f"{slot} {name!r}: more than one top-level entry created: {new_top}",
                                name=name, slot=slot, meta=meta)
                if new_top:
                    out = work / new_top[0]
                    for p in out.rglob("*"):
                        if p.is_symlink() or not str(p.resolve()).startswith(str(out.resolve())):
                            rep.violate(f"C19/hostile-name-escapes/{slot}", f"{p} escapes the output directory", name=name, slot=slot)
                shutil.rmtree(root, ignore_errors=True)
    rep.extra["hostile_name_runs"] = k


def names_n4(rep, d: Path) -> None:
    """Names.tla law N4 on the model: derived names that become path components never contain a separator / dot segment."""
    cfg = tlc.write_cfg(d / "n4.cfg", {"Sigma": {"n", "N", ".", "/", "BSL", "-", " ", "_", "1"}, "MaxLen": 4, "Mode": "single", "SetSize": 1,
                                       "EmitJson": False}, ["N1Single", "N4Paths"])
    res = tlc.run_tlc("NamesMC.tla", cfg, workers=NCPU, timeout=1200)
    rep.tlc(res)
    if res.violated:
        rep.notes.append(f"TLC: Names N4/N1 violated on the model: {res.counterexample[:500]}")
        rep.extra.setdefault("tlc_law_violations", []).extend(res.violated)


def cross_process_leg(rep, d: Path) -> None:
    """Convergence does not depend on WHICH process generates: every command of a history runs in its own interpreter with its own string-hash
    seed (as the CLI does), and regenerating over an earlier generation still equals a fresh generation made by yet another process.  The
    documents carry constructs whose handling iterates over sets of strings (`required` naming several undeclared properties, several tags,
    models referring to several others)."""
    S = {"type": "string"}
    R = lambda n: {"$ref": f"#/components/schemas/{n}"}
    def doc(v: int) -> dict:
        schemas = {f"Part{i}": {"type": "object", "properties": {"v": S}} for i in range(4)}
        schemas["Inventory"] = {"type": "object", "required": ["sku", "ghost_b", "ghost_a", "ghost_d", "ghost_c"], "properties": {"sku": S, **{f"p{i}": R(f"Part{i}") for i in range(4)}}}
        schemas["Order"] = {"allOf": [R("Inventory"), {"type": "object", "required": ["zeta", "alpha", "mid"], "properties": {"n": {"type": "integer"}}}]}
        if v == 2:
            schemas["Extra"] = {"type": "object", "properties": {"o": R("Order")}}
        paths = {f"/o{v}": {"get": {"operationId": f"op{v}", "tags": ["b", "a", "c"], "responses": {"200": {"description": "d", "content": {"application/json": {"schema": R("Order")}}}}}}}
        return gen.mkdoc(schemas=schemas, paths=paths, title="Cross Process")
    root = d / "xproc"
    root.mkdir()
    for v in (1, 2):
        (root / f"v{v}.json").write_text(json.dumps(doc(v)))
    (root / "cfg.json").write_text(json.dumps({"post_hooks": [], "generate_all_tags": True}))
    def run(out: str, v: int, hs: int, overwrite: bool):
        args = ["generate", "--path", str(root / f"v{v}.json"), "--meta", "poetry", "--output-path", str(root / out), "--config", str(root / "cfg.json")] + (["--overwrite"] if overwrite else [])
        return gen.cli(args, root, env={"PYTHONHASHSEED": str(hs)})
    results = []
    for k, (h1, h2, h3) in enumerate([(1, 2, 3), (4, 5, 6), (7, 0, 11)]):
        c1 = run(f"work{k}", 1, h1, False)
        c2 = run(f"work{k}", 2, h2, True)
        c3 = run(f"fresh{k}", 2, h3, False)
        rep.count(1, ("cross-process", k))
        if c1[0] != 0 or c2[0] != 0 or c3[0] != 0:
            rep.violate("C19/cross-process/command-fails", f"exit codes {c1[0]}, {c2[0]}, {c3[0]}: {(c1[1] + c2[1] + c3[1])[-300:]}")
            return
        a, b = gen.snapshot(root / f"work{k}"), gen.snapshot(root / f"fresh{k}")
        diff = _diff(a, b)
        if diff:
            rep.violate("C19/cross-process/not-converged", f"regenerating in another process (hash seeds {h1}, {h2}) differs from a fresh generation (seed {h3}): {diff[:5]}", files=diff[:10])
            return


def run(rep) -> None:
    quick = rep.tier == "quick"
    rnd = random.Random(seed() * 1019 + 19)
    d = scratch("c19-")
    try:
        cases = model_check(rep, d, quick)
        names_n4(rep, d)
        rep.extra["histories_emitted"] = len(cases)
        # choose histories: all one-command histories, then a stratified sample of two-command ones (by (doc1,ow1,doc2,ow2,touches))
        strata: dict = {}
        for c in cases:
            cm = [h for h in c["hist"] if h["ev"] == "cmd"]
            key = tuple((h["c"]["doc"], h["c"]["ow"]) for h in cm) + tuple(sorted(h["p"] for h in c["hist"] if h["ev"] == "touch"))
            strata.setdefault(key, []).append(c)
        keys = sorted(strata, key=str)
        rnd.shuffle(keys)
        keys.sort(key=lambda k: -len([x for x in k if isinstance(x, str)]))     # histories with user files first
        chosen = [rnd.choice(strata[k]) for k in keys[: (140 if quick else 1500)]]
        fresh_cache: dict = {}
        events: list = []
        for tid, case in enumerate(chosen, start=1):
            replay_history(rep, case, METAS[tid % 4], d, fresh_cache, tid, events)
        # binding self-test: a history whose exists-check is logged after a write must be rejected
        bad = [{"ev": "hist", "tid": 900001}, {"ev": "cmd", "doc": "d1", "ow": False, "fow": False, "hk": "ok"},
               {"ev": "fs", "op": "loaded"}, {"ev": "fs", "op": "validated"}, {"ev": "fs", "op": "package_done"}, {"ev": "fs", "op": "mkdir"}]
        events += bad + [{"ev": "hist", "tid": 900002}]
        v, res = fshist.validate_traces(events, d)
        rep.tlc(res)
        if 900001 not in {x[0] for x in v["law"]}:
            raise tlc.TlcFailure("binding self-test failed: FsTrace accepted a write before the existing-directory check")
        rep.traces += len(chosen)
        for tid, line, why in v["law"]:
            if tid < 900000:
                rep.violate(f"C19/trace/{why[:60]}", f"real step sequence is not a behaviour of FsHistory.tla: {why}",
                            history=chosen[tid - 1]["hist"], line=line)
        for tid, line, why in v["drift"]:
            if tid < 900000:
                rep.drifted(mode="fstrace", why=why, history=chosen[tid - 1]["hist"])
        hostile_names(rep, d, quick)
        crash_leg(rep, d, quick, rnd)
        cross_process_leg(rep, d)
        rep.sample({"history": chosen[0]["hist"], "model_tree": chosen[0]["present"], "model_exit": chosen[0]["code"]})
        rep.extra["histories_replayed"] = len(chosen)
    finally:
        rmtree(d)
    rep.rule = ("TLC explores every history of <=2 (quick) / <=3 (thorough) generate commands over 5 documents x overwrite x fail-on-warning x "
                "3 post-hook outcomes with user files created in between; a stratified sample of emitted histories is replayed through the "
                "real CLI under all four metadata flavours with whole-sandbox byte snapshots; hostile titles/tags/schema/operation names")
    rep.exhaustive = False
    rep.assumptions += ["user files = files outside models/ and api/ under names the generator never writes",
                        "convergence is judged against a fresh generation with the same flavour and configuration"]
