"""C20 - using a component by reference is equivalent to writing it inline.

Specs: Ops.tla (law RefTransparent: the declarative outcome is invariant under Inline(op); with Containment this gives
transparency of the operational layer) and Pipeline.tla (references resolved through retry rounds: a valid reference - forward,
backward, through aliases, arrays, unions - always resolves; malformed ones affect exactly Affected).  Binding A: every operation
of the universe that has reference sites is generated next to a CONTEXT operation using the same components in a conflicting way,
once with references and once inlined (every subset of sites), and compared at descriptor level (all) and byte level (sample);
every diagnostics-free document of the schema universe (incl. union kinds, all declaration orders) must generate without
diagnostics and share one class per schema; malformed reference strings at every site kind.
"""
from __future__ import annotations

import itertools
import json
import random

from .. import gen, ops, pipe, treegen
from ..common import rmtree, scratch, seed

S = {"type": "string"}
MALFORMED = ["", "x.yaml#/components/schemas/A", "https://remote.example/doc.json#/components/schemas/A", "#/components/wrong/Model",
             "#/components/schemas/", "#/components/schemas/Nope", "#/components/parameters/Nope", "#", "#/", "Model", "#/components/schemas/Model/properties/v"]


def _descr(data, name: str = "theOp"):
    """Descriptor of one endpoint as the templates see it (names, types, requiredness, defaults, bodies, responses)."""
    for col in data.endpoint_collections_by_tag.values():
        for e in col.endpoints:
            if e.name == name:
                return {
                    "path": e.path, "method": e.method,
                    "params": [(loc.value, p.name, str(p.python_name), p.get_type_string(), p.required, p.default.python_code if p.default else None)
                               for loc, p in e.iter_all_parameters()],
                    "bodies": [(b.content_type, str(b.body_type.value), b.prop.get_type_string()) for b in e.bodies],
                    "responses": [(int(r.status_code), r.prop.get_type_string(), r.source["attribute"]) for r in e.responses],
                    "imports": sorted(e.relative_imports), "warnings": len(e.errors)}
    return None


def ops_transparency(rep, ocases, rnd, d, quick: bool) -> None:
    with_refs = [c for c in ocases if ops.ref_sites(c["op"])]
    rep.extra["operations_with_reference_sites"] = len(with_refs)
    render = []
    for c in with_refs:
        op = c["op"]
        sites = sorted(ops.ref_sites(op))
        subsets = [set(x) for r in range(1, len(sites) + 1) for x in itertools.combinations(sites, r)]
        base, exc = gen.parse(ops.concretize(op, extra_paths=ops.context_paths(False)))
        rep.count(1, json.dumps(op, sort_keys=True))
        if exc is not None:
            rep.violate("C20/crash/ops", "generator raised", op=op, exc=exc)
            continue
        dref = _descr(base)
        for sub in subsets:
            iop = ops.inline_op(op, sub)
            idata, iexc = gen.parse(ops.concretize(iop, extra_paths=ops.context_paths(sub == set(sites))))
            if iexc is not None:
                continue
            dinl = _descr(idata)
            if dref != dinl:
                what = "generated-vs-not" if (dref is None) != (dinl is None) else next(k for k in dref if dref[k] != dinl[k])
                rep.violate(f"C20/endpoint-differs/{'+'.join(sorted(sub))}/{what}",
                            f"endpoint descriptor differs between reference and inline form at sites {sorted(sub)}",
                            op=op, sites=sorted(sub), by_reference=dref, inline=dinl, doc=ops.concretize(op, extra_paths=ops.context_paths(False)))
        if c["result"] == "ok":
            render.append(c)
    # byte-level comparison of the endpoint module, stratified by the set of sites and body kind
    strata: dict = {}
    for c in render:
        strata.setdefault((tuple(sorted(ops.ref_sites(c["op"]))), c["op"]["body"], tuple(p["how"] for p in c["op"]["ps"])), []).append(c)
    keys = sorted(strata)
    rnd.shuffle(keys)
    chosen = [rnd.choice(strata[k]) for k in keys[: (60 if quick else 600)]]
    jobs = []
    for i, c in enumerate(chosen):
        jobs.append((ops.concretize(c["op"], extra_paths=ops.context_paths(False)), str(d / f"r{i:04d}"), {}))
        jobs.append((ops.concretize(ops.inline_op(c["op"]), extra_paths=ops.context_paths(True)), str(d / f"i{i:04d}"), {}))
    res = treegen.generate_many(jobs)
    for i, c in enumerate(chosen):
        a, b = gen.snapshot(d / f"r{i:04d}", content=True), gen.snapshot(d / f"i{i:04d}", content=True)
        rep.count(1)
        for mod in ("api/default/the_op.py", "api/default/ctx_op.py"):
            if a.get(mod) != b.get(mod):
                rep.violate(f"C20/endpoint-module-bytes-differ/{'+'.join(sorted(ops.ref_sites(c['op'])))}",
                            f"{mod} is not byte-identical between reference and inline form", op=c["op"],
                            by_reference=(a.get(mod) or b"").decode()[:3000], inline=(b.get(mod) or b"").decode()[:3000])
    rep.extra["endpoint_modules_compared_bytewise"] = len(chosen)


def schema_references(rep, cases, rnd, d, quick: bool) -> None:
    """Valid references always resolve (any declaration order, through arrays / unions / aliases); one class per schema."""
    clean = [c for c in cases if not c["bad"] and not c["aff"]]
    rep.extra["diagnostics_free_documents"] = len(clean)
    share = []
    for c in clean:
        adoc = c["doc"]
        doc = pipe.concretize(adoc)
        data, exc = gen.parse(doc)
        rep.count(1, tuple((s["k"], s["t"]) for s in adoc))
        if exc is not None:
            rep.violate("C20/crash/schemas", "generator raised", adoc=adoc, exc=exc)
            continue
        if data.errors:
            kinds = "+".join(sorted({s["k"] for s in adoc if s["t"]}))
            rep.violate(f"C20/valid-reference-rejected/{kinds}", f"a document whose references are all valid produced diagnostics: "
                        f"{(data.errors[0].header or '')[:80]} {(data.errors[0].detail or '')[:120]}", adoc=adoc, doc=doc)
        targets = [s["t"] for s in adoc if s["t"]]
        if len(targets) >= 2 and len(set(targets)) < len(targets):
            share.append(c)
    picked = rnd.sample(share, min(len(share), 40 if quick else 400))
    jobs = [(pipe.concretize(c["doc"]), str(d / f"s{i:04d}"), {}) for i, c in enumerate(picked)]
    treegen.generate_many(jobs)
    for i, c in enumerate(picked):
        snap = gen.snapshot(d / f"s{i:04d}", content=True)
        rep.count(1)
        for s in c["doc"]:
            if pipe.has_class(s["k"]):
                import re as _re
                pat = _re.compile(rb"^class " + s["name"].encode() + rb"[:(]", _re.M)
                defs = [p for p, b in snap.items() if p.endswith(".py") and isinstance(b, bytes) and pat.search(b)]
                if len(defs) != 1:
                    # a verdict must be reproducible from its replay: the document is generated once more, alone and in this process, and judged again
                    # (`vp check` once reported this key for a tree that no local run could reproduce - DESIGN.md 11.3)
                    again = d / f"s{i:04d}-again"
                    g2 = gen.generate(pipe.concretize(c["doc"]), again)
                    snap2 = gen.snapshot(again, content=True)
                    defs2 = [p for p, b in snap2.items() if p.endswith(".py") and isinstance(b, bytes) and pat.search(b)]
                    if len(defs2) != 1:
                        rep.violate("C20/class-not-shared", f"schema {s['name']} is defined in {len(defs2)} modules: {defs2}", adoc=c["doc"], first_pass=defs,
                                    heads={p: snap2[p][:400].decode(errors="replace") for p in defs2[:3]}, diagnostics=g2["diags"][:3])
                    else:
                        rep.notes.append(f"class-not-shared not reproduced for {json.dumps(c['doc'])}: first pass {defs}, second pass {defs2}")
                        rep.extra["unreproduced_verdicts"] = rep.extra.get("unreproduced_verdicts", 0) + 1
        for prob in treegen.relative_import_check(d / f"s{i:04d}")[:2]:
            rep.violate("C20/reference-to-missing-class", prob, adoc=c["doc"])


def _alias_chain_inline(adoc) -> bool:
    by = {s["name"]: s for s in adoc}
    for s in adoc:
        cur, n = s, 0
        while cur["k"] == "wrap" and cur["t"] in by and n < 5:
            cur, n = by[cur["t"]], n + 1
        if s["k"] == "wrap" and cur["k"] == "objinl":
            return True
    return False


def malformed(rep, d) -> None:
    """Malformed reference strings at every kind of site: a diagnostic for the user of the reference, nothing else affected."""
    control_schema = {"type": "object", "properties": {"c": S}}
    control_op = {"get": {"operationId": "controlOp", "responses": {"200": {"description": "d", "content": {"application/json": {"schema": {"$ref": "#/components/schemas/Control"}}}}}}}
    good = gen.mkdoc(schemas={"Control": control_schema, "Model": {"type": "object", "properties": {"v": S}}}, paths={"/control": control_op})
    gen.generate(good, d / "good")
    ref_snap = gen.snapshot(d / "good", content=True)
    sites = {
        "schema-property": lambda r: ({"User": {"type": "object", "properties": {"x": {"$ref": r}}}}, None),
        "array-item": lambda r: ({"User": {"type": "object", "properties": {"x": {"type": "array", "items": {"$ref": r}}}}}, None),
        "union-member": lambda r: ({"User": {"type": "object", "properties": {"x": {"oneOf": [{"$ref": r}, S]}}}}, None),
        "additional-properties": lambda r: ({"User": {"type": "object", "additionalProperties": {"$ref": r}}}, None),
        "allof-member": lambda r: ({"User": {"allOf": [{"$ref": r}, {"type": "object", "properties": {"o": S}}]}}, None),
        "component-array": lambda r: ({"User": {"type": "array", "items": {"$ref": r}}}, None),
        "parameter": lambda r: ({}, {"get": {"operationId": "userOp", "parameters": [{"$ref": r}], "responses": {"200": {"description": "d"}}}}),
        "parameter-schema": lambda r: ({}, {"get": {"operationId": "userOp", "parameters": [{"name": "q", "in": "query", "schema": {"$ref": r}}], "responses": {"200": {"description": "d"}}}}),
        "request-body": lambda r: ({}, {"post": {"operationId": "userOp", "requestBody": {"$ref": r}, "responses": {"200": {"description": "d"}}}}),
        "body-schema": lambda r: ({}, {"post": {"operationId": "userOp", "requestBody": {"content": {"application/json": {"schema": {"$ref": r}}}}, "responses": {"200": {"description": "d"}}}}),
        "response": lambda r: ({}, {"get": {"operationId": "userOp", "responses": {"200": {"$ref": r}}}}),
        "response-schema": lambda r: ({}, {"get": {"operationId": "userOp", "responses": {"200": {"description": "d", "content": {"application/json": {"schema": {"$ref": r}}}}}}}),
    }
    k = 0
    for site, mk in sites.items():
        for r in MALFORMED + ["#/components/schemas/User"]:
            if r == "#/components/schemas/User" and site not in ("allof-member", "component-array"):
                continue      # plain self reference is valid (recursive model)
            if r.endswith("/Model/properties/v") and False:
                continue
            k += 1
            schemas, op = mk(r)
            doc = gen.mkdoc(schemas={"Control": control_schema, "Model": {"type": "object", "properties": {"v": S}}, **schemas},
                            paths={"/control": control_op, **({"/user": op} if op else {})})
            out = d / f"m{k:04d}"
            res = gen.generate(doc, out)
            rep.count(1, ("malformed", site, r))
            if res["exc"]:
                rep.violate(f"C20/malformed-reference-crash/{site}", f"reference {r!r} at {site}: unhandled exception", site=site, ref=r, exc=res["exc"], doc=doc)
                continue
            snap = gen.snapshot(out, content=True)
            user_generated = ("models/user.py" in snap) or ("api/default/user_op.py" in snap)
            if res["rejected"]:
                rep.violate(f"C20/malformed-reference-rejects-document/{site}", f"reference {r!r} at {site} makes the whole document be rejected",
                            site=site, ref=r, diags=res["diags"][:2], doc=doc)
                continue
            if not res["diags"] and not (r.endswith("/Model/properties/v") or (r == "Model")) and not _ok_ref(site, r):
                rep.violate(f"C20/malformed-reference-undiagnosed/{site}", f"reference {r!r} at {site}: no diagnostic (user item generated={user_generated})",
                            site=site, ref=r, doc=doc)
            for mod in ("models/control.py", "api/default/control_op.py", "client.py", "types.py", "errors.py"):
                if snap.get(mod) != ref_snap.get(mod):
                    rep.violate(f"C20/malformed-reference-affects-unrelated/{site}", f"reference {r!r} at {site} changed/removed unrelated {mod}",
                                site=site, ref=r, doc=doc)
            for prob in treegen.relative_import_check(out)[:2]:
                rep.violate(f"C20/malformed-reference-leaves-dangling-import/{site}", prob, site=site, ref=r, doc=doc)
    rep.extra["malformed_reference_runs"] = k


def _ok_ref(site: str, r: str) -> bool:
    return False


def dangling_containment(rep) -> None:
    """A dangling / malformed reference affects exactly what depends on it: a schema that ALSO refers to a healthy shared component fails, the
    other users of that shared component and the component itself are generated - in every declaration order."""
    import itertools
    S = {"type": "string"}
    R = lambda n: {"$ref": f"#/components/schemas/{n}"}
    for bad_ref in ("#/components/schemas/Nope", "#/components/schemas/", "other.yaml#/X"):
        parts = {"Broken": {"type": "object", "properties": {"shared": R("Shared"), "l": {"type": "array", "items": R("Shared")}, "bad": {"$ref": bad_ref}}},
                 "Customer": {"type": "object", "properties": {"shared": R("Shared"), "name": S}},
                 "Shared": {"type": "object", "properties": {"v": S}},
                 "Wrapper": {"type": "object", "properties": {"c": R("Customer")}}}
        for order in itertools.permutations(parts):
            doc = gen.mkdoc(schemas={k: parts[k] for k in order}, paths={"/c": {"get": {"operationId": "c", "responses": {"200": {"description": "d", "content": {"application/json": {"schema": R("Customer")}}}}}}})
            data, exc = gen.parse(doc)
            rep.count(1, ("dangling-containment", bad_ref, order))
            if exc is not None:
                rep.violate("C20/dangling-containment/crash", f"order {order}: generator raised", exc=exc, doc=doc)
                continue
            have = {str(m.class_info.name) for m in data.models}
            lost = {"Customer", "Shared", "Wrapper"} - have
            if lost:
                rep.violate(f"C20/dangling-containment/unrelated-removed/{'+'.join(sorted(lost))}", f"a dangling reference in Broken ({bad_ref}) also removes {sorted(lost)} (declaration order {list(order)})", doc=doc)
            if "Broken" in have:
                rep.violate("C20/dangling-containment/broken-generated", f"Broken refers to {bad_ref} but was generated (order {list(order)})", doc=doc)
            elif not any("Broken" in ((e.header or "") + (e.detail or "")) for e in data.errors):
                rep.violate("C20/dangling-containment/broken-undiagnosed", f"Broken was dropped without a diagnostic naming it (order {list(order)})", doc=doc)


def inline_components(doc: dict) -> dict:
    """Replace every reference to a component parameter / request body / response (transitively) by a copy of its target."""
    import copy
    comps = doc.get("components", {})

    def resolve(ref: str, depth=0):
        parts = ref.lstrip("#/").split("/")
        if len(parts) != 3 or parts[0] != "components" or parts[1] not in ("parameters", "requestBodies", "responses") or depth > 8:
            return None
        tgt = comps.get(parts[1], {}).get(parts[2])
        if isinstance(tgt, dict) and "$ref" in tgt:
            return resolve(tgt["$ref"], depth + 1)
        return copy.deepcopy(tgt) if isinstance(tgt, dict) else None

    def walk(x):
        if isinstance(x, dict):
            if "$ref" in x and isinstance(x["$ref"], str):
                t = resolve(x["$ref"])
                if t is not None:
                    return walk(t)
            return {k: walk(v) for k, v in x.items()}
        if isinstance(x, list):
            return [walk(v) for v in x]
        return x
    out = copy.deepcopy(doc)
    out["paths"] = walk(out.get("paths", {}))
    return out


def schema_inline_equivalence(rep, d) -> None:
    """One object schema T used at every schema position, once by reference and once as an inline copy.  The two clients must agree on the wire
    at that position (decode + encode of the same instances), and everything that does not belong to the user of the position - T's own class,
    the other users of T, the endpoints - must be byte-identical: a reference affects nothing else."""
    from . import C18 as c18
    S = {"type": "string"}
    T = {"type": "object", "required": ["id"], "properties": {"id": {"type": "integer"}, "x": S, "e": {"type": "string", "enum": ["a", "b"]}, "when": {"type": "string", "format": "date"}}}
    full, mini = {"id": 1, "x": "v", "e": "b", "when": "2020-01-02"}, {"id": 2}
    own = {"type": "object", "properties": {"own": S}}
    pos = {"prop": (lambda u: {"type": "object", "properties": {"t": u}}, [{"t": full}, {"t": mini}, {}]),
           "item": (lambda u: {"type": "object", "properties": {"ts": {"type": "array", "items": u}}}, [{"ts": [full, mini]}, {"ts": []}]),
           "union": (lambda u: {"type": "object", "properties": {"u": {"oneOf": [u, {"type": "integer"}]}}}, [{"u": full}, {"u": 3}]),
           "nullable": (lambda u: {"type": "object", "properties": {"u": {"oneOf": [u, {"type": "null"}]}}}, [{"u": mini}, {"u": None}]),
           "addl": (lambda u: {"type": "object", "additionalProperties": u}, [{"k1": full, "k2": mini}]),
           "allof": (lambda u: {"allOf": [u, own]}, [dict(full, own="o"), mini]),
           "allof-last": (lambda u: {"allOf": [own, u]}, [dict(full, own="o"), mini]),
           "allof-required": (lambda u: {"allOf": [u, dict(own, required=["x", "own"])]}, [dict(full, own="o")]),
           "allof-top-required": (lambda u: {"allOf": [u, own], "required": ["x"]}, [dict(full, own="o")]),
           "allof-redeclared": (lambda u: {"allOf": [u, {"type": "object", "properties": {"x": {"type": "string", "default": "dflt"}, "when": {"type": "string", "format": "date", "description": "again"}}}]}, [dict(mini, x="v"), mini]),
           "allof-enum-narrowed": (lambda u: {"allOf": [u, {"type": "object", "properties": {"e": {"type": "string", "enum": ["a"]}}}]}, [dict(mini, e="a"), mini]),
           "nested": (lambda u: {"type": "object", "properties": {"inner": {"type": "object", "properties": {"t": u}}}}, [{"inner": {"t": full}}, {"inner": {}}])}
    ok = lambda sch: {"200": {"description": "d", "content": {"application/json": {"schema": sch}}}}
    R = {"$ref": "#/components/schemas/T"}

    def mk(user):
        return gen.mkdoc({"T": T, "Holder": user, "Other": {"type": "object", "properties": {"t": R, "ts": {"type": "array", "items": R}}},
                          "Kid": {"allOf": [R, {"type": "object", "properties": {"k": S}}]}},
                         {"/t": {"get": {"operationId": "getT", "responses": ok(R)}, "post": {"operationId": "postT", "requestBody": {"content": {"application/json": {"schema": R}}}, "responses": ok({"$ref": "#/components/schemas/Other"})}},
                          "/h": {"get": {"operationId": "getH", "responses": ok({"$ref": "#/components/schemas/Holder"})}}})
    jobs = []
    for name, (user, _) in pos.items():
        jobs += [(mk(user(R)), str(d / f"sie_{name.replace('-', '_')}_ref"), {}), (mk(user(json.loads(json.dumps(T)))), str(d / f"sie_{name.replace('-', '_')}_inl"), {})]
    res = treegen.generate_many(jobs)
    for i, (name, (user, insts)) in enumerate(pos.items()):
        g1, g2 = res[2 * i], res[2 * i + 1]
        rep.count(1, ("schema-inline", name))
        a, b = f"sie_{name.replace('-', '_')}_ref", f"sie_{name.replace('-', '_')}_inl"
        if g1["exc"] or g2["exc"] or g1["rejected"] or g2["rejected"] or bool(g1["diags"]) != bool(g2["diags"]):
            rep.violate(f"C20/schema-inline/{name}/generation-differs", f"T at position {name}: by reference {g1['exc'] or g1['diags'][:1]}, inline copy {g2['exc'] or g2['diags'][:1]}")
            continue
        s1, s2 = gen.snapshot(d / a, content=True), gen.snapshot(d / b, content=True)
        mine = lambda k: k.startswith("models/holder") or k == "models/__init__.py"
        diff = sorted(k for k in set(s1) | set(s2) if k.endswith(".py") and not mine(k) and s1.get(k) != s2.get(k))
        if diff:
            rep.violate(f"C20/schema-inline/{name}/affects-something-else", f"T used at position {name} by reference instead of as an inline copy changes files that do not belong to the user: {diff[:4]}",
                        files=diff, by_reference=(s1.get(diff[0]) or b"").decode(errors="replace")[:2000], inline=(s2.get(diff[0]) or b"").decode(errors="replace")[:2000])
        if g1["diags"]:
            continue
        plan = [("Holder", inst) for inst in insts]
        try:
            o1, o2 = _roundtrips(d, a, plan), _roundtrips(d, b, plan)
        except RuntimeError as e:
            rep.violate(f"C20/schema-inline/{name}/package-broken", str(e)[-300:])
            continue
        for inst, r1, r2 in zip(insts, o1, o2):
            rep.count(1, ("schema-inline-wire", name, json.dumps(inst, sort_keys=True)))
            if r1 != r2:
                rep.violate(f"C20/schema-inline/{name}/wire-behaviour-differs", f"T at position {name}: {json.dumps(inst)} gives {r1} by reference and {r2} with an inline copy", instance=inst)


def _roundtrips(d, pkg: str, plan: list) -> list:
    import subprocess

    from ..common import VENV_PY
    script = r"""
import json, sys, importlib
job = json.load(sys.stdin); sys.path.insert(0, job["parent"])
m = importlib.import_module(job["pkg"] + ".models")
out = []
for cls, inst in job["plan"]:
    try:
        o = getattr(m, cls).from_dict(json.loads(json.dumps(inst)))
        out.append({"enc": json.loads(json.dumps(o.to_dict(), default=repr))})
    except BaseException as ex:
        out.append({"err": type(ex).__name__})
print(json.dumps(out))
"""
    p = subprocess.run([VENV_PY, "-I", "-c", script], input=json.dumps({"parent": str(d), "pkg": pkg, "plan": plan}), capture_output=True, text=True, timeout=300)
    if p.returncode != 0 or not p.stdout.strip():
        raise RuntimeError(f"package {pkg} does not import: " + p.stderr[-300:])
    return json.loads(p.stdout.strip().splitlines()[-1])


def documents_leg(rep, d, quick: bool) -> None:
    """Whole documents that use component parameters / request bodies / responses, generated as written and with every such reference
    inlined: the api modules must be byte-identical."""
    from ruamel.yaml import YAML

    from ..common import REPO
    from . import C05 as c05
    S = {"type": "string"}
    shared = {"TenantH": ("tenant", "header"), "TenantQ": ("tenant", "query"), "TenantC": ("tenant", "cookie"), "PageSizeQ": ("page_size", "query"),
              "PageSizeH": ("Page-Size", "header"), "pagesizeQ": ("pageSize", "query"), "Limit": ("limit", "query"), "limit2": ("Limit", "query")}
    paths = {}
    order = list(shared) + list(reversed(list(shared)))
    for k, c in enumerate(order):
        paths[f"/s{k}"] = {"get": {"operationId": f"s{k}", "tags": ["t"], "parameters": [{"$ref": f"#/components/parameters/{c}"}],
                                   "responses": {"200": {"$ref": "#/components/responses/Ok"}, "404": {"$ref": "#/components/responses/ok"}}}}
    paths["/both"] = {"parameters": [{"$ref": "#/components/parameters/TenantH"}], "post": {"operationId": "both", "tags": ["t"], "parameters": [{"$ref": "#/components/parameters/TenantQ"}],
                                                                                          "requestBody": {"$ref": "#/components/requestBodies/Body"}, "responses": {"200": {"$ref": "#/components/responses/Ok"}}},
                      "put": {"operationId": "both2", "tags": ["t"], "requestBody": {"$ref": "#/components/requestBodies/body"}, "responses": {"200": {"$ref": "#/components/responses/Ok"}}}}
    docs = {"shared-names": gen.mkdoc({"M": {"type": "object", "properties": {"m": S}}, "N": {"type": "object", "properties": {"n": {"type": "integer"}}}}, paths, components={
        "parameters": {c: {"name": w, "in": loc, "schema": S if "imit" not in c else {"type": "integer"}} for c, (w, loc) in shared.items()},
        "responses": {"Ok": {"description": "d", "content": {"application/json": {"schema": {"$ref": "#/components/schemas/M"}}}},
                      "ok": {"description": "d", "content": {"application/json": {"schema": {"$ref": "#/components/schemas/N"}}}}},
        "requestBodies": {"Body": {"content": {"application/json": {"schema": {"$ref": "#/components/schemas/M"}}}},
                          "body": {"content": {"application/json": {"schema": {"$ref": "#/components/schemas/N"}}}}}}),
            "maximal": c05.maximal_document()}
    for name in (["baseline_openapi_3.0.json"] if quick else ["baseline_openapi_3.0.json", "baseline_openapi_3.1.yaml"]):
        p = REPO / "end_to_end_tests" / name
        if p.exists():
            docs[name] = json.loads(p.read_text()) if name.endswith(".json") else YAML(typ="safe").load(p.read_bytes())
    for dn, doc in docs.items():
        inl = inline_components(doc)
        if json.dumps(inl, sort_keys=True, default=str) == json.dumps(doc, sort_keys=True, default=str):
            continue
        a, b = d / f"docref-{len(dn)}{abs(hash(dn)) % 1000}", d / f"docinl-{len(dn)}{abs(hash(dn)) % 1000}"
        g1, g2 = gen.generate(doc, a), gen.generate(inl, b)
        rep.count(1, ("document", dn))
        if g1["exc"] or g2["exc"] or g1["rejected"] != g2["rejected"]:
            rep.violate(f"C20/document/{dn}/generation-differs", f"{dn}: by reference {g1['exc'] or g1['rejected']}, inlined {g2['exc'] or g2['rejected']}")
            continue
        s1, s2 = gen.snapshot(a, content=True), gen.snapshot(b, content=True)
        diff = sorted(k for k in set(s1) | set(s2) if s1.get(k) != s2.get(k) and k.endswith(".py"))
        if diff:
            rep.violate(f"C20/document/{dn}/not-identical", f"{dn}: generated as written and with every component parameter / body / response inlined the clients differ in {diff[:5]}",
                        files=diff[:10], by_reference=(s1.get(diff[0]) or b"").decode(errors="replace")[:2500], inline=(s2.get(diff[0]) or b"").decode(errors="replace")[:2500])


def run(rep) -> None:
    quick = rep.tier == "quick"
    rnd = random.Random(seed() * 1033 + 20)
    d = scratch("c20-")
    try:
        rs = ops.enumerate_ops(2, 1 if quick else 2, d, bodies=None)
        ocases = []
        for r in rs:
            rep.tlc(r)
            if r.violated:
                rep.notes.append(f"TLC(Ops): {sorted(set(r.violated))}: {r.counterexample[:400]}")
                rep.extra.setdefault("tlc_law_violations", []).extend(sorted(set(r.violated)))
            ocases += r.printed
        if quick:
            refs = [c for c in ocases if ops.ref_sites(c["op"])]
            ocases = rnd.sample(refs, min(len(refs), 6000))
        ops_transparency(rep, ocases, rnd, d, quick)
        kinds_t = ["objref", "objarr", "allof", "wrap", "arr", "union", "unionarr"] + ([] if quick else ["topref", "objrefbad"])
        kinds_no = ["obj", "objinl", "enum", "prim"] + ([] if quick else ["objbadprop", "arrnoitems"])
        cases = []
        for r in pipe.enumerate_docs(3, kinds_no, kinds_t, scratch_dir=d):
            rep.tlc(r)
            if r.violated:
                rep.notes.append(f"TLC(Pipeline): {sorted(set(r.violated))}: {r.counterexample[:400]}")
                rep.extra.setdefault("tlc_law_violations", []).extend(sorted(set(r.violated)))
            cases += r.printed
        schema_references(rep, cases, rnd, d, quick)
        malformed(rep, d)
        dangling_containment(rep)
        schema_inline_equivalence(rep, d)
        documents_leg(rep, d, quick)
        # code -> spec: the resolution of references through the retry rounds, as recorded by the hooks, is a behaviour of Pipeline.tla
        tsample = rnd.sample(cases, 500 if quick else 5000)
        pipe.trace_batch(rep, [(pipe.concretize(c["doc"]), c["doc"]) for c in tsample], d, "C20",
                         lambda why, adoc: f"C20/trace/{why[:50]}" if "did not reach" not in why else None)
        rep.sample({"op": ocases[0]["op"], "sites": sorted(ops.ref_sites(ocases[0]["op"]))})
        rep.sample({"malformed": MALFORMED[:4]})
    finally:
        rmtree(d)
    rep.rule = ("operations of Ops.tla's universe with reference sites (component parameter at operation / path-item level, request body incl. "
                "chains, response), each subset of sites inlined, generated next to a conflicting context operation; every diagnostics-free "
                "3-schema document over object/array/union/alias/allOf reference kinds in all declaration orders; 12 malformed reference "
                "strings x 12 site kinds; non-trivial = distinct operation/document")
    rep.exhaustive = not quick
    rep.assumptions += ["wire behaviour of schema references is additionally covered by the codec checks (C02) on documents that use references"]
