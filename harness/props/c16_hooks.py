"""C16 / C06 leg: the post-hook list, decided by PostHooks.tla.

TLC enumerates every list of hook kinds (ok / missing program / failing command) up to MaxLen, checks H1-H3 against the operational loop and
emits the predicted (log, diagnostics, status); each list is run through the real Project.build as real shell commands (each existing hook
appends its index to a log file in the project directory; a failing one also writes to stderr and exits 3; a missing one names a program that
is not on PATH); the real log, the hook diagnostics (level + which hook) and the generated tree (minus the log) are compared with the
prediction and validated by PostHooksTrace.tla (with a corrupted observation that must be rejected).
"""
from __future__ import annotations

import contextlib
import io
import json
import multiprocessing as mp
import os
import re
import traceback
from pathlib import Path

from .. import configs as cg
from .. import gen, tlc
from ..common import NCPU

LOG = "verif_hook_log"


def command(kind: str, k: int) -> str:
    if kind == "ok":
        return f"sh -c 'echo {k} >> {LOG}'"
    if kind == "fail":
        return f"sh -c 'echo {k} >> {LOG}; echo boom-{k}- >&2; exit 3'"
    return f"verif_no_such_program_{k}_ --fix ."


def _one(job):
    hooks, work, meta = job
    from openapi_python_client import Project
    from openapi_python_client.parser import GeneratorData
    work = Path(work)
    work.mkdir(parents=True)
    cfg = gen.make_config(out=None, meta=meta, post_hooks=[command(h, k + 1) for k, h in enumerate(hooks)])
    old = os.getcwd()
    os.chdir(work)
    try:
        with gen.time_limit(120), contextlib.redirect_stdout(io.StringIO()):
            data = GeneratorData.from_dict(cg.reference_document(), config=cfg)
            pr = Project(openapi=data, config=cfg)
            errs = pr.build()
        proj = pr.project_dir
        tree = {str(p.relative_to(proj)): p.read_bytes().decode("latin-1") for p in sorted(proj.rglob("*")) if p.is_file() and ".ruff_cache" not in p.parts}
        log = [int(x) for x in tree.pop(LOG, "").split()]
        diags = []
        for e in errs:
            text = f"{e.header} | {e.detail}"
            m = re.search(r"verif_no_such_program_(\d+)_|boom-(\d+)-", text)
            if m:
                diags.append({"level": e.level.name, "idx": int(m.group(1) or m.group(2))})
            elif "failed" in (e.header or "") or "Skipping Integration" in (e.header or ""):
                diags.append({"level": e.level.name, "idx": 0})
        outside = sorted(str(p.relative_to(work)) for p in work.rglob("*") if p.is_file() and proj not in p.parents)
        return {"hooks": list(hooks), "meta": meta, "log": log, "diags": diags, "tree": tree, "outside": outside, "exc": None}
    except Exception:  # noqa: BLE001
        return {"hooks": list(hooks), "exc": traceback.format_exc(limit=-6)}
    finally:
        os.chdir(old)


def run_leg(rep, d: Path, quick: bool) -> None:
    maxlen = 4 if quick else 6
    cfgp = tlc.write_cfg(d / "hooks.cfg", {"MaxLen": maxlen}, ["TypeOK", "H1", "H2", "H3", "Emit"], props=["Mono"])
    res = tlc.run_tlc("PostHooks.tla", cfgp, workers=1, timeout=900)
    rep.tlc(res)
    if res.violated:
        raise tlc.TlcFailure(f"PostHooks.tla: the loop and the declarative laws disagree: {res.violated}\n{res.counterexample[:1200]}")
    cases = [c for c in res.printed if isinstance(c, dict) and "hooks" in c and "log" in c]
    expect = sum(3 ** n for n in range(maxlen + 1))
    if len(cases) != expect:
        raise tlc.TlcFailure(f"PostHooks.tla emitted {len(cases)} hook lists, expected {expect}")
    METAS = ["poetry", "none", "setup", "pdm"]        # the project directory is the package directory under "none": the hooks' cwd moves with it
    jobs = [(c["hooks"], str(d / f"hk-{i}"), METAS[i % 4]) for i, c in enumerate(cases)] + [([], str(d / f"hk-base-{m}"), m) for m in METAS]
    with mp.get_context("fork").Pool(max(1, NCPU - 2)) as pool:
        outs = pool.map(_one, jobs, chunksize=2)
    bases = {o["meta"]: o for o in outs[len(cases):] if not o.get("exc")}
    if len(bases) != 4:
        raise tlc.TlcFailure("a generation with an empty hook list failed: " + str([o.get("exc") for o in outs[len(cases):]])[:600])
    obs = []
    for c, o in zip(cases, outs):
        key = ",".join(c["hooks"]) or "none"
        rep.count(1, ("hooks", len(c["hooks"]), tuple(sorted(set(c["hooks"])))))
        if o.get("exc"):
            rep.violate(f"C16/post-hook-crash/{key}", f"post-hook list [{key}] crashed the generator instead of producing diagnostics: {o['exc'][-300:]}", hooks=c["hooks"])
            continue
        failed = any(x["level"] == "ERROR" for x in o["diags"])
        base = bases[o["meta"]]
        same = o["tree"] == base["tree"] and not o["outside"]
        obs.append({"tid": len(obs), "hooks": c["hooks"], "log": o["log"], "diags": o["diags"], "failed": failed, "tree_same": same})
        pd = [{"level": x["level"], "idx": x["idx"]} for x in c["diags"]]
        if o["log"] != list(c["log"]):
            rep.violate(f"C16/post-hooks-not-all-run-in-order/{key}", f"post-hook list [{key}]: hooks that ran {o['log']}, expected {list(c['log'])} (every hook whose program exists runs once, in order, also after a failing or missing one)", hooks=c["hooks"], ran=o["log"])
        if o["diags"] != pd:
            rep.violate(f"C16/post-hook-diagnostics/{key}", f"post-hook list [{key}]: diagnostics {o['diags']}, expected {pd} (WARNING per missing program, ERROR per failing command, in order)", hooks=c["hooks"], diags=o["diags"])
        if not same:
            diff = sorted(k for k in set(o["tree"]) | set(base["tree"]) if o["tree"].get(k) != base["tree"].get(k))
            rep.violate(f"C16/hooks-change-generated-files/{key}", f"post-hook list [{key}] whose hooks only append to their log: generated files differ from the run without hooks {diff[:4]} / files outside the project {o['outside'][:3]}", hooks=c["hooks"])

    def run_trace(items, name):
        f = d / name
        f.write_text("\n".join(json.dumps(x) for x in items) + "\n")
        tcfg = tlc.write_cfg(d / "hookstrace.cfg", {"MaxLen": maxlen}, [], spec="TSpec", post="Post")
        r = tlc.run_tlc("PostHooksTrace.tla", tcfg, workers=1, env={"TRACE_FILE": str(f)})
        post = [x for x in r.printed if isinstance(x, dict) and "nonconforming" in x]
        if not post or post[0]["consumed"] != len(items):
            raise tlc.TlcFailure("PostHooksTrace did not consume the observations")
        return r, post[0]
    if obs:
        r, post = run_trace(obs, "hooks.ndjson")
        rep.tlc(r)
        rep.traces += len(obs)
        for tid in post["nonconforming"]:
            x = obs[tid]
            key = ",".join(x["hooks"]) or "none"
            rep.violate(f"C16/post-hooks-trace/{key}", f"PostHooksTrace rejects the observed run of hook list [{key}]: log={x['log']} diags={x['diags']} failed={x['failed']}", hooks=x["hooks"])
        for tid in post["touched"]:
            x = obs[tid]
            key = ",".join(x["hooks"]) or "none"
            rep.violate(f"C16/hooks-change-generated-files/{key}", f"post-hook list [{key}]: generated files differ from the run without hooks", hooks=x["hooks"])
        bad = json.loads(json.dumps(next(x for x in obs if x["hooks"] == ["fail", "ok"])))
        bad["log"] = [1]
        bad["tid"] = 0
        _, p2 = run_trace([bad], "hooksself.ndjson")
        if p2["nonconforming"] != [0]:
            raise tlc.TlcFailure("PostHooksTrace accepted a corrupted observation (binding self-test)")
    rep.extra["post_hooks"] = {"max_len": maxlen, "lists": len(cases), "replayed": len(obs)}
