"""C16 leg: the custom template directory, decided by TemplateLoader.tla.

The template graph is harvested from /repo's real templates (static `from/import/include "x"` edges, dynamic
`"property_templates/" + <expr>.template` edges to every property template), TLC checks the laws T1-T3 on the
walk of every (override set, output file class) and emits the predicted cases; every override set is then given
to the real generator as a custom template directory (a copy of each named template - root templates with a marker
line appended, macro files verbatim) and what really happened (which loader served each name, which files changed,
which carry the marker) is compared with the prediction and validated by TemplateLoaderTrace.tla.
"""
from __future__ import annotations

import json
import multiprocessing as mp
import os
import re
from pathlib import Path

from .. import configs as cg
from .. import gen, tlc
from ..common import NCPU, REPO

MARK = "CUSTOM-TEMPLATE-MARKER"
STATIC = re.compile(r"""\{%-?\s*(?:from|import|include|extends)\s+"([^"]+)"\s*(?:import|as|%|-%)""")
DYNAMIC = re.compile(r"""\{%-?\s*(?:from|import|include)\s+"property_templates/"\s*\+""")

# output file class -> root templates (Project.build's get_template calls)
ROOTS = {
    "pkg/__init__.py": ["package_init.py.jinja"], "pkg/types.py": ["types.py.jinja"], "pkg/client.py": ["client.py.jinja"],
    "pkg/errors.py": ["errors.py.jinja"], "pkg/models/__init__.py": ["models_init.py.jinja"],
    "pkg/models/*": ["model.py.jinja", "str_enum.py.jinja", "int_enum.py.jinja", "literal_enum.py.jinja"],
    "pkg/api/__init__.py": ["api_init.py.jinja"], "pkg/api/*/__init__.py": ["endpoint_init.py.jinja"],
    "pkg/api/*/*": ["endpoint_module.py.jinja"], "README.md": ["README.md.jinja"], ".gitignore": [".gitignore.jinja"],
    "pyproject.toml": ["pyproject.toml.jinja"], "setup.py": ["setup.py.jinja"],
}


def harvest() -> dict:
    root = Path(REPO) / "openapi_python_client" / "templates"
    names = sorted(str(p.relative_to(root)) for p in root.rglob("*.jinja"))
    props = [n for n in names if re.fullmatch(r"property_templates/\w+_property\.py\.jinja", n)]
    deps = {}
    for n in names:
        src = (root / n).read_text()
        d = set(STATIC.findall(src))
        if DYNAMIC.search(src):
            d |= set(props)
        missing = d - set(names)
        if missing:
            raise tlc.TlcFailure(f"template {n} names templates that do not exist: {sorted(missing)}")
        deps[n] = sorted(d)
    for f, rs in ROOTS.items():
        for r in rs:
            if r not in names:
                raise tlc.TlcFailure(f"root template {r} of {f} is not among the packaged templates")
    return {"templates": names, "deps": deps, "classes": sorted(ROOTS), "roots": ROOTS}


def classify(rel: str, pkg: str) -> str | None:
    parts = rel.split("/")
    if parts[0] != pkg:
        return rel if rel in ROOTS else None
    parts = ["pkg"] + parts[1:]
    cand = "/".join(parts)
    if cand in ROOTS:
        return cand
    if len(parts) == 3 and parts[1] == "models":
        return "pkg/models/*"
    if len(parts) == 4 and parts[1] == "api":
        return "pkg/api/*/__init__.py" if parts[3] == "__init__.py" else "pkg/api/*/*"
    return None


def _one(job):
    S, work, meta = job
    from openapi_python_client import Project
    from openapi_python_client.parser import GeneratorData
    work = Path(work)
    work.mkdir(parents=True)
    src = Path(REPO) / "openapi_python_client" / "templates"
    tpl = None
    if S is not None:
        tpl = work / "templates"
        tpl.mkdir()
        roots = {r for rs in ROOTS.values() for r in rs}
        if S == ["__extra__"]:          # files the generator never looks up: a stray note, a template of no packaged name, an empty sub-directory
            (tpl / "NOTES.txt").write_text("not a template {% endfor %}")
            (tpl / "unused_template.py.jinja").write_text("{{ undefined_variable.x }}")
            (tpl / "property_templates").mkdir()
            S = []
        for t in S:
            (tpl / t).parent.mkdir(parents=True, exist_ok=True)
            text = (src / t).read_text()
            if t in roots:
                text += ("\n<!-- %s %s -->\n" if t.endswith(".md.jinja") else "\n# %s %s\n") % (MARK, t)
            (tpl / t).write_text(text)
    out = work / "out"
    cfg = gen.make_config(out=None, meta=meta)
    old = os.getcwd()
    os.chdir(work)
    try:
        import contextlib, io
        with gen.time_limit(120), contextlib.redirect_stdout(io.StringIO()):
            data = GeneratorData.from_dict(cg.reference_document(), config=cfg)
            pr = Project(openapi=data, config=cfg, custom_template_path=tpl)
            errs = pr.build()
        served = {}
        for key, t in list(pr.env.cache.items()):
            name = key[1] if isinstance(key, tuple) else str(key)
            fn = str(getattr(t, "filename", "") or "")
            served[name] = "custom" if tpl is not None and fn.startswith(str(tpl)) else "package"
        proj = pr.project_dir
        tree = {str(p.relative_to(proj)): p.read_bytes().decode("latin-1") for p in sorted(proj.rglob("*")) if p.is_file() and ".ruff_cache" not in p.parts}
        return {"S": job[0], "served": served, "tree": tree, "pkg": pr.package_name, "diags": len(errs), "exc": None}
    except Exception as e:  # noqa: BLE001
        import traceback
        return {"S": S, "exc": traceback.format_exc(limit=-6)}
    finally:
        os.chdir(old)


def run_leg(rep, d: Path, quick: bool, rnd) -> None:
    graph = harvest()
    names = graph["templates"]
    fam: list[list[str]] = [[]] + [[n] for n in names] + [list(names)]
    npairs = 24 if quick else 200
    for _ in range(npairs):
        fam.append(sorted(rnd.sample(names, rnd.choice([2, 2, 3, 5]))))
    graph["overrides"] = fam
    gfile = d / "tplgraph.json"
    gfile.write_text(json.dumps(graph))
    cfgp = tlc.write_cfg(d / "tpl.cfg", {}, ["TypeOK", "T1", "T2", "T3", "Emit"])
    res = tlc.run_tlc("TemplateLoader.tla", cfgp, workers=1, env={"TPL_GRAPH": str(gfile)}, timeout=900)
    rep.tlc(res)
    if res.violated:
        raise tlc.TlcFailure(f"TemplateLoader.tla: the walk and the declarative closure disagree: {res.violated}\n{res.counterexample[:1200]}")
    cases = [c["case"] for c in res.printed if isinstance(c, dict) and "case" in c]
    pred = {(tuple(sorted(c["S"])), c["f"]): c for c in cases}
    distinct = {tuple(sorted(s)) for s in fam}
    if len(pred) != len(distinct) * len(ROOTS):
        raise tlc.TlcFailure(f"TemplateLoader.tla emitted {len(pred)} cases, expected {len(distinct) * len(ROOTS)}")
    # ---- every look-up order (confluence of the walk): SpecAny on a few override sets - all orders of all look-ups, T1-T3 in every state
    anysets = [["property_templates/property_macros.py.jinja"]] + ([] if quick else [["helpers.jinja", "model.py.jinja"], ["endpoint_macros.py.jinja"], sorted(rnd.sample(names, 4))])
    g2 = dict(graph, overrides=anysets)
    (d / "tplgraph-any.json").write_text(json.dumps(g2))
    acfg = tlc.write_cfg(d / "tplany.cfg", {}, ["TypeOK", "T1", "T2", "T3"], spec="SpecAny")
    ares = tlc.run_tlc("TemplateLoader.tla", acfg, env={"TPL_GRAPH": str(d / "tplgraph-any.json")}, timeout=1500)
    rep.tlc(ares)
    if ares.violated:
        raise tlc.TlcFailure(f"TemplateLoader.tla: the walk is not confluent / a law fails in some look-up order: {ares.violated}\n{ares.counterexample[:1200]}")
    # ---- real generations: one per override set (+ the baseline without a custom directory), setup flavour so that every file class exists
    jobs = [(None, str(d / "tpl-base"), "setup")] + [(list(s), str(d / f"tpl-{i}"), "setup") for i, s in enumerate(sorted(distinct))]
    with mp.get_context("fork").Pool(max(1, NCPU - 2)) as pool:
        outs = pool.map(_one, jobs, chunksize=1)
    base = outs[0]
    if base.get("exc"):
        raise tlc.TlcFailure("baseline generation failed:\n" + base["exc"])
    extra = _one((["__extra__"], str(d / "tpl-extra"), "setup"))
    if extra.get("exc") or extra["tree"] != base["tree"] or "custom" in extra["served"].values():
        rep.violate("C16/custom-template-touches-other-files/stray-files", "a custom template directory holding only files the generator never looks up (a note, a template of no packaged name, an empty property_templates/) changes the output or fails: " + str(extra.get("exc"))[-300:])
    obs = []
    for o in outs[1:]:
        S = sorted(o["S"])
        key = "+".join(S) if len(S) <= 3 else f"{len(S)}-templates:{S[0]}.."
        rep.count(1, ("tpl", len(S)))
        if o.get("exc"):
            rep.violate(f"C16/custom-template-crash/{key}", f"generation with a custom template directory holding verbatim / marker-appended copies of {S[:4]} failed: {o['exc'][-300:]}", overrides=S)
            continue
        changed, marked, present = set(), set(), set()
        for rel in set(o["tree"]) | set(base["tree"]):
            cl = classify(rel, o["pkg"])
            if cl is None:
                if o["tree"].get(rel) != base["tree"].get(rel):
                    changed.add("unclassified:" + rel)
                continue
            present.add(cl)
            if o["tree"].get(rel) != base["tree"].get(rel):
                changed.add(cl)
        for cl in present:
            files = [rel for rel in o["tree"] if classify(rel, o["pkg"]) == cl]
            if files and all(MARK in o["tree"][rel] for rel in files):
                marked.add(cl)
        rec = {"tid": len(obs), "S": S, "custom": sorted(k for k, v in o["served"].items() if v == "custom"),
               "package": sorted(k for k, v in o["served"].items() if v == "package"),
               "changed": sorted(changed), "marked": sorted(marked), "present": sorted(present)}
        obs.append(rec)
        # the prediction, compared directly (spec -> code)
        for cl in sorted(ROOTS):
            c = pred[(tuple(S), cl)]
            if cl in changed and not c["touched"]:
                rep.violate(f"C16/custom-template-touches-other-files/{cl}/{key}", f"with custom templates {S[:4]} the files of class {cl} differ from the generation without a custom directory although no template they are rendered through is overridden", overrides=S, file_class=cl)
            wrong = [t for t in c["custom"] if o["served"].get(t) == "package"]
            if wrong and cl in present:
                rep.violate(f"C16/custom-template-not-used/{wrong[0]}/{key}", f"{wrong[:3]} present in the custom template directory were served from the package", overrides=S, templates=wrong)
            if cl in present and len(ROOTS[cl]) == 1 and ROOTS[cl][0] in S and cl not in marked:
                rep.violate(f"C16/custom-template-not-applied/{cl}/{key}", f"the files of class {cl} do not carry the marker of the overriding {ROOTS[cl][0]}", overrides=S, file_class=cl)
        for u in sorted(x for x in changed if x.startswith("unclassified:")):
            rep.violate(f"C16/custom-template-touches-other-files/{u}/{key}", f"with custom templates {S[:4]} the file {u} differs", overrides=S)
    # ---- code -> spec: the observations validated by TemplateLoaderTrace.tla
    def run_trace(items, name):
        f = d / name
        f.write_text("\n".join(json.dumps(x) for x in items) + "\n")
        tcfg = tlc.write_cfg(d / "tpltrace.cfg", {}, [], spec="TSpec", post="Post")
        r = tlc.run_tlc("TemplateLoaderTrace.tla", tcfg, workers=1, env={"TPL_GRAPH": str(gfile), "TRACE_FILE": str(f)})
        post = [x for x in r.printed if isinstance(x, dict) and "chain" in x]
        if not post or post[0]["consumed"] != len(items):
            raise tlc.TlcFailure("TemplateLoaderTrace did not consume the observations")
        return r, post[0]
    if obs:
        clean = [x for x in obs if not any(c.startswith("unclassified:") for c in x["changed"])]
        r, post = run_trace(clean, "tpl.ndjson")
        rep.tlc(r)
        rep.traces += len(clean)
        for reg, kind in (("chain", "custom-template-not-used"), ("confined", "custom-template-touches-other-files"), ("applied", "custom-template-not-applied")):
            for tid in post[reg]:
                x = next(y for y in clean if y["tid"] == tid)
                S = x["S"]
                key = "+".join(S) if len(S) <= 3 else f"{len(S)}-templates:{S[0]}.."
                rep.violate(f"C16/{kind}/trace/{key}", f"TemplateLoaderTrace rejects the observation ({reg}) for custom templates {S[:4]}: changed={x['changed']} marked={x['marked']}", overrides=S)
        bad = json.loads(json.dumps(next(x for x in clean if x["S"] == ["errors.py.jinja"])))
        bad["changed"] = ["pkg/client.py"]
        bad["tid"] = 0
        _, p2 = run_trace([bad], "tplself.ndjson")
        if p2["confined"] != [0]:
            raise tlc.TlcFailure("TemplateLoaderTrace accepted a corrupted observation (binding self-test)")
    rep.extra["template_loader"] = {"templates": len(names), "override_sets": len(distinct), "cases": len(pred), "edges": sum(len(v) for v in graph["deps"].values()), "all_orders_states": ares.distinct}
