"""RefWalk.tla -> documents: every reference graph of one components section, replayed through the real parser."""
from __future__ import annotations

import json
import re
from pathlib import Path

from . import gen, tlc

NAMES = ["A", "B", "C", "D"]
# "aliases": components/schemas whose reference entries are single-reference wrappers ({allOf: [$ref]}) - resolved by the retry loop;
# a BARE reference entry in components/schemas is refused like the ones of responses and parameters
SECTIONS = {"requestBodies": "walk", "responses": "onehop", "parameters": "onehop", "schemas": "onehop", "aliases": "fixpoint"}
S = {"type": "string"}
OBJ = {"requestBodies": {"content": {"application/json": {"schema": S}}},
       "responses": {"description": "d", "content": {"application/json": {"schema": S}}},
       "parameters": {"name": "p", "in": "query", "schema": S},
       "schemas": {"type": "object", "properties": {"v": {"type": "integer"}}},
       "aliases": {"type": "object", "properties": {"v": {"type": "integer"}}}}


def enumerate_graphs(mode: str, d: Path) -> tlc.TlcResult:
    cfg = tlc.write_cfg(d / f"refwalk-{mode}.cfg", {"Names": set(NAMES), "Mode": mode, "EmitJson": True}, ["W1", "Rank", "Emit"], props=["Terminates"])
    return tlc.run_tlc("RefWalkMC.tla", cfg, workers=1, extra=["-continue"], timeout=600)


def concretize(section: str, graphs: list[dict], start: int) -> tuple[dict, list[str]]:
    """One document holding len(graphs) disjoint copies of the section (names prefixed G<i>) and one operation per graph that uses G<i>A."""
    comp, paths, opids = {}, {}, []
    real = "schemas" if section == "aliases" else section
    for k, g in enumerate(graphs):
        i = start + k
        for n in NAMES:
            t = g[n]
            r = {"$ref": f"#/components/{real}/G{i}{t}"}
            comp[f"G{i}{n}"] = json.loads(json.dumps(OBJ[section])) if t == "obj" else ({"allOf": [r]} if section == "aliases" else r)
        ref = {"$ref": f"#/components/{real}/G{i}A"}
        op = {"operationId": f"g{i}", "tags": ["t"], "responses": {"200": {"description": "d"}}}
        if section == "requestBodies":
            op["requestBody"] = ref
        elif section == "responses":
            op["responses"] = {"200": ref}
        elif section == "parameters":
            op["parameters"] = [ref]
        else:
            op["responses"] = {"200": {"description": "d", "content": {"application/json": {"schema": ref}}}}
        paths[f"/g{i}"] = {"post": op}
        opids.append(f"g{i}")
    return gen.mkdoc(paths=paths, components={real: comp}), opids


def observe(section: str, data, opids: list[str]) -> dict[str, dict]:
    """operationId -> {"present": bool, "resolved": bool, "diag": text} from the parsed GeneratorData."""
    eps, diags = {}, []
    for col in data.endpoint_collections_by_tag.values():
        for e in col.endpoints:
            eps[e.name] = e
        diags += [((er.header or "") + " " + (er.detail or "")) for er in col.parse_errors]
    diags += [((er.header or "") + " " + (er.detail or "")) for er in data.errors]
    out = {}
    for oid in opids:
        e = eps.get(oid)
        pat = re.compile(rf"(/{oid}\b|G{oid[1:]}[A-DZ]\b)")
        mine = [t for t in diags if pat.search(t)]
        if e is None:
            out[oid] = {"present": False, "resolved": False, "diag": " | ".join(mine)[:300]}
            continue
        if section == "requestBodies":
            ok = len(e.bodies) == 1
        elif section == "responses":
            ok = any(str(getattr(r.status_code, "pattern", r.status_code)) == "200" and r.prop.get_type_string() == "str" for r in e.responses)
        elif section == "parameters":
            ok = any(p.name == "p" for p in e.query_parameters)
        else:
            ok = any(type(r.prop).__name__ == "ModelProperty" for r in e.responses)
        out[oid] = {"present": True, "resolved": ok, "diag": " | ".join(mine)[:300]}
    return out
