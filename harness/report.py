"""Report object filled by a property's decision procedure; turned into stdout lines, evidence, replay files."""
from __future__ import annotations

import json
import os
from pathlib import Path
import time
from dataclasses import dataclass, field
from typing import Any

from . import findings
from .common import REPO, VERIF, seed


@dataclass
class Violation:
    key: str          # canonical key built from the failing input (matched against known_findings.json)
    what: str         # one line
    replay: dict      # everything needed to reproduce (abstract case, concrete input, observed, expected)


@dataclass
class Report:
    prop: str
    tier: str
    t0: float = field(default_factory=time.time)
    violations: list[Violation] = field(default_factory=list)
    drift: list[dict] = field(default_factory=list)
    states: int = 0
    transitions: int = 0
    traces: int = 0
    evaluations: int = 0
    nontrivial: set = field(default_factory=set)
    samples: list = field(default_factory=list)
    rule: str = ""
    exhaustive: bool = False
    tlc_cmds: list[str] = field(default_factory=list)
    extra: dict[str, Any] = field(default_factory=dict)
    assumptions: list[str] = field(default_factory=list)
    notes: list[str] = field(default_factory=list)

    # ---- helpers used by decision procedures
    def tlc(self, res) -> None:
        self.states += res.states
        self.transitions += res.transitions
        self.tlc_cmds.append(f"{res.cmd}  [{res.distinct} distinct, {res.transitions} generated, depth {res.depth}, {res.wall_s}s]")

    def violate(self, key: str, what: str, **replay: Any) -> None:
        if any(v.key == key for v in self.violations):
            return
        self.violations.append(Violation(key, what, replay))

    def drifted(self, **d: Any) -> None:
        if len(self.drift) < 200:
            self.drift.append(d)
        self.extra["spec_drift"] = self.extra.get("spec_drift", 0) + 1
        k = str(d.get("mode", "?"))
        bym = self.extra.setdefault("spec_drift_by_mode", {})
        bym[k] = bym.get(k, 0) + 1

    def sample(self, s: Any, cap: int = 6) -> None:
        if len(self.samples) < cap:
            self.samples.append(s)

    def count(self, n: int = 1, nontrivial_key: Any = None) -> None:
        self.evaluations += n
        if nontrivial_key is not None:
            self.nontrivial.add(nontrivial_key)

    # ---- finish: print lines, write replays + evidence, return exit code
    def finish(self) -> int:
        known = findings.load()
        new, old = [], []
        for v in self.violations:
            e = findings.match_open(self.prop, v.key, known)
            (old if e else new).append((v, e))
        printed_known = set()
        for v, e in old:
            if e["key"] not in printed_known:
                printed_known.add(e["key"])
                print(f"KNOWN-FINDING: property={self.prop} {e['key']}: {e['what']}")
        # a run against a scratch copy of the repository (OPC_REPO: seeded changes) must not touch the evidence / replays of /repo itself
        scratch_run = str(REPO) != "/repo"
        out_root = Path(os.environ.get("VERIF_SCRATCH_OUT", "/tmp/verif-scratch-out")) / REPO.name if scratch_run else VERIF
        rdir = out_root / "replays"
        rdir.mkdir(exist_ok=True, parents=True)
        for old in rdir.glob(f"{self.prop}-*.json"):
            old.unlink()
        for i, (v, _) in enumerate(new):
            safe = "".join(c if c.isalnum() or c in "-_." else "_" for c in v.key)[:80]
            path = rdir / f"{self.prop}-{i:03d}-{safe}.json"
            path.write_text(json.dumps({"property": self.prop, "key": v.key, "what": v.what, "replay": v.replay},
                                       indent=1, default=str))
            print(f"VIOLATION property={self.prop} replay={path}")
            print(f"  key={v.key} :: {v.what}")
        for d in self.drift[:5]:
            print(f"SPEC-DRIFT property={self.prop} {json.dumps(d, default=str)[:300]}")
        cov: dict[str, Any] = {
            "states": max(self.states, 0),
            "transitions": max(self.transitions, 0),
            "traces_validated_against_impl": self.traces,
            "samples": self.samples[:8] or ["(none)"],
            "evaluations": self.evaluations,
            "distinct_nontrivial": len(self.nontrivial),
            "rule": self.rule,
            "exhaustive": self.exhaustive,
            "tlc_runs": self.tlc_cmds,
            "known_findings_seen": sorted(printed_known),
            "new_violation_keys": [v.key for v, _ in new][:50],
            "spec_drift_samples": self.drift[:10],
            "notes": self.notes,
        }
        cov.update(self.extra)
        ev = {
            "property_id": self.prop,
            "tier": self.tier,
            "seed": seed(),
            "level": "model_checking",
            "coverage": cov,
            "assumptions": self.assumptions,
            "wall_s": round(time.time() - self.t0, 2),
            "violations": len(new),
        }
        (out_root / "evidence").mkdir(exist_ok=True, parents=True)
        (out_root / "evidence" / f"{self.prop}.json").write_text(json.dumps(ev, indent=1, default=str))
        print(f"[{self.prop}/{self.tier}] states={self.states} transitions={self.transitions} traces={self.traces} "
              f"evaluations={self.evaluations} nontrivial={len(self.nontrivial)} known={len(printed_known)} "
              f"new={len(new)} drift={self.extra.get('spec_drift', 0)} wall={ev['wall_s']}s")
        return 1 if new else 0
