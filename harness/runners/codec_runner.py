"""Sandbox runner (fresh interpreter, -I): exercises generated model classes.
stdin: {"parent": dir, "pkg": name, "cases": [{"cls": "T0", "prop": "p", "wires": [[name, present?, jsonvalue], ...]}], "want_hints": bool}
stdout: {"results": {cls: {wire_name: {"dec": ..., "py": ..., "enc": ..., "enc_json_ok": bool, "redec_equal": bool}}}, "meta": {cls: {...}}}"""
import datetime
import inspect
import json
import sys
import typing
import uuid
import enum

job = json.load(sys.stdin)
sys.path.insert(0, job["parent"])
import importlib

models = importlib.import_module(job["pkg"] + ".models")
types_mod = importlib.import_module(job["pkg"] + ".types")
Unset = types_mod.Unset


def pyclass(v):
    if isinstance(v, Unset):
        return "Unset"
    if v is None:
        return "None"
    if isinstance(v, bool):
        return "bool"
    if isinstance(v, enum.Enum):
        return "Enum:" + type(v).__name__
    if isinstance(v, datetime.datetime):
        return "datetime"
    if isinstance(v, datetime.date):
        return "date"
    if isinstance(v, uuid.UUID):
        return "UUID"
    if isinstance(v, (int, float, str, dict)):
        return type(v).__name__
    if isinstance(v, list):
        inner = sorted({pyclass(x) for x in v})
        return "list[" + ",".join(inner) + "]"
    if hasattr(v, "to_dict"):
        return "Model:" + type(v).__name__
    return "other:" + type(v).__name__


def is_plain_json(v):
    if v is None or isinstance(v, (bool, int, float, str)):
        return True
    if isinstance(v, list):
        return all(is_plain_json(x) for x in v)
    if isinstance(v, dict):
        return all(isinstance(k, str) and is_plain_json(x) for k, x in v.items())
    return False


def conforms(v, hint, ns):
    """structural isinstance for the annotation forms the generator emits"""
    origin = typing.get_origin(hint)
    if hint is typing.Any:
        return True
    if hint is None or hint is type(None):
        return v is None
    if origin is typing.Union:
        return any(conforms(v, a, ns) for a in typing.get_args(hint))
    if origin is typing.Literal:
        return any(v == a and type(v) is type(a) for a in typing.get_args(hint))
    if origin in (list, typing.List):
        args = typing.get_args(hint)
        return isinstance(v, list) and (not args or all(conforms(x, args[0], ns) for x in v))
    if origin in (dict, typing.Dict):
        return isinstance(v, dict)
    if origin is tuple:
        return isinstance(v, tuple)
    if isinstance(hint, type):
        if hint is float:
            return isinstance(v, (int, float)) and not isinstance(v, bool)
        if hint is int:
            return isinstance(v, int) and not isinstance(v, bool)
        return isinstance(v, hint)
    return True   # unknown form: not judged


out = {"results": {}, "meta": {}}
for case in job["cases"]:
    cls = getattr(models, case["cls"], None)
    if cls is None:
        out["results"][case["cls"]] = {"__missing__": True}
        continue
    prop = case["prop"]
    res = {}
    try:
        hints = typing.get_type_hints(cls, vars(models) | vars(types_mod) | {"datetime": datetime, "UUID": uuid.UUID})
    except Exception as e:  # noqa: BLE001
        hints = {"__error__": repr(e)}
    pyname = case.get("pyname", prop)
    hint = hints.get(pyname)
    try:
        sig = inspect.signature(cls)
        par = sig.parameters.get(pyname)
        meta = {"mandatory": par is not None and par.default is inspect.Parameter.empty,
                "default": None if par is None or par.default is inspect.Parameter.empty else pyclass(par.default),
                "hint": str(hint), "admits_none": hint is not None and "__error__" not in hints and conforms(None, hint, None),
                "hints_error": hints.get("__error__")}
    except Exception as e:  # noqa: BLE001
        meta = {"error": repr(e)}
    out["meta"][case["cls"]] = meta
    for name, present, value in case["wires"]:
        src = {prop: value} if present else {}
        src.update(case.get("extra", {}))
        r = {}
        try:
            before = json.dumps(src, sort_keys=True, default=repr)
            obj = cls.from_dict(src)
            v = getattr(obj, pyname)
            r["dec"] = "ok"
            # decoding reads its argument: the caller's payload is left as it was, and decoding it again gives an equal object
            r["src_unchanged"] = json.dumps(src, sort_keys=True, default=repr) == before
            try:
                r["again_equal"] = cls.from_dict(src) == obj
            except Exception as e:  # noqa: BLE001
                r["again_equal"] = "raise:" + type(e).__name__
            r["py"] = pyclass(v)
            if hint is not None and "__error__" not in hints:
                r["truthful"] = conforms(v, hint, None)
            try:
                enc = obj.to_dict()
                r["enc_present"] = prop in enc
                r["enc"] = enc.get(prop)
                r["enc_plain"] = is_plain_json(enc)
                r["enc_full"] = enc if is_plain_json(enc) else repr(enc)
                try:
                    json.dumps(enc)
                    r["json_ok"] = True
                except Exception:  # noqa: BLE001
                    r["json_ok"] = False
                try:
                    r["redec_equal"] = cls.from_dict(enc) == obj
                except Exception as e:  # noqa: BLE001
                    r["redec_equal"] = "raise:" + type(e).__name__
            except Exception as e:  # noqa: BLE001
                r["enc"] = "raise:" + type(e).__name__
                r["enc_raise"] = True
        except Exception as e:  # noqa: BLE001
            r["dec"] = "raise:" + type(e).__name__
        res[name] = r
    # omitted-argument construction (defaults / mandatory arguments)
    if case.get("construct_empty"):
        try:
            obj = cls()
            v = getattr(obj, pyname)
            res["__ctor__"] = {"py": pyclass(v), "enc": obj.to_dict().get(prop, "__ABSENT__"), "value_repr": repr(v)[:100],
                               "plain": is_plain_json(obj.to_dict())}
        except TypeError as e:
            res["__ctor__"] = {"raise": "TypeError", "msg": str(e)[:100]}
        except Exception as e:  # noqa: BLE001
            res["__ctor__"] = {"raise": type(e).__name__, "msg": str(e)[:100]}
    out["results"][case["cls"]] = res
print(json.dumps(out, default=repr))
