"""Sandbox runner (fresh interpreter, -I): wire behaviour of the client generated for the C16 reference document.
stdin: {"jobs": [{"id", "parent", "pkg", "classname"}]}  stdout: {"id": observation}
The observation contains no generated NAMES, only what goes over the wire and what comes back."""
import enum
import importlib
import io
import json
import sys

import httpx

spec = json.load(sys.stdin)
out = {}
SAMPLE = {"id": 7, "1st": "first", "kind": "b", "format": "xml", "inner": {"x": "deep"}, "note": "n", "extra": 1}


def run(job):
    for m in [m for m in sys.modules if m == job["pkg"] or m.startswith(job["pkg"] + ".")]:
        del sys.modules[m]
    sys.path.insert(0, job["parent"])
    try:
        pkg = job["pkg"]
        models = importlib.import_module(pkg + ".models")
        client_mod = importlib.import_module(pkg + ".client")
        types_mod = importlib.import_module(pkg + ".types")
        obs = {}
        cls = getattr(models, job["classname"])
        inst = cls.from_dict(dict(SAMPLE))
        obs["roundtrip"] = inst.to_dict()
        try:
            cls.from_dict({"id": 1, "kind": "zzz"})
            obs["bad_enum"] = "accepted"
        except (ValueError, TypeError) as e:
            obs["bad_enum"] = "rejected"
        obs["minimal"] = cls.from_dict({"id": 1}).to_dict()
        obs["enum_values"] = {}
        for v in ("json", 'say "hi"', "C:\\temp", "two\nlines"):
            try:
                obs["enum_values"][v] = cls.from_dict({"id": 1, "format": v}).to_dict().get("format")
            except (ValueError, TypeError) as e:
                obs["enum_values"][v] = "rejected"
        seen = []
        served = {"status": 200}

        def handler(request):
            seen.append({"method": request.method, "url": str(request.url), "ctype": request.headers.get("content-type"), "body": request.content.decode("latin-1")})
            if request.url.path == "/blob":
                return httpx.Response(200, content=b"BLOBBACK", headers={"content-type": "application/vnd.Acme.Blob"})
            if served["status"] == 201:
                return httpx.Response(201, json={"ok": True})
            return httpx.Response(200, json=SAMPLE)
        client = client_mod.Client(base_url="http://t", httpx_args={"transport": httpx.MockTransport(handler)})
        calls = {}
        for tag, mod in job["placements"]:
            m = importlib.import_module(f"{pkg}.api.{tag}.{mod}")
            if mod == "create_thing":
                mode_cls = getattr(models, "CreateThingMode", None)
                mode = mode_cls("fast") if isinstance(mode_cls, type) and issubclass(mode_cls, enum.Enum) else "fast"
                r = m.sync_detailed(client=client, body=inst, mode=mode)
                calls[f"{tag}/{mod}"] = {"status": int(r.status_code), "parsed": r.parsed.to_dict() if r.parsed is not None else None}
                served["status"] = 201
                r = m.sync_detailed(client=client, body=inst, mode=mode)
                served["status"] = 200
                calls[f"{tag}/{mod}:201"] = {"status": int(r.status_code), "parsed": r.parsed.to_dict() if r.parsed is not None else None, "request": seen[-1]}
            elif mod == "get_thing":
                kind_cls = getattr(models, "GetThingKind", None)
                kind = kind_cls("a") if isinstance(kind_cls, type) and issubclass(kind_cls, enum.Enum) else "a"
                r = m.sync_detailed(7, client=client, kind=kind)
                calls[f"{tag}/{mod}"] = {"status": int(r.status_code), "parsed": r.parsed.to_dict() if r.parsed is not None else None}
            elif mod == "list_items":
                r = m.sync_detailed(client=client) if tag == "v1" else m.sync_detailed("s7", client=client)
                calls[f"{tag}/{mod}"] = {"status": int(r.status_code), "parsed": r.parsed.to_dict() if r.parsed is not None else None}
            elif mod == "upload_blob":
                r = m.sync_detailed(client=client, body=types_mod.File(payload=io.BytesIO(b"BLOBDATA")))
                calls[f"{tag}/{mod}"] = {"status": int(r.status_code), "parsed": r.parsed.payload.read().decode() if r.parsed is not None else None}
            calls[f"{tag}/{mod}"].setdefault("request", seen[-1] if seen else None)
        obs["calls"] = calls
        return obs
    except Exception as e:  # noqa: BLE001
        import traceback
        return {"error": f"{type(e).__name__}: {e}", "tb": traceback.format_exc(limit=-4)}
    finally:
        sys.path.remove(job["parent"])


for job in spec["jobs"]:
    out[job["id"]] = run(job)
print(json.dumps(out))
