"""Sandbox runner (fresh interpreter, -I): calls generated endpoint functions against httpx.MockTransport.
stdin: {"parent","pkg","calls":[{"id","module","variant","secured","raise","kwargs":{py_name: [kind, supplied?]},"body": kind|None,
        "served": {"status","ctype","body_b64"}, "via": "httpx_args"|"set_httpx_client"}]}
stdout: {"id": observation}"""
import asyncio
import base64
import datetime
import enum
import importlib
import inspect
import json
import sys
import typing
import uuid
from email.parser import BytesParser
from urllib.parse import parse_qsl

import httpx

job = json.load(sys.stdin)
sys.path.insert(0, job["parent"])
pkg = job["pkg"]
client_mod = importlib.import_module(pkg + ".client")
types_mod = importlib.import_module(pkg + ".types")
errors_mod = importlib.import_module(pkg + ".errors")
models = importlib.import_module(pkg + ".models")


def find_enum(hint):
    if isinstance(hint, type) and issubclass(hint, enum.Enum):
        return hint
    for a in typing.get_args(hint):
        e = find_enum(a)
        if e is not None:
            return e
    return None


def value_for(kind, hint):
    if kind == "str":
        return "tok"
    if kind == "int":
        return 7
    if kind == "float":
        return 1.5
    if kind == "bool":
        return True
    if kind == "date":
        return datetime.date(2020, 1, 2)
    if kind == "uuid":
        return uuid.UUID("12345678-1234-5678-1234-567812345678")
    if kind in ("list", "listform"):
        return ["x", "y"]
    if kind == "enum":
        e = find_enum(hint)
        if e is not None:
            return [m for m in e if m.value == "a"][0]
        return "a"           # literal enums
    raise ValueError(kind)


def body_for(kind, hint):
    M = getattr(models, "BodyModel", None)
    F = getattr(models, "FormModel", None)
    if kind in ("json", "vnd+json", "json|form:json", "json;param"):
        return M.from_dict({"v": 1, "name": "n"})
    if kind == "jsonarr":
        return [M.from_dict({"v": 1, "name": "n"}), M.from_dict({"v": 2, "name": "m"})]
    if kind in ("form", "json|form:form"):
        return F.from_dict({"a": "x", "b": 2})
    if kind == "multi":
        MP = getattr(models, "MultiModel")
        return MP.from_dict({"a": "x", "b": 2})
    if kind == "octet":
        import io
        return types_mod.File(payload=io.BytesIO(b"\x00raw-bytes\xff"), file_name="f.bin")
    raise ValueError(kind)


def decode_body(request):
    ct = request.headers.get("content-type", "")
    raw = request.content
    if not raw:
        return {"kind": "none", "ctype": ct}
    base = ct.split(";")[0].strip()
    try:
        if base == "application/json" or base.endswith("+json"):
            return {"kind": "json", "ctype": ct, "value": json.loads(raw)}
        if base == "application/x-www-form-urlencoded":
            return {"kind": "form", "ctype": ct, "value": parse_qsl(raw.decode(), keep_blank_values=True)}
        if base == "multipart/form-data":
            msg = BytesParser().parsebytes(b"Content-Type: " + ct.encode() + b"\r\n\r\n" + raw)
            parts = []
            for p in msg.get_payload():
                parts.append([p.get_param("name", header="content-disposition"), p.get_content_type(), p.get_payload(decode=True).decode("latin-1")])
            return {"kind": "multipart", "ctype": base, "value": parts}
        return {"kind": "raw", "ctype": ct, "value": base64.b64encode(raw).decode()}
    except Exception as e:  # noqa: BLE001
        return {"kind": "undecodable", "ctype": ct, "error": repr(e)}


def conforms(v, hint):
    origin = typing.get_origin(hint)
    if hint is typing.Any:
        return True
    if hint is None or hint is type(None):
        return v is None
    if origin is typing.Union:
        return any(conforms(v, a) for a in typing.get_args(hint))
    if origin is typing.Literal:
        return any(v == a and type(v) is type(a) for a in typing.get_args(hint))
    if origin in (list, typing.List):
        args = typing.get_args(hint)
        return isinstance(v, list) and (not args or all(conforms(x, args[0]) for x in v))
    if origin in (dict, typing.Dict):
        return isinstance(v, dict)
    if isinstance(hint, type):
        if hint is float:
            return isinstance(v, (int, float)) and not isinstance(v, bool)
        if hint is int:
            return isinstance(v, int) and not isinstance(v, bool)
        return isinstance(v, hint)
    if origin is not None and isinstance(origin, type):
        return isinstance(v, origin)
    return True


def classify(v):
    if v is None:
        return "None"
    if isinstance(v, str):
        return "text"
    if isinstance(v, bool):
        return "bool"
    if isinstance(v, int):
        return "int"
    if isinstance(v, list):
        return "list:" + ",".join(sorted({classify(x) for x in v}))
    if isinstance(v, types_mod.File):
        return "file"
    if hasattr(v, "to_dict"):
        return "model:" + type(v).__name__
    if isinstance(v, dict):
        return "dict"
    return "other:" + type(v).__name__


out = {}
for call in job["calls"]:
    obs = {"requests": []}
    try:
        mod = importlib.import_module(f"{pkg}.api.{call['module']}")
        fn = getattr(mod, call["variant"], None)
        if fn is None:
            out[call["id"]] = {"no_function": True}
            continue
        served = call["served"]

        def handler(request, served=served, obs=obs):
            obs["requests"].append({
                "method": request.method, "path": request.url.raw_path.decode().split("?")[0], "query": parse_qsl(request.url.query.decode(), keep_blank_values=True),
                "headers": {k.lower(): v for k, v in request.headers.items()}, "body": decode_body(request)})
            headers = {"x-served": "yes"}
            if served.get("ctype"):
                headers["content-type"] = served["ctype"]
            return httpx.Response(served["status"], headers=headers, content=base64.b64decode(served.get("body_b64", "")))

        is_async = call["variant"].startswith("asyncio")
        transport = httpx.MockTransport(handler)
        hints = typing.get_type_hints(fn, vars(models) | vars(types_mod) | vars(client_mod) | {"datetime": datetime, "UUID": uuid.UUID})
        sig = inspect.signature(fn)
        obs["client_annotation"] = str(sig.parameters["client"].annotation) if "client" in sig.parameters else None
        obs["params"] = {n: {"mandatory": p.default is inspect.Parameter.empty, "hint": str(hints.get(n))} for n, p in sig.parameters.items()}
        cls = client_mod.AuthenticatedClient if call["secured"] else client_mod.Client
        ckw = {"base_url": "http://testserver/base", "raise_on_unexpected_status": call["raise"]}
        if call["secured"]:
            ckw["token"] = "token"
        if call.get("via") == "set_httpx_client":
            client = cls(**ckw)
            if is_async:
                client.set_async_httpx_client(httpx.AsyncClient(base_url="http://testserver/base", transport=transport))
            else:
                client.set_httpx_client(httpx.Client(base_url="http://testserver/base", transport=transport))
        else:
            client = cls(httpx_args={"transport": transport}, **ckw)
        kwargs = {"client": client}
        for name, (kind, supplied) in call["kwargs"].items():
            if supplied:
                kwargs[name] = value_for(kind, hints.get(name))
        if call.get("body"):
            kwargs["body"] = body_for(call["body"], hints.get("body"))
        try:
            res = asyncio.run(fn(**kwargs)) if is_async else fn(**kwargs)
            rh = hints.get("return")
            if call["variant"].endswith("_detailed"):
                inner = typing.get_args(rh)[0] if rh is not None and typing.get_args(rh) else typing.Any
                obs["truthful_return"] = conforms(res.parsed, typing.Optional[inner]) if inner is not typing.Any else True
                obs["return_hint"] = str(rh)
            elif rh is not None:
                obs["truthful_return"] = conforms(res, rh)
                obs["return_hint"] = str(rh)
            if call["variant"].endswith("_detailed"):
                obs["return"] = {"type": type(res).__name__, "status": int(res.status_code), "content_b64": base64.b64encode(res.content).decode(),
                                 "x_served": res.headers.get("x-served"), "parsed": classify(res.parsed)}
                if hasattr(res.parsed, "to_dict"):
                    obs["return"]["parsed_value"] = res.parsed.to_dict()
                elif isinstance(res.parsed, (str, int, float, bool)) or res.parsed is None:
                    obs["return"]["parsed_value"] = res.parsed
                elif isinstance(res.parsed, list):
                    obs["return"]["parsed_value"] = [x.to_dict() if hasattr(x, "to_dict") else x for x in res.parsed]
                elif isinstance(res.parsed, types_mod.File):
                    obs["return"]["parsed_value"] = base64.b64encode(res.parsed.payload.read()).decode()
            else:
                obs["return"] = {"type": "plain", "parsed": classify(res)}
        except Exception as e:  # noqa: BLE001
            obs["raised"] = {"type": type(e).__name__, "msg": str(e)[:200], "is_unexpected_status": isinstance(e, errors_mod.UnexpectedStatus),
                             "status": getattr(e, "status_code", None)}
    except Exception as e:  # noqa: BLE001
        obs["harness_error"] = repr(e)[:300]
    out[call["id"]] = obs
print(json.dumps(out, default=repr))
