"""Sandbox runner for enums / consts (fresh interpreter).  stdin: {"parent","pkg","cases":[{"holder","enum","values","null","probe"}]}"""
import enum
import importlib
import json
import sys
import typing

job = json.load(sys.stdin)
sys.path.insert(0, job["parent"])
models = importlib.import_module(job["pkg"] + ".models")
types_mod = importlib.import_module(job["pkg"] + ".types")
out = {}
for c in job["cases"]:
    r = {}
    H = getattr(models, c["holder"], None)
    E = getattr(models, c["enum"], None) if c.get("enum") else None
    if H is None:
        out[c["holder"]] = {"missing": True}
        continue
    if E is not None:
        if isinstance(E, type) and issubclass(E, enum.Enum):
            r["members"] = {m.name: m.value for m in E}
            r["style"] = "class"
        else:
            r["members"] = {repr(a): a for a in typing.get_args(E)}
            r["style"] = "literal"
    else:
        r["members"] = None
    dec = {}
    for v in c["values"] + c.get("probe", []) + ([None] if True else []):
        key = json.dumps(v)
        try:
            o = H.from_dict({"e": v})
            got = o.e
            e = o.to_dict()
            dec[key] = {"ok": True, "py": type(got).__name__, "is_member": isinstance(got, enum.Enum), "value": got.value if isinstance(got, enum.Enum) else got,
                        "enc": e.get("e", "__ABSENT__"), "none": got is None}
        except Exception as ex:  # noqa: BLE001
            dec[key] = {"ok": False, "err": type(ex).__name__}
    r["dec"] = dec
    try:
        o = H.from_dict({})
        r["absent"] = type(o.e).__name__
    except Exception as ex:  # noqa: BLE001
        r["absent"] = "raise:" + type(ex).__name__
    out[c["holder"]] = r
print(json.dumps(out, default=repr))
