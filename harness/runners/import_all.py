"""Sandbox runner (fresh interpreter): import every module of each generated package listed on stdin (JSON list of
[parent_dir, package_name]); print JSON {pkg: {module: error}} for failures.  Only httpx/attrs/dateutil + stdlib are used
by generated code; the generator itself is NOT importable here (-I and a clean sys.path)."""
import importlib
import json
import os
import sys
import traceback

jobs = json.load(sys.stdin)
out = {}
for parent, pkg in jobs:
    errs = {}
    sys.path.insert(0, parent)
    try:
        root = os.path.join(parent, pkg)
        mods = []
        for dp, dn, fn in os.walk(root):
            dn[:] = [d for d in dn if d != "__pycache__"]
            for f in fn:
                if f.endswith(".py"):
                    rel = os.path.relpath(os.path.join(dp, f), parent)[:-3].replace(os.sep, ".")
                    if rel.endswith(".__init__"):
                        rel = rel[: -len(".__init__")]
                    mods.append(rel)
        for m in sorted(mods):
            try:
                importlib.import_module(m)
            except BaseException as e:  # noqa: BLE001
                errs[m] = f"{type(e).__name__}: {e}"[:300]
    finally:
        sys.path.remove(parent)
        for k in [k for k in sys.modules if k == pkg or k.startswith(pkg + ".")]:
            del sys.modules[k]
    if errs:
        out[pkg] = errs
print(json.dumps(out))
