"""Sandbox runner (fresh interpreter, -I): replays histories of ClientLifecycle.tla on the real generated Client / AuthenticatedClient.
stdin: {"parent", "pkg", "module", "histories": [{"id", "hist": [...]}]}   stdout: {"id": outcome of the last call}"""
import asyncio
import importlib
import json
import sys

import httpx

job = json.load(sys.stdin)
sys.path.insert(0, job["parent"])
pkg = job["pkg"]
client_mod = importlib.import_module(pkg + ".client")
op = importlib.import_module(pkg + ".api." + job["module"])
TIMES = {"t1": 1.0, "t2": 2.0}


def run(hist):
    seen = []

    def handler(request):
        seen.append(request)
        return httpx.Response(204)

    async def main():
        objs = []
        last = None
        for ev in hist:
            o = ev["op"]
            if o == "create":
                kw = {"base_url": "http://t", "httpx_args": {"transport": httpx.MockTransport(handler)}}
                objs.append(client_mod.AuthenticatedClient(token="tok", **kw) if ev["kind"] == "auth" else client_mod.Client(**kw))
                continue
            c = objs[ev["i"] - 1]
            m = ev.get("m")
            if o == "with_headers":
                objs.append(c.with_headers({ev["n"]: ev["v"]}))
            elif o == "with_cookies":
                objs.append(c.with_cookies({ev["n"]: ev["v"]}))
            elif o == "with_timeout":
                objs.append(c.with_timeout(httpx.Timeout(TIMES[ev["t"]])))
            elif o == "set_token":
                c.token = ev["k"]
            elif o == "get":
                c.get_httpx_client() if m == "s" else c.get_async_httpx_client()
            elif o == "enter":
                if m == "s":
                    c.__enter__()
                else:
                    await c.__aenter__()
            elif o == "exit":
                if m == "s":
                    c.__exit__(None, None, None)
                else:
                    await c.__aexit__(None, None, None)
            elif o == "set_user":
                if m == "s":
                    c.set_httpx_client(httpx.Client(base_url="http://t", transport=httpx.MockTransport(handler)))
                else:
                    c.set_async_httpx_client(httpx.AsyncClient(base_url="http://t", transport=httpx.MockTransport(handler)))
            elif o == "call":
                n0 = len(seen)
                try:
                    kw = {} if ev.get("a", "-") == "-" else {"ck": ev["a"]}
                    if m == "s":
                        op.sync_detailed(client=c, **kw)
                    else:
                        await op.asyncio_detailed(client=c, **kw)
                    if len(seen) != n0 + 1:
                        last = {"res": "requests:" + str(len(seen) - n0)}
                    else:
                        r = seen[-1]
                        cookies = dict(p.strip().split("=", 1) for p in r.headers.get("cookie", "").split(";") if "=" in p)
                        t = r.extensions.get("timeout", {}).get("read")
                        last = {"res": "sent", "hdrs": {n: r.headers.get(n, "-") for n in ("h1", "h2")}, "cks": {n: cookies.get(n, "-") for n in ("h1", "h2")}, "arg": cookies.get("ck", "-"),
                                "auth": {None: "-", "Bearer tok": "tok", "Bearer tok2": "tok2"}.get(r.headers.get("authorization"), "other"), "authraw": r.headers.get("authorization"),
                                "time": {None: "t0", 1.0: "t1", 2.0: "t2", 5.0: "tu"}.get(t, str(t))}
                except RuntimeError as e:
                    last = {"res": "raised", "why": str(e)[:80]}
        return last
    try:
        return asyncio.run(main())
    except Exception as e:  # noqa: BLE001
        return {"res": "error", "why": f"{type(e).__name__}: {e}"[:200]}


out = {}
for h in job["histories"]:
    out[h["id"]] = run(h["hist"])
print(json.dumps(out))
