"""Sandbox runner (fresh interpreter, -I): calls generated endpoint functions with ONE parameter `p`, once per value class (atom) of
ParamWire.tla, against httpx.MockTransport, and reports what reached the wire.
stdin: {"parent","pkg","cases":[{"id","module","loc","kind","atom","variant"}]}   stdout: {"id": {"t": placed|notsent|raise, "f": form, ...}}"""
import asyncio
import datetime
import enum
import importlib
import json
import sys
import typing
import uuid
from email.parser import BytesParser
from urllib.parse import parse_qsl, unquote

import httpx

job = json.load(sys.stdin)
sys.path.insert(0, job["parent"])
pkg = job["pkg"]
client_mod = importlib.import_module(pkg + ".client")
types_mod = importlib.import_module(pkg + ".types")
models = importlib.import_module(pkg + ".models")
UID = uuid.UUID("12345678-1234-5678-1234-567812345678")
DT = datetime.datetime(2020, 1, 2, 3, 4, 5, tzinfo=datetime.timezone.utc)
CANON = {"s": "tok", "i7": "7", "i0": "0", "f15": "1.5", "fint": "2", "T": "true", "F": "false", "ea": "a", "eb": "b", "e1": "1", "e2": "2",
         "d": "2020-01-02", "dt": "2020-01-02T03:04:05+00:00", "u": str(UID), "k": "k", "as": "x", "ai": "3"}
L2 = {"list": ["x", "y"], "listint": ["7", "0"], "listenum": ["a", "b"]}


def find(hint, pred):
    if pred(hint):
        return hint
    for x in typing.get_args(hint):
        r = find(x, pred)
        if r is not None:
            return r
    return None


def member(hint, value):
    e = find(hint, lambda h: isinstance(h, type) and issubclass(h, enum.Enum))
    if e is None:
        return value                      # literal enums: the plain value
    return [m for m in e if m.value == value][0]


def value_of(kind, atom, hint):
    if atom in ("ea", "eb"):
        return member(hint, atom[1])
    if atom in ("e1", "e2"):
        return member(hint, int(atom[1]))
    if atom == "l2":
        return {"list": ["x", "y"], "listint": [7, 0], "listenum": [member(hint, "a"), member(hint, "b")]}[kind]
    if atom == "m":
        cls = find(hint, lambda h: isinstance(h, type) and hasattr(h, "from_dict"))
        return cls.from_dict({"a": "x"})
    return {"s": "tok", "i7": 7, "i0": 0, "f15": 1.5, "fint": 2, "T": True, "F": False, "d": datetime.date(2020, 1, 2), "dt": DT, "u": UID, "l0": [],
            "N": None, "as": "x", "ai": 3, "k": "k"}[atom]


def admits(v, hint):
    o = typing.get_origin(hint)
    if hint is typing.Any:
        return True
    if hint is None or hint is type(None):
        return v is None
    if o is typing.Union:
        return any(admits(v, x) for x in typing.get_args(hint))
    if o is typing.Literal:
        return any(v == x and type(v) is type(x) for x in typing.get_args(hint))
    if o is list:
        return isinstance(v, list) and all(admits(x, typing.get_args(hint)[0]) for x in v)
    if isinstance(hint, type):
        if hint is float:
            return isinstance(v, (int, float)) and not isinstance(v, bool)
        if hint is int:
            return isinstance(v, int) and not isinstance(v, bool)
        if hint is datetime.date:
            return isinstance(v, datetime.date) and not isinstance(v, datetime.datetime)
        return isinstance(v, hint)
    return False


def classify_body(loc, kind, atom, seen):
    """a property p of a form-urlencoded / multipart body -> (t, f, text)"""
    want = CANON.get(atom)
    if loc == "form":
        texts = [v for k, v in parse_qsl(seen["content"].decode(), keep_blank_values=True) if k == "p"]
        if not texts:
            return "notsent", "-", ""
        if atom == "l2":
            return "placed", ("canon" if texts == L2[kind] else "other"), str(texts)
        text = texts[0] if len(texts) == 1 else str(texts)
        if want is not None and text == want:
            return "placed", "canon", text
        if text == "":
            return "placed", "empty", text
        if text[:1] in "[{" or "(" in text:
            return "placed", "pyrepr", text
        return "placed", "other", text
    ct = seen["headers"].get("content-type", "")
    msg = BytesParser().parsebytes(b"Content-Type: " + ct.encode() + b"\r\n\r\n" + seen["content"])
    parts = [q for q in (msg.get_payload() if msg.is_multipart() else []) if q.get_param("name", header="content-disposition") == "p"]
    if not parts:
        return "notsent", "-", ""
    if len(parts) != 1:
        return "placed", "other", f"{len(parts)} parts"
    q = parts[0]
    ptype, text, fname = q.get_content_type(), q.get_payload(decode=True).decode("utf-8", "replace"), q.get_filename()
    desc = f"{ptype}:{text[:60]}" + (f" filename={fname}" if fname else "")
    if ptype == "application/json":
        try:
            val = json.loads(text)
        except ValueError:
            return "placed", "other", desc
        exp = {"l2": {"list": ["x", "y"], "listint": [7, 0], "listenum": ["a", "b"]}.get(kind), "l0": [], "m": {"a": "x"}}.get(atom, "?")
        return "placed", ("json" if val == exp else "other"), desc
    if fname is not None:
        return "placed", ("filepart" if want is not None and text == want else "other"), desc
    if want is not None and text == want:
        return "placed", "canon", desc
    if atom in ("T", "F") and text == {"T": "True", "F": "False"}[atom]:
        return "placed", "pycap", desc
    if text == "None":
        return "placed", "nonetext", desc
    return "placed", "other", desc


JSON_OF = {"s": "tok", "i7": 7, "i0": 0, "f15": 1.5, "fint": 2, "T": True, "F": False, "ea": "a", "eb": "b", "e1": 1, "e2": 2, "d": "2020-01-02",
           "dt": "2020-01-02T03:04:05+00:00", "u": str(UID), "k": "k", "as": "x", "ai": 3, "N": None, "l0": [], "m": {"a": "x"}}


def classify_json(kind, atom, seen):
    try:
        val = json.loads(seen["content"].decode())
    except ValueError:
        return ("notsent", "-", "") if not seen["content"] else ("placed", "other", seen["content"][:60].decode("latin-1"))
    exp = {"list": ["x", "y"], "listint": [7, 0], "listenum": ["a", "b"]}[kind] if atom == "l2" else JSON_OF[atom]
    same = val == exp and type(val) is type(exp)
    return "placed", ("json" if same else "other"), json.dumps(val)[:80]


def classify(loc, kind, atom, seen):
    """-> (t, f, text)"""
    if loc == "json":
        return classify_json(kind, atom, seen)
    if loc in ("form", "multipart"):
        return classify_body(loc, kind, atom, seen)
    if loc == "path":
        text = unquote(seen["path"].rsplit("/", 1)[-1])
        texts = [text]
    elif loc == "query":
        texts = [v for k, v in seen["query"] if k == "p"]
        others = [k for k, v in seen["query"] if k != "p"]
        if not texts and others:
            return "placed", "spread" if seen["query"] == [("a", "x")] else "other", str(seen["query"])
        if not texts:
            return "notsent", "-", ""
    elif loc == "header":
        if "p" not in seen["headers"]:
            return "notsent", "-", ""
        texts = [seen["headers"]["p"]]
    else:
        ck = seen["headers"].get("cookie")
        if ck is None:
            return "notsent", "-", ""
        parts = [c.strip() for c in ck.split(";")]
        if "p" in parts:
            return "placed", "bare", ck
        texts = [c[2:] for c in parts if c.startswith("p=")]
        if not texts:
            return "notsent", "-", ck
    if atom == "l2" and loc == "query":
        return "placed", ("canon" if texts == L2[kind] else "other"), str(texts)
    text = texts[0] if len(texts) == 1 else str(texts)
    want = CANON.get(atom)
    if want is not None and text == want:
        return "placed", "canon", text
    if atom in ("T", "F") and text == {"T": "True", "F": "False"}[atom]:
        return "placed", "pycap", text
    if atom == "dt" and text == "2020-01-02 03:04:05+00:00":
        return "placed", "spacedt", text
    if text[:1] in "[{" or "(" in text:
        return "placed", "pyrepr", text
    return "placed", "other", text


out = {}
for case in job["cases"]:
    obs = {}
    try:
        mod = importlib.import_module(f"{pkg}.api.{case['module']}")
        fn = getattr(mod, case["variant"])
        ns = vars(models) | vars(types_mod) | vars(client_mod) | {"datetime": datetime, "UUID": uuid.UUID}
        body_cls = getattr(models, case["body_class"]) if case.get("body_class") else None
        is_json_body = case["loc"] == "json"
        hint = typing.get_type_hints(body_cls, ns)["p"] if body_cls is not None else typing.get_type_hints(fn, ns)["body" if is_json_body else "p"]
        obs["hint"] = str(hint).replace("typing.", "").replace(pkg + ".", "")
        seen = []

        def handler(request, seen=seen):
            seen.append({"path": request.url.raw_path.decode().split("?")[0], "query": parse_qsl(request.url.query.decode(), keep_blank_values=True),
                         "headers": {k.lower(): v for k, v in request.headers.items()}, "content": request.content})
            return httpx.Response(204)

        client = client_mod.Client(base_url="http://testserver/b", httpx_args={"transport": httpx.MockTransport(handler)})
        kwargs = {"client": client}
        if case["atom"] == "U":
            obs["admitted"] = admits(types_mod.UNSET, hint)
            if body_cls is not None:
                kwargs["body"] = body_cls(z="zz")
        else:
            val = value_of(case["kind"], case["atom"], hint)
            obs["admitted"] = admits(val, hint)
            if body_cls is not None:
                kwargs["body"] = body_cls(p=val, z="zz")
            elif is_json_body:
                kwargs["body"] = val
            else:
                kwargs["p"] = val
        try:
            asyncio.run(fn(**kwargs)) if case["variant"].startswith("asyncio") else fn(**kwargs)
            obs["requests"] = len(seen)
            if len(seen) == 1:
                obs["t"], obs["f"], obs["text"] = classify(case["loc"], case["kind"], case["atom"], seen[0])
            else:
                obs["t"], obs["f"], obs["text"] = "norequest", "-", ""
        except Exception as e:  # noqa: BLE001
            obs["t"], obs["f"], obs["text"] = "raise", "-", f"{type(e).__name__}: {str(e)[:120]}"
    except Exception as e:  # noqa: BLE001
        obs["harness_error"] = repr(e)[:300]
    out[case["id"]] = obs
print(json.dumps(out))
