"""Sandbox runner (fresh interpreter, -I): calls generated endpoint functions with ONE parameter `p`, once per value class (atom) of
ParamWire.tla, against httpx.MockTransport, and reports what reached the wire.
stdin: {"parent","pkg","cases":[{"id","module","loc","kind","atom","variant"}]}   stdout: {"id": {"t": placed|notsent|raise, "f": form, ...}}"""
import asyncio
import datetime
import enum
import importlib
import json
import sys
import typing
import uuid
from urllib.parse import parse_qsl, unquote

import httpx

job = json.load(sys.stdin)
sys.path.insert(0, job["parent"])
pkg = job["pkg"]
client_mod = importlib.import_module(pkg + ".client")
types_mod = importlib.import_module(pkg + ".types")
models = importlib.import_module(pkg + ".models")
UID = uuid.UUID("12345678-1234-5678-1234-567812345678")
DT = datetime.datetime(2020, 1, 2, 3, 4, 5, tzinfo=datetime.timezone.utc)
CANON = {"s": "tok", "i7": "7", "i0": "0", "f15": "1.5", "fint": "2", "T": "true", "F": "false", "ea": "a", "eb": "b", "e1": "1", "e2": "2",
         "d": "2020-01-02", "dt": "2020-01-02T03:04:05+00:00", "u": str(UID), "k": "k", "as": "x", "ai": "3"}
L2 = {"list": ["x", "y"], "listint": ["7", "0"], "listenum": ["a", "b"]}


def find(hint, pred):
    if pred(hint):
        return hint
    for x in typing.get_args(hint):
        r = find(x, pred)
        if r is not None:
            return r
    return None


def member(hint, value):
    e = find(hint, lambda h: isinstance(h, type) and issubclass(h, enum.Enum))
    if e is None:
        return value                      # literal enums: the plain value
    return [m for m in e if m.value == value][0]


def value_of(kind, atom, hint):
    if atom in ("ea", "eb"):
        return member(hint, atom[1])
    if atom in ("e1", "e2"):
        return member(hint, int(atom[1]))
    if atom == "l2":
        return {"list": ["x", "y"], "listint": [7, 0], "listenum": [member(hint, "a"), member(hint, "b")]}[kind]
    if atom == "m":
        cls = find(hint, lambda h: isinstance(h, type) and hasattr(h, "from_dict"))
        return cls.from_dict({"a": "x"})
    return {"s": "tok", "i7": 7, "i0": 0, "f15": 1.5, "fint": 2, "T": True, "F": False, "d": datetime.date(2020, 1, 2), "dt": DT, "u": UID, "l0": [],
            "N": None, "as": "x", "ai": 3, "k": "k"}[atom]


def admits(v, hint):
    o = typing.get_origin(hint)
    if hint is typing.Any:
        return True
    if hint is None or hint is type(None):
        return v is None
    if o is typing.Union:
        return any(admits(v, x) for x in typing.get_args(hint))
    if o is typing.Literal:
        return any(v == x and type(v) is type(x) for x in typing.get_args(hint))
    if o is list:
        return isinstance(v, list) and all(admits(x, typing.get_args(hint)[0]) for x in v)
    if isinstance(hint, type):
        if hint is float:
            return isinstance(v, (int, float)) and not isinstance(v, bool)
        if hint is int:
            return isinstance(v, int) and not isinstance(v, bool)
        if hint is datetime.date:
            return isinstance(v, datetime.date) and not isinstance(v, datetime.datetime)
        return isinstance(v, hint)
    return False


def classify(loc, kind, atom, seen):
    """-> (t, f, text)"""
    if loc == "path":
        text = unquote(seen["path"].rsplit("/", 1)[-1])
        texts = [text]
    elif loc == "query":
        texts = [v for k, v in seen["query"] if k == "p"]
        others = [k for k, v in seen["query"] if k != "p"]
        if not texts and others:
            return "placed", "spread" if seen["query"] == [("a", "x")] else "other", str(seen["query"])
        if not texts:
            return "notsent", "-", ""
    elif loc == "header":
        if "p" not in seen["headers"]:
            return "notsent", "-", ""
        texts = [seen["headers"]["p"]]
    else:
        ck = seen["headers"].get("cookie")
        if ck is None:
            return "notsent", "-", ""
        parts = [c.strip() for c in ck.split(";")]
        if "p" in parts:
            return "placed", "bare", ck
        texts = [c[2:] for c in parts if c.startswith("p=")]
        if not texts:
            return "notsent", "-", ck
    if atom == "l2" and loc == "query":
        return "placed", ("canon" if texts == L2[kind] else "other"), str(texts)
    text = texts[0] if len(texts) == 1 else str(texts)
    want = CANON.get(atom)
    if want is not None and text == want:
        return "placed", "canon", text
    if atom in ("T", "F") and text == {"T": "True", "F": "False"}[atom]:
        return "placed", "pycap", text
    if atom == "dt" and text == "2020-01-02 03:04:05+00:00":
        return "placed", "spacedt", text
    if text[:1] in "[{" or "(" in text:
        return "placed", "pyrepr", text
    return "placed", "other", text


out = {}
for case in job["cases"]:
    obs = {}
    try:
        mod = importlib.import_module(f"{pkg}.api.{case['module']}")
        fn = getattr(mod, case["variant"])
        hints = typing.get_type_hints(fn, vars(models) | vars(types_mod) | vars(client_mod) | {"datetime": datetime, "UUID": uuid.UUID})
        hint = hints["p"]
        obs["hint"] = str(hint).replace("typing.", "").replace(pkg + ".", "")
        seen = []

        def handler(request, seen=seen):
            seen.append({"path": request.url.raw_path.decode().split("?")[0], "query": parse_qsl(request.url.query.decode(), keep_blank_values=True),
                         "headers": {k.lower(): v for k, v in request.headers.items()}})
            return httpx.Response(204)

        client = client_mod.Client(base_url="http://testserver/b", httpx_args={"transport": httpx.MockTransport(handler)})
        kwargs = {"client": client}
        if case["atom"] == "U":
            obs["admitted"] = admits(types_mod.UNSET, hint)
        else:
            kwargs["p"] = value_of(case["kind"], case["atom"], hint)
            obs["admitted"] = admits(kwargs["p"], hint)
        try:
            asyncio.run(fn(**kwargs)) if case["variant"].startswith("asyncio") else fn(**kwargs)
            obs["requests"] = len(seen)
            if len(seen) == 1:
                obs["t"], obs["f"], obs["text"] = classify(case["loc"], case["kind"], case["atom"], seen[0])
            else:
                obs["t"], obs["f"], obs["text"] = "norequest", "-", ""
        except Exception as e:  # noqa: BLE001
            obs["t"], obs["f"], obs["text"] = "raise", "-", f"{type(e).__name__}: {str(e)[:120]}"
    except Exception as e:  # noqa: BLE001
        obs["harness_error"] = repr(e)[:300]
    out[case["id"]] = obs
print(json.dumps(out))
