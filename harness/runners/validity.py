"""Runs under python3-vt (has jsonschema): schema-validity screening of instances, independent of the harness's own opinion.
stdin: {"components": {...}, "items": [[schema, [instances...]], ...]}  stdout: [[bool,...],...]
oneOf is read as anyOf (the generator does not distinguish them; an instance valid for two members is in scope).
Formats date / date-time / uuid accept only the canonical spelling produced by isoformat() / str(UUID)."""
import datetime
import json
import sys
import uuid

import jsonschema

job = json.load(sys.stdin)
fc = jsonschema.FormatChecker(formats=())


@fc.checks("date")
def _d(v):
    if not isinstance(v, str):
        return True
    try:
        return datetime.date.fromisoformat(v).isoformat() == v and len(v) == 10
    except ValueError:
        return False


@fc.checks("date-time")
def _dt(v):
    if not isinstance(v, str):
        return True
    try:
        return datetime.datetime.fromisoformat(v).isoformat() == v
    except ValueError:
        return False


@fc.checks("uuid")
def _u(v):
    if not isinstance(v, str):
        return True
    try:
        return str(uuid.UUID(v)) == v
    except ValueError:
        return False


def any_of(s):
    if isinstance(s, dict):
        return {("anyOf" if k == "oneOf" else k): any_of(v) for k, v in s.items()}
    if isinstance(s, list):
        return [any_of(x) for x in s]
    return s


out = []
for schema, instances in job["items"]:
    full = {"$schema": "https://json-schema.org/draft/2020-12/schema", **any_of(schema), "components": {"schemas": any_of(job["components"])}}
    v = jsonschema.Draft202012Validator(full, format_checker=fc)
    out.append([v.is_valid(x) for x in instances])
print(json.dumps(out))
