"""Run TLC / SANY, parse statistics, PrintT-JSON output, coverage and invariant violations."""
from __future__ import annotations

import json
import os
import re
import subprocess
import time
from dataclasses import dataclass, field
from pathlib import Path

from .common import NCPU, SPEC, rmtree, scratch

JAR = "/opt/veriftools/tla/tla2tools.jar:/opt/veriftools/tla/CommunityModules-deps.jar"


class TlcFailure(RuntimeError):
    """Machinery failure (exit 2): TLC did not run to a verdict."""


@dataclass
class TlcResult:
    ok: bool
    states: int = 0
    distinct: int = 0
    transitions: int = 0
    depth: int = 0
    wall_s: float = 0.0
    violated: list[str] = field(default_factory=list)  # invariant / property names
    printed: list = field(default_factory=list)  # decoded PrintT values (JSON)
    raw_printed: list[str] = field(default_factory=list)
    coverage: dict[str, int] = field(default_factory=dict)  # action -> count
    cmd: str = ""
    out: str = ""
    counterexample: str = ""


_STATS = re.compile(r"(\d+) states generated, (\d+) distinct states found, (\d+) states left on queue")
_DEPTH = re.compile(r"The depth of the complete state graph search is (\d+)")
_VIOL = re.compile(r"Invariant (\S+) is violated|Action property (\S+) is violated|Temporal properties were violated")
_COV = re.compile(r"^<(\w+) line \d+, col \d+ to line \d+, col \d+ of module \w+>: (\d+):(\d+)")


def sany(module: Path) -> None:
    r = subprocess.run(
        ["java", "-cp", JAR, "tla2sany.SANY", module.name], cwd=module.parent, capture_output=True, text=True
    )
    if r.returncode != 0 or "Semantic errors" in r.stdout or "Parse Error" in r.stdout or "Fatal errors" in r.stdout:
        raise TlcFailure(f"SANY rejected {module}:\n{r.stdout[-3000:]}")


def _cpu_ticks(pid: int) -> int:
    try:
        f = open(f"/proc/{pid}/stat").read().rsplit(")", 1)[1].split()
        return int(f[11]) + int(f[12])
    except (OSError, IndexError, ValueError):
        return -1


def _run_watched(cmd: list[str], cwd, env: dict, timeout: int, meta: Path, stall: int = 240, attempts: int = 2) -> str:
    """Run TLC, watching the JVM: one that stops consuming CPU for `stall` seconds is hung (seen once with dozens of JVMs on the machine: a
    TLC process sat at 8 CPU-seconds for 25 minutes) - it is killed and the run is repeated once.  A hung or timed-out TLC is a machinery
    failure (exit 2), never a verdict."""
    last_err = ""
    for attempt in range(attempts):
        so, se = meta / f"tlc-{attempt}.out", meta / f"tlc-{attempt}.err"
        meta.mkdir(parents=True, exist_ok=True)
        with open(so, "w") as fo, open(se, "w") as fe:
            p = subprocess.Popen(cmd, cwd=cwd, stdout=fo, stderr=fe, env=env)
            t0 = time.time()
            ticks, since = _cpu_ticks(p.pid), time.time()
            why = None
            while True:
                try:
                    p.wait(timeout=5)
                    break
                except subprocess.TimeoutExpired:
                    pass
                now = _cpu_ticks(p.pid)
                if now != ticks:
                    ticks, since = now, time.time()
                if time.time() - since > stall:
                    why = f"no CPU consumed for {stall}s"
                elif time.time() - t0 > timeout:
                    why = f"timed out after {timeout}s"
                if why:
                    p.kill()
                    p.wait()
                    break
        out = so.read_text(errors="replace") + se.read_text(errors="replace")
        if why is None:
            return out
        last_err = why
        if why.startswith("timed out"):
            break
    raise TlcFailure(f"TLC {last_err}: {' '.join(cmd)}")


def run_tlc(
    module: str | Path,
    cfg: str | Path,
    *,
    workers: int | None = None,
    timeout: int = 900,
    env: dict[str, str] | None = None,
    coverage: bool = False,
    simulate: str | None = None,
    depth: int | None = None,
    extra: list[str] | None = None,
    dfs_queue: bool = False,
    heap: str = "8g",
    allow_violation: bool = True,
) -> TlcResult:
    module = Path(module)
    if not module.is_absolute():
        module = SPEC / module
    cfg = Path(cfg)
    if not cfg.is_absolute():
        cfg = SPEC / "cfg" / cfg
    meta = scratch("tlcmeta-")
    w = workers or NCPU
    java = ["java", "-XX:+UseParallelGC", f"-Xmx{heap}", f"-Djava.io.tmpdir={meta}"]        # TLC's own temporary directories go with the scratch directory
    if dfs_queue:
        java.append("-Dtlc2.tool.queue.IStateQueue=StateDeque")
    cmd = java + ["-cp", JAR, "tlc2.TLC", "-workers", str(w), "-metadir", str(meta), "-noGenerateSpecTE",
                  "-config", str(cfg)]
    if coverage:
        cmd += ["-coverage", "1"]
    if simulate:
        cmd += ["-simulate", simulate]
    if depth is not None:
        cmd += ["-depth", str(depth)]
    cmd += list(extra or [])
    cmd.append(module.name)
    e = dict(os.environ)
    e.update(env or {})
    t0 = time.time()
    try:
        out = _run_watched(cmd, module.parent, e, timeout, meta)
    finally:
        rmtree(meta)
    res = TlcResult(ok=False, wall_s=round(time.time() - t0, 2), cmd=" ".join(cmd[cmd.index("tlc2.TLC"):]), out=out)
    for m in _STATS.finditer(out):
        res.transitions, res.distinct = int(m.group(1)), int(m.group(2))
        res.states = res.distinct
    m = _DEPTH.search(out)
    if m:
        res.depth = int(m.group(1))
    for m in _VIOL.finditer(out):
        res.violated.append(m.group(1) or m.group(2) or "temporal")
    for line in out.splitlines():
        s = line.strip()
        if s.startswith('"{') or s.startswith('"['):
            try:
                res.printed.append(json.loads(json.loads(s)))
                continue
            except ValueError:
                pass
        if s.startswith("<<") and s.endswith(">>"):
            res.raw_printed.append(s)
        mc = _COV.match(s)
        if mc:
            res.coverage[mc.group(1)] = res.coverage.get(mc.group(1), 0) + int(mc.group(3))
    if res.violated:
        i = out.find("Error:")
        res.counterexample = out[i:i + 6000] if i >= 0 else ""
    finished = "Model checking completed" in out or "Finished in" in out or "Finished computing" in out
    errors = [l for l in out.splitlines() if l.startswith("Error:")]
    hard = [l for l in errors if "violated" not in l and "behavior up to this point" not in l
            and "The following behavior constitutes a counter-example" not in l]
    if hard and not res.violated:
        first = out.find("Error:")
        raise TlcFailure(f"TLC error in {module.name}/{cfg.name}:\n" + out[first:first + 1500] + "\n...\n" + out[-1500:])
    if not finished and not res.violated:
        raise TlcFailure(f"TLC did not finish for {module.name}/{cfg.name}:\n" + out[-4000:])
    if res.violated and not allow_violation:
        raise TlcFailure(f"TLC reports {res.violated} for {module.name}/{cfg.name}:\n{res.counterexample}")
    res.ok = not res.violated
    return res


def write_cfg(path: Path, consts: dict, invariants: list[str] | None = None, spec: str = "Spec",
              post: str | None = None, props: list[str] | None = None, constraint: str | None = None,
              view: str | None = None) -> Path:
    """Emit a TLC cfg with literal constants (sets of strings, ints, booleans, strings)."""
    def lit(v):
        if isinstance(v, bool):
            return "TRUE" if v else "FALSE"
        if isinstance(v, int):
            return str(v)
        if isinstance(v, str):
            return '"' + v + '"'
        if isinstance(v, (set, frozenset, list, tuple)):
            items = sorted(v) if isinstance(v, (set, frozenset)) else list(v)
            return "{" + ", ".join(lit(x) for x in items) + "}"
        raise TypeError(v)

    lines = [f"SPECIFICATION {spec}"]
    if consts:
        lines.append("CONSTANTS")
        for k, v in consts.items():
            lines.append(f"  {k} = {lit(v)}")
    for i in invariants or []:
        lines.append(f"INVARIANT {i}")
    for p in props or []:
        lines.append(f"PROPERTY {p}")
    if constraint:
        lines.append(f"CONSTRAINT {constraint}")
    if view:
        lines.append(f"VIEW {view}")
    if post:
        lines.append(f"POSTCONDITION {post}")
    lines.append("CHECK_DEADLOCK FALSE")
    path.write_text("\n".join(lines) + "\n")
    return path
