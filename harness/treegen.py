"""Parallel generation of many documents into scratch trees, batched sandbox imports, hash-seed subprocess batches."""
from __future__ import annotations

import json
import multiprocessing as mp
import os
import subprocess
import sys
from pathlib import Path

from . import gen
from .common import NCPU, REPO, VENV_PY, VERIF


def _one(job):
    doc, out, cf = job
    r = gen.generate(doc, out, **cf)
    return r


def generate_many(jobs: list[tuple], procs: int | None = None) -> list[dict]:
    """jobs: [(doc, outdir, config_kwargs)] -> [result dict] (same order). Uses fork workers (REPO code already imported)."""
    if not jobs:
        return []
    procs = procs or min(NCPU - 2, max(1, len(jobs) // 4))
    if procs <= 1:
        return [_one(j) for j in jobs]
    with mp.get_context("fork").Pool(procs) as pool:
        return pool.map(_one, jobs, chunksize=max(1, len(jobs) // (procs * 4)))


def import_check(pkgs: list[tuple[str, str]], chunk: int = 40) -> dict:
    """pkgs: [(parent_dir, package_name)] -> {package: {module: error}} using fresh isolated interpreters."""
    out: dict = {}
    chunks = [pkgs[i:i + chunk] for i in range(0, len(pkgs), chunk)]
    procs = []
    for c in chunks:
        p = subprocess.Popen([VENV_PY, "-I", str(VERIF / "harness" / "runners" / "import_all.py")], stdin=subprocess.PIPE,
                             stdout=subprocess.PIPE, stderr=subprocess.PIPE, text=True)
        procs.append((p, c))
        p.stdin.write(json.dumps(c))
        p.stdin.close()
        if len([q for q, _ in procs if q.poll() is None]) >= NCPU - 2:
            procs[0][0].wait()
    for p, c in procs:
        so = p.stdout.read()
        p.wait()
        try:
            out.update(json.loads(so.strip().splitlines()[-1]))
        except Exception:  # noqa: BLE001
            raise RuntimeError("sandbox import runner failed: " + p.stderr.read()[-2000:])
    return out


GEN_BATCH = r'''
import json, sys, hashlib, os
sys.path.insert(0, sys.argv[1]); sys.path.insert(0, sys.argv[2])
from harness import gen
jobs = json.load(open(sys.argv[3]))
res = []
for doc, out, cf in jobs:
    r = gen.generate(doc, out, **cf)
    res.append({"diags": r["diags"], "exc": r["exc"], "rejected": r["rejected"], "snap": gen.snapshot(out)})
json.dump(res, open(sys.argv[4], "w"))
'''


def generate_batch_subprocess(jobs: list[tuple], workdir: Path, hashseed: str | int, tag: str, extra_env: dict | None = None,
                              wait: bool = True):
    """Generate a whole batch in ONE fresh interpreter with the given PYTHONHASHSEED; returns results with snapshots."""
    jf, rf = workdir / f"jobs-{tag}.json", workdir / f"res-{tag}.json"
    jf.write_text(json.dumps([[d, str(o), cf] for d, o, cf in jobs]))
    env = dict(os.environ)
    env["PYTHONHASHSEED"] = str(hashseed)
    env.update(extra_env or {})
    p = subprocess.Popen([VENV_PY, "-c", GEN_BATCH, str(VERIF), str(REPO), str(jf), str(rf)], env=env,
                         stdout=subprocess.PIPE, stderr=subprocess.PIPE, text=True)
    if not wait:
        return p, rf
    _, err = p.communicate()
    if p.returncode != 0:
        raise RuntimeError(f"generation batch failed (seed {hashseed}): {err[-2000:]}")
    return json.loads(rf.read_text())


def relative_import_check(root: Path | str) -> list[str]:
    """Every relative import ANYWHERE in the package (module level, inside functions, under TYPE_CHECKING) must resolve to a file
    of the generated tree and, for `from x import Name`, to a name bound at module level there."""
    import ast
    root = Path(root)
    problems = []
    defs: dict = {}

    def names_of(path: Path) -> set:
        if path not in defs:
            try:
                tree = ast.parse(path.read_text())
            except SyntaxError:
                defs[path] = set()
                return defs[path]
            out = set()
            for n in ast.walk(tree):
                if isinstance(n, (ast.ClassDef, ast.FunctionDef, ast.AsyncFunctionDef)):
                    out.add(n.name)
                elif isinstance(n, ast.Assign):
                    for t in n.targets:
                        if isinstance(t, ast.Name):
                            out.add(t.id)
                elif isinstance(n, ast.AnnAssign) and isinstance(n.target, ast.Name):
                    out.add(n.target.id)
                elif isinstance(n, (ast.Import, ast.ImportFrom)):
                    for a in n.names:
                        out.add((a.asname or a.name).split(".")[0])
            defs[path] = out
        return defs[path]

    for f in root.rglob("*.py"):
        try:
            tree = ast.parse(f.read_text())
        except SyntaxError as e:
            problems.append(f"{f.relative_to(root)}: SyntaxError {e.msg} line {e.lineno}")
            continue
        for n in ast.walk(tree):
            if isinstance(n, ast.ImportFrom) and n.level > 0:
                base = f.parent
                for _ in range(n.level - 1):
                    base = base.parent
                if base != root and root not in base.parents:
                    problems.append(f"{f.relative_to(root)}: relative import escapes the package (level {n.level})")
                    continue
                target = base.joinpath(*(n.module.split(".") if n.module else []))
                if (target.with_suffix(".py")).exists():
                    tf = target.with_suffix(".py")
                elif (target / "__init__.py").exists():
                    tf = target / "__init__.py"
                else:
                    problems.append(f"{f.relative_to(root)}: imports missing module {'.' * n.level}{n.module or ''}")
                    continue
                for a in n.names:
                    if a.name == "*":
                        continue
                    if a.name not in names_of(tf) and not (tf.name == "__init__.py" and ((tf.parent / (a.name + ".py")).exists() or (tf.parent / a.name).is_dir())):
                        problems.append(f"{f.relative_to(root)}: imports name {a.name} which {tf.relative_to(root)} does not define")
    return problems
