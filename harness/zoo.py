"""A 'construct zoo': rarely combined but legal OpenAPI constructs, as two documents - `zoo_clean()` (everything in it is supported, so it
generates without diagnostics and can feed the determinism / permutation / equivalence legs) and `zoo_warn()` (constructs the generator
reports and skips).  Consumed by several checks so that a construct added here is exercised by all of them."""
from __future__ import annotations

from . import gen

S = {"type": "string"}
I = {"type": "integer"}


def r(n: str) -> dict:
    return {"$ref": f"#/components/schemas/{n}"}


def zoo_clean() -> dict:
    schemas = {
        "Leaf": {"type": "object", "required": ["id"], "properties": {"id": I, "label": S}, "description": "A leaf.\n\nSecond paragraph with `code`."},
        "Node": {"type": "object", "properties": {"next": r("Node"), "children": {"type": "array", "items": r("Node")}, "leaf": r("Leaf")}},           # recursion
        "SpecialNode": {"allOf": [r("Node"), {"type": "object", "properties": {"extra": S}}]},
        "Tuple": {"type": "object", "properties": {"pair": {"type": "array", "prefixItems": [r("Leaf"), S, I]}, "grid": {"type": "array", "items": {"type": "array", "items": r("Leaf")}},
                                                   "enums": {"type": "array", "items": {"type": "string", "enum": ["n", "s"]}},
                                                   "unions": {"type": "array", "items": {"oneOf": [r("Leaf"), {"type": "string", "format": "date"}]}},
                                                   "nullables": {"type": "array", "items": {"type": ["integer", "null"]}}}},
        "Bags": {"type": "object", "properties": {"free": {"type": "object", "additionalProperties": True}, "closed": {"type": "object", "additionalProperties": False, "properties": {"a": S}},
                                                  "typed": {"type": "object", "additionalProperties": I}, "refs": {"type": "object", "additionalProperties": r("Leaf")},
                                                  "lists": {"type": "object", "additionalProperties": {"type": "array", "items": r("Leaf")}},
                                                  "nested": {"type": "object", "additionalProperties": {"type": "object", "additionalProperties": {"type": "string", "format": "date-time"}}}}},
        "Formats": {"type": "object", "properties": {"d": {"type": "string", "format": "date"}, "dt": {"type": "string", "format": "date-time"}, "u": {"type": "string", "format": "uuid"},
                                                     "i32": {"type": "integer", "format": "int32"}, "i64": {"type": "integer", "format": "int64"}, "f": {"type": "number", "format": "float"},
                                                     "dbl": {"type": "number", "format": "double"}, "mail": {"type": "string", "format": "email"}, "pw": {"type": "string", "format": "password"},
                                                     "odd": {"type": "string", "format": "no-such-format"}, "b64": {"type": "string", "format": "byte"}}},
        "Enums": {"type": "object", "properties": {"one": {"type": "string", "enum": ["only"]}, "neg": {"type": "integer", "enum": [-1, 0, 1]}, "nul": {"enum": [None]},
                                                   "mixedcase": {"type": "string", "enum": ["Aa", "bB", "c_c", "d-d", "1x", ""]}, "withnull": {"type": ["string", "null"], "enum": ["x", "y", None]}}},
        "Consts": {"type": "object", "required": ["kind"], "properties": {"kind": {"const": "zoo"}, "n": {"const": 7}, "flag": {"const": True}, "ratio": {"const": 1.5}}},
        "Unions": {"type": "object", "properties": {"disc": {"oneOf": [r("Cat"), r("Dog")], "discriminator": {"propertyName": "petType"}}, "any": {"anyOf": [r("Leaf"), I, {"type": "null"}]},
                                                    "nested": {"oneOf": [{"oneOf": [r("Leaf"), S]}, {"type": "array", "items": I}]}, "enums": {"oneOf": [{"type": "string", "enum": ["p"]}, {"type": "integer", "enum": [1, 2]}]},
                                                    "typelist": {"type": ["string", "integer", "null"]}}},
        "Cat": {"type": "object", "required": ["petType"], "properties": {"petType": S, "lives": I}},
        "Dog": {"type": "object", "required": ["petType"], "properties": {"petType": S, "bark": {"type": "boolean"}}},
        "Three": {"allOf": [r("Leaf"), r("Cat"), {"type": "object", "required": ["label"], "properties": {"own": {"type": "number", "default": 2.5}}}]},
        "AllOfEnum": {"allOf": [r("Color")]},
        "Color": {"type": "string", "enum": ["red", "green"], "default": "red"},
        "Annotated": {"type": "object", "title": "Annotated Thing", "deprecated": True, "readOnly": False, "externalDocs": {"url": "https://e"}, "x-internal": {"a": 1},
                      "properties": {"ro": {"type": "string", "readOnly": True}, "wo": {"type": "string", "writeOnly": True}, "ex": {"type": "integer", "example": 3, "examples": [1, 2]},
                                     "titled": {"title": "Inner Title", "type": "object", "properties": {"z": S}}, "defaults": {"type": "array", "items": I, "default": [1, 2]}}},
        "Defaults": {"type": "object", "properties": {"s": {"type": "string", "default": "it's \"quoted\""}, "i": {"type": "integer", "default": -3}, "f": {"type": "number", "default": 1e-7}, "b": {"type": "boolean", "default": False},
                                                      "d": {"type": "string", "format": "date", "default": "2020-02-29"}, "dt": {"type": "string", "format": "date-time", "default": "2020-01-02T03:04:05.678+01:00"},
                                                      "u": {"type": "string", "format": "uuid", "default": "12345678-1234-5678-1234-567812345678"}, "e": {"allOf": [r("Color")], "default": "green"},
                                                      "n": {"type": ["string", "null"], "default": None}}},
    }
    ok = {"description": "ok", "content": {"application/json": {"schema": r("Leaf")}}}
    paths = {
        "/leaves/": {"parameters": [{"name": "X-Request-Id", "in": "header", "schema": {"type": "string", "format": "uuid"}}],
                     "get": {"tags": ["leaves", "read only"], "summary": "List leaves", "description": "Lists.\nSecond line.", "deprecated": True,
                             "parameters": [{"name": "ids", "in": "query", "schema": {"type": "array", "items": I}}, {"name": "kind", "in": "query", "required": True, "schema": r("Color")},
                                            {"name": "since", "in": "query", "schema": {"type": "string", "format": "date-time"}}, {"name": "limit", "in": "query", "schema": {"type": "integer", "default": 10}},
                                            {"name": "X-Flags", "in": "header", "schema": {"type": "boolean"}}, {"name": "session", "in": "cookie", "required": True, "schema": I},
                                            {"name": "filter", "in": "query", "schema": {"oneOf": [I, {"type": "string", "format": "date"}]}}, {"name": "nullable", "in": "query", "schema": {"type": ["integer", "null"]}}],
                             "responses": {"200": {"description": "ok", "headers": {"X-Total": {"schema": I}}, "content": {"application/json": {"schema": {"type": "array", "items": r("Leaf")}}}},
                                           "204": {"description": "none"}, "404": {"description": "nf", "content": {"text/plain": {"schema": S}}},
                                           # informational statuses are documented statuses too (101 and 102 reach the caller)
                                           "101": {"description": "switching protocols"}, "102": {"description": "processing", "content": {"application/json": {"schema": r("Leaf")}}}}},
                     "post": {"operationId": "create leaf", "tags": ["leaves"], "requestBody": {"required": True, "content": {"application/json": {"schema": r("Leaf")}, "application/x-www-form-urlencoded": {"schema": r("Leaf")},
                                                                                                                               "multipart/form-data": {"schema": {"type": "object", "required": ["file"], "properties": {
                                                                                                                                   "file": {"type": "string", "format": "binary"}, "files": {"type": "array", "items": {"type": "string", "format": "binary"}},
                                                                                                                                   "meta": r("Leaf"), "count": I, "when": {"type": "string", "format": "date"}, "tags": {"type": "array", "items": S},
                                                                                                                                   # classes declared INLINE inside an inline multipart body
                                                                                                                                   "kind": {"type": "string", "enum": ["photo", "scan"]}, "geo": {"type": "object", "properties": {"lat": {"type": "number"}}},
                                                                                                                                   "parts": {"type": "array", "items": {"type": "object", "properties": {"n": I}}}}}}}},
                              "responses": {"201": ok, "400": {"description": "bad", "content": {"application/problem+json": {"schema": r("Annotated")}}}}}},
        "/leaves/{leaf-id}/sub/{sub_id}": {"get": {"operationId": "getSub", "tags": ["leaves"], "parameters": [{"name": "sub_id", "in": "path", "required": True, "schema": {"type": "string", "enum": ["a", "b"]}},
                                                                                                               {"name": "leaf-id", "in": "path", "required": True, "schema": {"type": "string", "format": "uuid"}}],
                                                   "responses": {"200": {"description": "ok", "content": {"application/json": {"schema": r("Unions")}}}, "409": {"description": "c", "content": {"application/json": {"schema": {"oneOf": [r("Cat"), r("Dog")]}}}}}},
                                           "delete": {"tags": ["leaves"], "parameters": [{"name": "sub_id", "in": "path", "required": True, "schema": S}, {"name": "leaf-id", "in": "path", "required": True, "schema": S}],
                                                      "responses": {"204": {"description": "gone"}}}},
        "/blob": {"put": {"operationId": "putBlob", "requestBody": {"content": {"application/octet-stream": {"schema": {"type": "string", "format": "binary"}}}},
                          "responses": {"200": {"description": "ok", "content": {"application/octet-stream": {"schema": {"type": "string", "format": "binary"}}}}}},
                  "patch": {"operationId": "patchBlob", "requestBody": {"content": {"application/json": {"schema": {"type": "array", "items": r("Leaf")}}}},
                            "responses": {"200": {"description": "ok", "content": {"application/json": {"schema": I}}}, "202": {"description": "ok", "content": {"application/json": {"schema": {"type": "string", "format": "date-time"}}}}}}},
        "/everything": {"post": {"operationId": "everything", "tags": ["zoo"], "security": [{"bearer": []}],
                                 "requestBody": {"content": {"application/json": {"schema": {"type": "object", "properties": {k: r(k) for k in ("Tuple", "Bags", "Formats", "Enums", "Consts", "Unions", "Three", "AllOfEnum",
                                                                                                                                                     "Annotated", "Defaults", "SpecialNode")}}}}},
                                 "responses": {"200": {"description": "ok", "content": {"application/json": {"schema": {"type": "object", "additionalProperties": r("Node")}}}}}}},
    }
    doc = gen.mkdoc(schemas, paths, title="Construct Zoo", components={"securitySchemes": {"bearer": {"type": "http", "scheme": "bearer"}, "key": {"type": "apiKey", "in": "header", "name": "X-Key"}}})
    doc["info"].update({"summary": "zoo", "contact": {"name": "n", "email": "e@x"}, "license": {"name": "MIT", "identifier": "MIT"}})
    doc["servers"] = [{"url": "https://{env}.example/v1", "variables": {"env": {"default": "prod", "enum": ["prod", "dev"]}}}]
    doc["tags"] = [{"name": "leaves", "description": "Leaf operations"}, {"name": "zoo"}]
    doc["security"] = [{"key": []}]
    return doc


def zoo_warn() -> dict:
    """Constructs the generator does not support: each must be reported (or ignored harmlessly), never crash, never corrupt the rest."""
    doc = zoo_clean()
    sch = doc["components"]["schemas"]
    sch["Keywords31"] = {"type": "object", "$comment": "c", "$defs": {"Inner": S}, "patternProperties": {"^x-": S}, "propertyNames": {"pattern": "^[a-z]+$"}, "dependentRequired": {"a": ["b"]},
                         "unevaluatedProperties": False, "if": {"properties": {"a": {"const": 1}}}, "then": {"required": ["b"]}, "else": {"required": ["c"]}, "not": {"required": ["z"]},
                         "properties": {"a": I, "b": S, "c": {"type": "array", "contains": I, "minContains": 1, "uniqueItems": True}, "enc": {"type": "string", "contentMediaType": "image/png", "contentEncoding": "base64"}}}
    sch["ArrayNoItems"] = {"type": "array"}
    # `required` naming what nobody declares, and a property whose name needs escaping, inside a composition
    sch["GhostComp"] = {"allOf": [{"$ref": "#/components/schemas/Leaf"}, {"type": "object", "required": ["ghost", 'q"uote', "back\\slash"], "properties": {'q"uote': S, "back\\slash": S}}]}
    sch["MixedEnum"] = {"enum": ["a", 1]}
    paths = doc["paths"]
    paths["/styles"] = {"get": {"operationId": "styles", "parameters": [
        {"name": "sp", "in": "query", "style": "spaceDelimited", "explode": False, "schema": {"type": "array", "items": I}},
        {"name": "deep", "in": "query", "style": "deepObject", "explode": True, "schema": {"type": "object", "properties": {"a": I}}},
        {"name": "viacontent", "in": "query", "content": {"application/json": {"schema": {"type": "object", "properties": {"q": S}}}}},
        {"name": "hdrs", "in": "header", "schema": {"type": "array", "items": S}}, {"name": "reserved", "in": "query", "allowReserved": True, "schema": S}],
        "responses": {"200": {"description": "ok"}, "2XX": {"description": "range"}, "default": {"description": "fallback", "content": {"application/json": {"schema": {"$ref": "#/components/schemas/Leaf"}}}}}}}
    paths["/media"] = {"post": {"operationId": "media", "requestBody": {"content": {"*/*": {"schema": S}, "application/xml": {"schema": {"$ref": "#/components/schemas/Leaf"}}, "text/plain": {"schema": S},
                                                                                    "image/png": {"schema": {"type": "string", "format": "binary"}}}},
                                "responses": {"200": {"description": "ok", "content": {"image/png": {"schema": {"type": "string", "format": "binary"}}, "text/csv": {"schema": S}}},
                                              "201": {"description": "links", "links": {"self": {"operationId": "styles"}}, "content": {"*/*": {"schema": S}}}},
                                "callbacks": {"cb": {"{$request.body#/url}": {"post": {"responses": {"200": {"description": "ok"}}}}}}}}
    paths["/noid"] = {"get": {"responses": {"200": {"description": "ok"}}}, "head": {"responses": {"200": {"description": "ok"}}}, "options": {"responses": {"200": {"description": "ok"}}},
                      "trace": {"responses": {"200": {"description": "ok"}}}}
    # one component parameter the generator cannot use (declared with `content`), shared by several operations: each of them is dropped and
    # each must be named
    doc["components"]["parameters"] = {"ViaContent": {"name": "filter", "in": "query", "content": {"application/json": {"schema": {"type": "object", "properties": {"q": S}}}}},
                                       "Fine": {"name": "page", "in": "query", "schema": I}}
    for i, (pth, mth) in enumerate([("/orders", "get"), ("/invoices", "get"), ("/refunds", "post"), ("/orders", "delete")]):
        paths.setdefault(pth, {})[mth] = {"operationId": f"shared_bad_{i}", "parameters": [{"$ref": "#/components/parameters/ViaContent"}, {"$ref": "#/components/parameters/Fine"}],
                                          "responses": {"200": {"description": "ok"}}}
    doc["webhooks"] = {"evt": {"post": {"requestBody": {"content": {"application/json": {"schema": {"$ref": "#/components/schemas/Leaf"}}}}, "responses": {"200": {"description": "ok"}}}}}
    doc["components"]["securitySchemes"].update({"basic": {"type": "http", "scheme": "basic"}, "oauth": {"type": "oauth2", "flows": {"implicit": {"authorizationUrl": "https://a", "scopes": {"r": "read"}}}},
                                                 "oidc": {"type": "openIdConnect", "openIdConnectUrl": "https://o"}, "ck": {"type": "apiKey", "in": "cookie", "name": "sid"}})
    doc["components"]["headers"] = {"H": {"schema": S}}
    doc["components"]["examples"] = {"E": {"value": 1}}
    doc["components"]["links"] = {"L": {"operationId": "styles"}}
    doc["components"]["pathItems"] = {"P": {"get": {"responses": {"200": {"description": "ok"}}}}}
    doc["jsonSchemaDialect"] = "https://json-schema.org/draft/2020-12/schema"
    return doc


# valid instances of zoo_clean()'s component schemas (validity is screened independently with jsonschema before they are judged)
ZOO_INSTANCES = {
    "Leaf": [{"id": 1}, {"id": 2, "label": "l"}, {"id": 3, "extra": [1]}],
    "Node": [{}, {"next": {"next": {}}, "children": [{"leaf": {"id": 1}}, {}], "leaf": {"id": 2}}],
    "SpecialNode": [{"extra": "e", "next": {"children": []}}, {}],
    "Tuple": [{"pair": [{"id": 1}, "s", 3], "grid": [[{"id": 1}], []], "enums": ["n", "s", "n"], "unions": [{"id": 1}, "2020-01-02"], "nullables": [1, None, 2]}, {}, {"pair": [], "grid": []}],
    "Bags": [{"free": {"a": 1, "b": [None]}, "closed": {"a": "x"}, "typed": {"k": 1}, "refs": {"r": {"id": 1}}, "lists": {"l": [{"id": 1}], "e": []},
              "nested": {"o": {"i": "2020-01-02T03:04:05+00:00"}, "empty": {}}}, {"free": {}, "closed": {}, "typed": {}, "refs": {}, "lists": {}, "nested": {}}],
    "Formats": [{"d": "2020-01-02", "dt": "2020-01-02T03:04:05+00:00", "u": "12345678-1234-5678-1234-567812345678", "i32": 1, "i64": 2 ** 40, "f": 1.5, "dbl": 2.5, "mail": "a@b.c", "pw": "p",
                 "odd": "o", "b64": "aGk="}, {"i32": 0, "f": 0.0, "pw": ""}],
    "Enums": [{"one": "only", "neg": -1, "nul": None, "mixedcase": "d-d", "withnull": None}, {"neg": 0, "mixedcase": "", "withnull": "x"}, {"mixedcase": "1x"}, {"mixedcase": "Aa", "neg": 1}],
    "Consts": [{"kind": "zoo"}, {"kind": "zoo", "n": 7, "flag": True, "ratio": 1.5}],
    "Unions": [{"disc": {"petType": "Cat", "lives": 9}}, {"disc": {"petType": "Dog", "bark": True}, "any": None, "nested": [1, 2], "enums": "p", "typelist": None},
               {"any": {"id": 1}, "nested": "s", "enums": 2, "typelist": "t"}, {"any": 5, "nested": {"id": 1}, "typelist": 3}, {"nested": [], "enums": 1}],
    "Cat": [{"petType": "Cat"}, {"petType": "Cat", "lives": 0}],
    "Three": [{"id": 1, "label": "l", "petType": "x"}, {"id": 1, "label": "l", "petType": "x", "lives": 3, "own": 1.5}],
    "Annotated": [{"ro": "r", "wo": "w", "ex": 3, "titled": {"z": "zz"}, "defaults": [3]}, {}, {"defaults": [], "titled": {}}],
    "Defaults": [{}, {"s": "x", "i": 1, "f": 2.5, "b": True, "d": "2021-01-01", "dt": "2021-01-01T00:00:00+00:00", "u": "22345678-1234-5678-1234-567812345678", "e": "red", "n": None},
                 {"i": 0, "f": 0.0, "b": False, "s": ""}],
}
