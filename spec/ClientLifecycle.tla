--------------------------- MODULE ClientLifecycle ---------------------------
(***************************************************************************)
(* The generated Client / AuthenticatedClient objects (templates/          *)
(* client.py.jinja) as a state machine over HISTORIES of API calls:        *)
(* construction, with_headers / with_cookies / with_timeout, lazily        *)
(* creating the underlying httpx client, entering / leaving the context    *)
(* manager, replacing the httpx client, and sending a request through an   *)
(* endpoint function.  Blocking and asyncio sides are two independent      *)
(* copies of the same machine ("s" and "a").                               *)
(*                                                                         *)
(* OPERATIONAL (mirrors the template, quirks included):                    *)
(*  - with_* first UPDATES the live httpx clients of the receiver, then    *)
(*    returns evolve(self, ...): a NEW object with the merged setting and  *)
(*    NO live httpx client (the `_client` fields are init=False);          *)
(*  - get_httpx_client builds the httpx client from the settings at that   *)
(*    moment; for AuthenticatedClient it first writes the credential into  *)
(*    the object's own headers dict, so children made later inherit it;    *)
(*  - __exit__ calls get_httpx_client() (creating a client if there was    *)
(*    none) and closes it; a closed httpx client cannot send or reopen;    *)
(*  - set_httpx_client replaces the live client by the user's;             *)
(*  - `token` is a public, mutable attribute: the credential header is     *)
(*    computed from its CURRENT value whenever an httpx client is built    *)
(*    (not when the object is constructed); a client that is already       *)
(*    built keeps the credential it was built with.                        *)
(* DECLARATIVE: laws CL1-CL4 below.                                        *)
(***************************************************************************)
EXTENDS Naturals, Sequences, FiniteSets, TLC

CONSTANTS MaxOps, MaxObjs
Names  == {"h1", "h2"}
Vals   == {"v1", "v2"}
Absent == "-"
Modes  == {"s", "a"}
Times  == {"t0", "t1", "t2"}                       \* t0: the constructor's default (None); "tu": the default of a user-supplied httpx client
NoHdrs == [n \in Names |-> Absent]
Tokens == {"tok", "tok2"}                            \* "tok": the constructor argument
\* auth: the credential on the wire / in the settings ("-" = none); stale: the token was assigned after this httpx client was built
NoLive == [exists |-> FALSE, hdrs |-> NoHdrs, cks |-> NoHdrs, auth |-> "-", time |-> "t0", st |-> "new", user |-> FALSE, stale |-> FALSE]

\* a client object: settings + one live httpx client per mode
NewObj(kind) == [kind |-> kind, token |-> "tok", hdrs |-> NoHdrs, cks |-> NoHdrs, auth |-> "-", time |-> "t0", live |-> [m \in Modes |-> NoLive]]

VARIABLES objs,      \* sequence of client objects
          hist,      \* the history (observation only)
          sent       \* the outcome of the last Call: [res, hdrs, cks, auth, time, arg]; arg: the cookie ARGUMENT of that call ("-" = not passed)
vars == <<objs, hist, sent>>
Init == objs = <<>> /\ hist = <<>> /\ sent = [res |-> "none", hdrs |-> NoHdrs, cks |-> NoHdrs, auth |-> "-", time |-> "t0", arg |-> "-"]

Rec(ev) == hist' = Append(hist, ev)
Quiet == sent' = [res |-> "none", hdrs |-> NoHdrs, cks |-> NoHdrs, auth |-> "-", time |-> "t0", arg |-> "-"]
Create(kind) == /\ Len(objs) < MaxObjs /\ objs' = Append(objs, NewObj(kind)) /\ Rec([op |-> "create", kind |-> kind]) /\ Quiet

\* ---- get_httpx_client: lazily build the live client from the settings (writing the credential into the settings first)
Built(o, m) == IF o.live[m].exists THEN o
               ELSE LET o1 == IF o.kind = "auth" THEN [o EXCEPT !.auth = o.token] ELSE o IN
                    [o1 EXCEPT !.live[m] = [exists |-> TRUE, hdrs |-> o1.hdrs, cks |-> o1.cks, auth |-> o1.auth, time |-> o1.time, st |-> "new", user |-> FALSE, stale |-> FALSE]]
Get(i, m) == /\ objs' = [objs EXCEPT ![i] = Built(objs[i], m)] /\ Rec([op |-> "get", i |-> i, m |-> m]) /\ Quiet

\* ---- with_headers / with_cookies / with_timeout
UpdLive(o, f(_)) == [o EXCEPT !.live = [m \in Modes |-> IF o.live[m].exists THEN f(o.live[m]) ELSE o.live[m]]]
Child(o) == [o EXCEPT !.live = [m \in Modes |-> NoLive]]
WithHeaders(i, n, v) ==
  /\ Len(objs) < MaxObjs
  /\ LET o == objs[i]
         old == UpdLive(o, LAMBDA l : [l EXCEPT !.hdrs[n] = v])
         new == Child([o EXCEPT !.hdrs[n] = v])
     IN objs' = Append([objs EXCEPT ![i] = old], new)
  /\ Rec([op |-> "with_headers", i |-> i, n |-> n, v |-> v]) /\ Quiet
WithCookies(i, n, v) ==
  /\ Len(objs) < MaxObjs
  /\ LET o == objs[i]
         old == UpdLive(o, LAMBDA l : [l EXCEPT !.cks[n] = v])
         new == Child([o EXCEPT !.cks[n] = v])
     IN objs' = Append([objs EXCEPT ![i] = old], new)
  /\ Rec([op |-> "with_cookies", i |-> i, n |-> n, v |-> v]) /\ Quiet
WithTimeout(i, t) ==
  /\ Len(objs) < MaxObjs /\ t # "t0"
  /\ LET o == objs[i]
         old == UpdLive(o, LAMBDA l : [l EXCEPT !.time = t])
         new == Child([o EXCEPT !.time = t])
     IN objs' = Append([objs EXCEPT ![i] = old], new)
  /\ Rec([op |-> "with_timeout", i |-> i, t |-> t]) /\ Quiet

\* ---- context manager.  httpx refuses to enter a client that is already open (entered, or used for a request) or closed; the history
\* generator does not produce such steps (CanEnter).
CanEnter(o, m) == ~o.live[m].exists \/ o.live[m].st = "new"
Enter(i, m) == /\ CanEnter(objs[i], m)
               /\ objs' = [objs EXCEPT ![i] = [Built(objs[i], m) EXCEPT !.live[m].st = "open"]]
               /\ Rec([op |-> "enter", i |-> i, m |-> m]) /\ Quiet
Exit(i, m) == /\ objs' = [objs EXCEPT ![i] = [Built(objs[i], m) EXCEPT !.live[m].st = "closed"]]
              /\ Rec([op |-> "exit", i |-> i, m |-> m]) /\ Quiet
\* ---- set_httpx_client: the user's client, with no settings of ours
SetUser(i, m) == /\ objs' = [objs EXCEPT ![i].live[m] = [NoLive EXCEPT !.exists = TRUE, !.user = TRUE, !.time = "tu"]]
                 /\ Rec([op |-> "set_user", i |-> i, m |-> m]) /\ Quiet

\* ---- client.token = k: an attribute assignment on an AuthenticatedClient (nothing else happens at that moment)
SetToken(i, k) == /\ objs[i].kind = "auth" /\ objs[i].token # k
                  /\ objs' = [objs EXCEPT ![i] = [UpdLive(objs[i], LAMBDA l : [l EXCEPT !.stale = TRUE]) EXCEPT !.token = k]]
                  /\ Rec([op |-> "set_token", i |-> i, k |-> k]) /\ Quiet

\* ---- a request through an endpoint function: client.get_httpx_client().request(**kwargs)
\* `a` is the value passed for the operation's optional cookie parameter ("-" = omitted): it travels with THIS request only
Call(i, m, a) ==
  /\ LET o == Built(objs[i], m) l == o.live[m] IN
       /\ objs' = [objs EXCEPT ![i] = IF l.st = "closed" THEN o ELSE [o EXCEPT !.live[m].st = "open"]]     \* httpx: the first request opens the client
       /\ sent' = IF l.st = "closed" THEN [res |-> "raised", hdrs |-> NoHdrs, cks |-> NoHdrs, auth |-> "-", time |-> "t0", arg |-> "-"]
                  ELSE [res |-> "sent", hdrs |-> l.hdrs, cks |-> l.cks, auth |-> l.auth, time |-> l.time, arg |-> a]
  /\ Rec([op |-> "call", i |-> i, m |-> m, a |-> a])

Next == /\ Len(hist) < MaxOps
        /\ \/ \E k \in {"plain", "auth"} : Create(k)
           \/ \E i \in 1..Len(objs) :
                \/ \E n \in Names, v \in Vals : WithHeaders(i, n, v) \/ WithCookies(i, n, v)
                \/ \E t \in Times : WithTimeout(i, t)
                \/ \E k \in Tokens : SetToken(i, k)
                \/ \E m \in Modes : Get(i, m) \/ Enter(i, m) \/ Exit(i, m) \/ SetUser(i, m) \/ (\E a \in {"-", "a1"} : Call(i, m, a))
Spec == Init /\ [][Next]_vars

\* ------------------------------------------------------------------ laws (about the last Call)
LastCall == hist # <<>> /\ hist[Len(hist)].op = "call"
Obj == objs[hist[Len(hist)].i]
Mode == hist[Len(hist)].m
Live == Obj.live[Mode]
\* CL1: a request through a client whose httpx client was never closed is sent
CL1 == LastCall => (sent.res = "raised" <=> Live.st = "closed")
\* CL2: unless the user supplied the httpx client, every setting of the object is on the wire
CL2 == (LastCall /\ sent.res = "sent" /\ ~Live.user) =>
          /\ \A n \in Names : Obj.hdrs[n] # Absent => sent.hdrs[n] = Obj.hdrs[n]
          /\ \A n \in Names : Obj.cks[n] # Absent => sent.cks[n] = Obj.cks[n]
          /\ (Obj.time # "t0" => sent.time = Obj.time)
\* CL3: an AuthenticatedClient that builds its own httpx client always sends the credential
\*      - and it is the CURRENT token unless the token was assigned after that httpx client had been built
CL3 == (LastCall /\ sent.res = "sent" /\ ~Live.user) => /\ (sent.auth # "-" <=> Obj.kind = "auth")
                                                         /\ ((Obj.kind = "auth" /\ ~Live.stale) => sent.auth = Obj.token)
\* CL5: an argument of a call travels with that call only (nothing of an earlier call's arguments is on a later request)
CL5 == (LastCall /\ sent.res = "sent") => sent.arg = hist[Len(hist)].a
\* CL4: a plain Client never sends a credential
CL4 == (LastCall /\ sent.res = "sent" /\ Obj.kind = "plain") => sent.auth = "-"
=============================================================================
