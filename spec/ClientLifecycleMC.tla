-------------------------- MODULE ClientLifecycleMC --------------------------
EXTENDS ClientLifecycle, Json
\* every history that ends with a call, with the model's prediction of what is on the wire
Emit == LastCall => PrintT(ToJson([hist |-> hist, sent |-> sent, kind |-> Obj.kind, user |-> Live.user, stale |-> Live.stale, token |-> Obj.token]))
=============================================================================
