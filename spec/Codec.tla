-------------------------------- MODULE Codec --------------------------------
(***************************************************************************)
(* A generated model attribute as a codec (templates/model.py.jinja and    *)
(* the property_templates directory): decode (from_dict), encode (to_dict), *)
(* tri-state absent / null / present, the union try-chain.                 *)
(*                                                                         *)
(* A DESCRIPTOR is [kind, req, nul, ms]: leaf kind or "union" with member  *)
(* kinds ms (in document order); req = required; nul = nullable (3.1 type  *)
(* list / null union member: the generator turns it into a union with a    *)
(* `none` member APPENDED last for nullable:true, or wherever the document *)
(* puts it).  nest > 0: the first `nest` members are written as an INNER   *)
(* oneOf (a nested union); UnionProperty.build flattens nested unions      *)
(* preserving document order, so Members(d) does not depend on nest.       *)
(* WIRE VALUES are abstract classes of JSON values (one         *)
(* representative each, table in harness/codec.py).                        *)
(*                                                                         *)
(* OPERATIONAL: DecodeAttr / EncodeAttr mirror the templates: `d.pop`,     *)
(* the Unset guard of construct_template, list `or []`, the `_parse_`      *)
(* chain (None/Unset short-circuits, guarded members in try/except, last   *)
(* constructing member unguarded, trailing cast iff some member has no     *)
(* construct), the isinstance dispatch of union transform, field_dict.     *)
(* DECLARATIVE: Valid(d, w) by JSON-Schema meaning; laws K1 (round trip),  *)
(* K2 (plain JSON), K4 (tri-state), K6 (enums admit exactly their values). *)
(***************************************************************************)
EXTENDS Naturals, Sequences, FiniteSets, TLC

\* ---------------------------------------------------------------- wire values
\* i0 = 0 and se = "" are FALSY values that are members of the enums / valid scalars (a present falsy value is not "absent")
Wire == {"absent", "null", "t", "f", "i0", "i1", "i2", "i7", "f15", "f10", "se", "s", "ds", "dts", "dt0", "us", "m1", "m2",
         "objv", "objw", "objvw", "obj0", "arr0", "arri", "arrd", "arro", "arrs"}
JsonType(w) == CASE w = "null" -> "null" [] w \in {"t", "f"} -> "bool" [] w \in {"i0", "i1", "i2", "i7"} -> "int"
                 [] w \in {"f15", "f10"} -> "float" [] w \in {"se", "s", "ds", "dts", "dt0", "us", "m1", "m2"} -> "str"
                 [] w \in {"objv", "objw", "objvw", "obj0"} -> "dict" [] w \in {"arr0", "arri", "arrd", "arro", "arrs"} -> "list"
                 [] OTHER -> "absent"
ItemsOf(w) == CASE w = "arr0" -> {} [] w = "arri" -> {"i1", "i2"} [] w = "arrd" -> {"ds"} [] w = "arro" -> {"objv"} [] w = "arrs" -> {"s"} [] OTHER -> {}

\* ---------------------------------------------------------------- kinds
\* modelS: a STRICT model (required v, additionalProperties: false): only objv is valid, but from_dict also accepts objvw and
\* silently drops the undeclared key
\* modelO: an OPEN model without required properties: every object (also {}) is valid
LeafKinds == {"any", "bool", "int", "float", "str", "date", "datetime", "uuid", "enums", "enumi", "none", "modelM", "modelN", "modelS", "modelO",
              "listint", "listdate", "listM"}
InnerOf(k) == CASE k = "listint" -> "int" [] k = "listdate" -> "date" [] k = "listM" -> "modelM" [] OTHER -> "any"
IsList(k) == k \in {"listint", "listdate", "listM"}
\* property templates that define a `construct` macro / a `check_type_for_construct` macro / a `transform` macro
HasConstruct(k) == k \in {"date", "datetime", "uuid", "enums", "enumi", "modelM", "modelN", "modelS", "modelO", "listint", "listdate", "listM"}
HasCheck(k) == HasConstruct(k)
HasTransform(k) == HasConstruct(k)

\* isinstance check emitted by check_type_for_construct (Python: bool is an int)
TypeOk(k, w) == CASE k \in {"date", "datetime", "uuid", "enums"} -> JsonType(w) = "str"
                  [] k = "enumi" -> JsonType(w) \in {"int", "bool"}
                  [] k \in {"modelM", "modelN", "modelS", "modelO"} -> JsonType(w) = "dict"
                  [] IsList(k) -> JsonType(w) = "list"
                  [] OTHER -> TRUE
\* does the construct expression succeed on w (given the type check passed or was not made)?
RECURSIVE LeafConstructs(_, _)
LeafConstructs(k, w) ==
  CASE k \in {"date", "datetime"} -> w \in {"ds", "dts", "dt0"}                 \* isoparse accepts both spellings
    [] k = "uuid" -> w = "us"
    [] k = "enums" -> w \in {"se", "m1", "m2"}
    [] k = "enumi" -> w \in {"i0", "i1", "i2", "t", "f", "f10"}                 \* IntEnum(True) = IntEnum(1.0) = member 1, IntEnum(False) = member 0
    [] k = "modelM" -> w \in {"objv", "objvw"}                                  \* KeyError without the required key
    [] k = "modelN" -> w \in {"objw", "objvw"}
    [] k = "modelS" -> w \in {"objv", "objvw"}
    [] k = "modelO" -> JsonType(w) = "dict" \/ w \in {"se", "arr0"}             \* dict("") = dict([]) = {}
    [] k = "listint" -> JsonType(w) = "list"                                    \* cast only
    [] k \in {"listdate", "listM"} -> JsonType(w) = "list" /\ \A x \in ItemsOf(w) : LeafConstructs(InnerOf(k), x)
    [] OTHER -> TRUE
\* the Python value a successful construct yields: <<python type, canonical wire form>>
LeafValue(k, w) ==
  CASE k = "date" -> <<"date", "ds">>
    [] k = "datetime" -> <<"datetime", IF w = "ds" THEN "dt0" ELSE w>>
    [] k = "uuid" -> <<"UUID", "us">>
    [] k = "enums" -> <<"EnumS", w>>
    [] k = "enumi" -> <<"EnumI", IF w = "i2" THEN "i2" ELSE IF w \in {"i0", "f"} THEN "i0" ELSE "i1">>
    [] k = "modelM" -> <<"M", w>>
    [] k = "modelN" -> <<"N", w>>
    [] k = "modelS" -> <<"S", "objv">>                                           \* the undeclared key is dropped
    [] k = "modelO" -> <<"O", IF w \in {"se", "arr0"} THEN "obj0" ELSE w>>
    [] k = "listint" -> <<"raw", w>>
    [] k \in {"listdate", "listM"} -> <<"list", w>>
    [] OTHER -> <<"raw", w>>
PyUnset == <<"Unset", "absent">>
PyNone  == <<"raw", "null">>
Raise   == <<"raise", "raise">>

\* ---------------------------------------------------------------- descriptors
\* effective member list of a descriptor: nullable adds a `none` member at the END (Schema.handle_nullable appends)
Members(d) == IF d.kind = "union" THEN (IF d.nul /\ ~(\E i \in 1..Len(d.ms) : d.ms[i] = "none") THEN Append(d.ms, "none") ELSE d.ms)
              ELSE (IF d.nul THEN <<d.kind, "none">> ELSE <<d.kind>>)
IsUnion(d) == Len(Members(d)) > 1

\* ---------------------------------------------------------------- decode
\* union _parse_ function
Guarded(ms, i) == HasCheck(ms[i]) /\ (i < Len(ms) \/ \E j \in 1..(i - 1) : ~HasConstruct(ms[j]))
AnyUnmodified(ms) == \E j \in 1..Len(ms) : ~HasConstruct(ms[j])
RECURSIVE Chain(_, _, _)
Chain(ms, i, w) ==
  IF i > Len(ms) THEN (IF AnyUnmodified(ms) THEN <<"raw", w>> ELSE Raise)        \* trailing cast / fell off the end (returns None in Python: modelled as Raise-free None? see harness)
  ELSE IF ~HasConstruct(ms[i]) THEN Chain(ms, i + 1, w)
  ELSE IF Guarded(ms, i) THEN (IF TypeOk(ms[i], w) /\ LeafConstructs(ms[i], w) THEN LeafValue(ms[i], w) ELSE Chain(ms, i + 1, w))
  ELSE (IF ~TypeOk(ms[i], w) THEN Raise ELSE IF LeafConstructs(ms[i], w) THEN LeafValue(ms[i], w) ELSE Raise)
DecodeUnion(d, w) ==
  LET ms == Members(d) IN
  IF w = "null" /\ (\E i \in 1..Len(ms) : ms[i] = "none") THEN PyNone
  ELSE IF w = "absent" THEN PyUnset
  ELSE Chain(ms, 1, w)

DecodeLeaf(d, w) ==
  LET k == d.kind IN
  IF w = "absent" THEN (IF d.req THEN Raise                       \* d.pop(name) -> KeyError
                        ELSE PyUnset)
  ELSE IF ~HasConstruct(k) THEN <<"raw", w>>                       \* stored as it came
  ELSE IF k = "listint" THEN <<"raw", w>>                          \* cast
  ELSE IF IsList(k) THEN (IF ~d.req /\ w \in {"null", "f", "obj0", "i0", "se"} THEN <<"list", "arr0">>     \* `falsy or []`
                          ELSE IF w \in {"obj0", "se"} THEN <<"list", "arr0">>                  \* iterating an empty dict / string: no items
                          ELSE IF LeafConstructs(k, w) THEN LeafValue(k, w) ELSE Raise)
  ELSE IF LeafConstructs(k, w) THEN LeafValue(k, w) ELSE Raise

DecodeAttr(d, w) == IF w = "absent" /\ d.req THEN Raise ELSE IF IsUnion(d) THEN DecodeUnion(d, w) ELSE DecodeLeaf(d, w)

\* ---------------------------------------------------------------- encode
InstanceOf(py, k) ==
  CASE k = "date" -> py[1] \in {"date", "datetime"}                 \* datetime.datetime is a subclass of datetime.date
    [] k = "datetime" -> py[1] = "datetime"
    [] k = "uuid" -> py[1] = "UUID"
    [] k = "enums" -> py[1] = "EnumS"
    [] k = "enumi" -> py[1] = "EnumI"
    [] k = "modelM" -> py[1] = "M"
    [] k = "modelN" -> py[1] = "N"
    [] k = "modelS" -> py[1] = "S"
    [] k = "modelO" -> py[1] = "O"
    [] IsList(k) -> py[1] = "list" \/ (py[1] = "raw" /\ JsonType(py[2]) = "list")
    [] OTHER -> FALSE
\* result of the member's transform applied to py: wire form, or "raise" (attribute error on a raw value)
EncodeLeafVal(k, py) ==
  IF ~HasTransform(k) THEN py[2]
  ELSE IF k = "listint" THEN py[2]
  ELSE IF IsList(k) THEN (IF py[1] = "list" THEN py[2] ELSE IF py[2] = "arr0" THEN "arr0" ELSE "raise")
  ELSE IF py[1] = "raw" THEN "raise"                                \* .isoformat() / .value / .to_dict() on a plain JSON value
  ELSE py[2]
RECURSIVE EncChain(_, _, _, _)
\* mirrors the if / elif / else cascade: members without transform are skipped; the LAST member with transform becomes `else:`
\* unless a member without transform exists (then a final `else: dest = source`)
EncChain(ms, i, py, anyWithout) ==
  IF i > Len(ms) THEN py[2]
  ELSE IF ~HasTransform(ms[i]) THEN EncChain(ms, i + 1, py, anyWithout)
  ELSE LET last == ~(\E j \in (i + 1)..Len(ms) : HasTransform(ms[j])) IN
       IF last /\ ~anyWithout THEN EncodeLeafVal(ms[i], py)               \* `else:` branch, unguarded
       ELSE IF InstanceOf(py, ms[i]) THEN EncodeLeafVal(ms[i], py)
       ELSE EncChain(ms, i + 1, py, anyWithout)
EncodeAttr(d, py) ==
  IF py = PyUnset THEN "absent"
  ELSE IF IsUnion(d) THEN
        LET ms == Members(d)  anyWithout == \E j \in 1..Len(ms) : ~HasTransform(ms[j]) IN
        EncChain(ms, 1, py, anyWithout \/ ~d.req)       \* an optional union starts with `if isinstance(x, Unset)`, so no bare else for the first
  ELSE EncodeLeafVal(d.kind, py)

\* ---------------------------------------------------------------- declarative layer
ValidLeaf(k, w) ==
  CASE k = "any" -> w # "absent"
    [] k = "bool" -> w \in {"t", "f"}
    [] k = "int" -> w \in {"i0", "i1", "i2", "i7"}
    [] k = "float" -> w \in {"i0", "i1", "i2", "i7", "f15", "f10"}
    [] k = "str" -> JsonType(w) = "str"
    [] k = "date" -> w = "ds"                                        \* canonical forms only (statement)
    [] k = "datetime" -> w \in {"dts", "dt0"}
    [] k = "uuid" -> w = "us"
    [] k = "enums" -> w \in {"se", "m1", "m2"}
    [] k = "enumi" -> w \in {"i0", "i1", "i2"}
    [] k = "none" -> w = "null"
    [] k = "modelM" -> w \in {"objv", "objvw"}
    [] k = "modelN" -> w \in {"objw", "objvw"}
    [] k = "modelS" -> w = "objv"
    [] k = "modelO" -> JsonType(w) = "dict"
    [] k = "listint" -> w \in {"arr0", "arri"}
    [] k = "listdate" -> w \in {"arr0", "arrd"}
    [] k = "listM" -> w \in {"arr0", "arro"}
    [] OTHER -> FALSE
Valid(d, w) == IF w = "absent" THEN ~d.req ELSE \E i \in 1..Len(Members(d)) : ValidLeaf(Members(d)[i], w)
Nullable(d) == \E i \in 1..Len(Members(d)) : Members(d)[i] \in {"none", "any"}

RoundTrip(d, w) == LET py == DecodeAttr(d, w) IN py # Raise /\ EncodeAttr(d, py) = w
\* K1: every schema-valid value survives decode + encode unchanged
K1(d) == \A w \in Wire : Valid(d, w) => RoundTrip(d, w)
\* K4: absent / null / present are three distinct Python states that map back to themselves
K4(d) == /\ (~d.req => DecodeAttr(d, "absent") = PyUnset /\ EncodeAttr(d, PyUnset) = "absent")
         /\ (Nullable(d) => DecodeAttr(d, "null") = PyNone /\ EncodeAttr(d, PyNone) = "null")
         /\ (d.req => DecodeAttr(d, "absent") = Raise)
\* K6: enumerations admit exactly the listed values (an unlisted value fails instead of being passed through)
K6(d) == (d.kind \in {"enums", "enumi"} /\ ~IsUnion(d)) => \A w \in Wire \ {"absent"} : ~ValidLeaf(d.kind, w) => DecodeAttr(d, w) = Raise
=============================================================================
