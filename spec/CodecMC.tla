------------------------------- MODULE CodecMC -------------------------------
(* Universe of descriptors for Codec.tla; TLC evaluates the declarative laws on the operational layer for every descriptor  *)
(* and emits, per descriptor, the model's decode/encode prediction for every wire class (spec -> code replay).              *)
EXTENDS Codec, Json
CONSTANTS UnionKinds,   \* member kinds used in unions
          Arity,        \* 2 or 3
          EmitJson
VARIABLES d, done
Leafs == [kind : LeafKinds \ {"none"}, req : BOOLEAN, nul : BOOLEAN, ms : {<<>>}, nest : {0}]
Pairs == {q \in [1..2 -> UnionKinds] : q[1] # q[2]}
Triples == IF Arity >= 3 THEN {q \in [1..3 -> UnionKinds] : q[1] # q[2] /\ q[1] # q[3] /\ q[2] # q[3]} ELSE {}
Unions == [kind : {"union"}, req : BOOLEAN, nul : BOOLEAN, ms : Pairs \cup Triples, nest : {0}]
\* nested unions: <<a, b>> wrapped in an inner oneOf, followed by c (overlapping object members included)
NestedMs == {q \in [1..3 -> {"modelM", "modelN", "modelS", "none", "str", "date"}] : q[1] # q[2] /\ q[1] # q[3] /\ q[2] # q[3]}
Nested == [kind : {"union"}, req : {TRUE, FALSE}, nul : {FALSE}, ms : NestedMs, nest : {2}]
Init == d \in Leafs \cup Unions \cup Nested /\ done = FALSE
Next == ~done /\ done' = TRUE /\ UNCHANGED d
Spec == Init /\ [][Next]_<<d, done>>
WireSeq == <<"absent", "null", "t", "f", "i0", "i1", "i2", "i7", "f15", "f10", "se", "s", "ds", "dts", "dt0", "us", "m1", "m2",
             "objv", "objw", "objvw", "obj0", "arr0", "arri", "arrd", "arro", "arrs">>
Dec(w) == DecodeAttr(d, w)
Enc(w) == IF Dec(w) = Raise THEN "raise" ELSE EncodeAttr(d, Dec(w))
Emit == (done /\ EmitJson) =>
   PrintT(ToJson([d |-> d, members |-> Members(d),
                  dec |-> [i \in 1..Len(WireSeq) |-> Dec(WireSeq[i])],
                  enc |-> [i \in 1..Len(WireSeq) |-> Enc(WireSeq[i])],
                  valid |-> [i \in 1..Len(WireSeq) |-> Valid(d, WireSeq[i])],
                  k1 |-> K1(d), k4 |-> K4(d), k6 |-> K6(d)]))
\* the laws as TLC invariants (violations are design-level counterexamples; run with -continue)
LawK1 == done => K1(d)
LawK4 == done => K4(d)
LawK6 == done => K6(d)
=============================================================================
