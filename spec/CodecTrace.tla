----------------------------- MODULE CodecTrace -----------------------------
(* Code -> spec: observations of REAL generated model classes executed in the sandbox                                   *)
(*   {"tid", "d": descriptor, "w": wire class, "dec": "ok"|"raise", "py": python type class, "enc": wire class|"raise"|"absent"} *)
(* are validated against Codec.tla's operational layer (conformance) and the declarative laws are evaluated on what the  *)
(* code really returned (K1 on observed encodings of schema-valid values, K6 on observed enum decoding).                 *)
EXTENDS Codec, Json, IOUtils
Obs == ndJsonDeserialize(IOEnv.TRACE_FILE)
VARIABLE l
Pred(e) == DecodeAttr(e.d, e.w)
Conforms(e) == LET p == Pred(e) IN
   IF p = Raise THEN e.dec = "raise"
   ELSE /\ e.dec = "ok"
        /\ (p[1] \in {"raw", "list"} \/ e.py = p[1])
        /\ e.enc = EncodeAttr(e.d, p)
LawK1(e) == Valid(e.d, e.w) => (e.dec = "ok" /\ e.enc = e.w)
LawK6(e) == (e.d.kind \in {"enums", "enumi"} /\ ~IsUnion(e.d) /\ e.w # "absent" /\ ~ValidLeaf(e.d.kind, e.w)) => e.dec = "raise"
Init == l = 1
Next == /\ l <= Len(Obs)
        /\ LET e == Obs[l] IN
             /\ (~Conforms(e)) => TLCSet(1, Append(TLCGet(1), e.tid))
             /\ (~LawK1(e)) => TLCSet(2, Append(TLCGet(2), e.tid))
             /\ (~LawK6(e)) => TLCSet(3, Append(TLCGet(3), e.tid))
        /\ l' = l + 1
Spec == Init /\ [][Next]_l
Post == PrintT(ToJson([nonconforming |-> TLCGet(1), k1 |-> TLCGet(2), k6 |-> TLCGet(3), n |-> Len(Obs), consumed |-> TLCGet("stats").diameter - 1]))
ASSUME TLCSet(1, <<>>) /\ TLCSet(2, <<>>) /\ TLCSet(3, <<>>)
=============================================================================
