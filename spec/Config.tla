------------------------------- MODULE Config -------------------------------
(***************************************************************************)
(* C16: each configuration option has exactly its documented effect.       *)
(*                                                                         *)
(* A CONFIGURATION assigns a value to every option of the README's         *)
(* Configuration section and of the `generate` command.  The generated     *)
(* client is abstracted to a record of FACETS (directory names, metadata   *)
(* files, version text, class / module / attribute names, enum and         *)
(* docstring representation, placement of endpoint modules under tags,     *)
(* treatment of an overridden media type, file encoding, the file rendered *)
(* from a custom template, hook effects) for ONE reference document that   *)
(* exercises every option (harness/configs.py).                            *)
(*                                                                         *)
(* OPERATIONAL layer: Out(c) transcribes how the code derives each facet   *)
(* (Project.__init__: project/package names and directories; Config.       *)
(* from_sources: default hooks per flavour; Class.from_string: overrides;  *)
(* ModelProperty.build: path prefixes; PythonIdentifier: field prefix;     *)
(* EndpointCollection.from_data: tags[:1]; get_content_type: overrides).   *)
(* The state machine walks the configuration graph: one step changes one   *)
(* option.                                                                 *)
(* DECLARATIVE layer: Affects(o, c) is the documented effect of option o;  *)
(* NoOtherEffect - a step changes no facet outside Affects; HasEffect - a  *)
(* step changes the facets it is documented to change; the per-option      *)
(* shape laws (GAT, CTO, META ...) say HOW they change.                    *)
(***************************************************************************)
EXTENDS Naturals, Sequences, FiniteSets, TLC

Options == {"pno", "pkgo", "pvo", "co", "fp", "upp", "le", "doa", "gat", "cto", "meta", "enc", "tpl", "hooks"}
Domain(o) == CASE o = "co" -> {"none", "class", "module", "both"}
               [] o = "meta" -> {"none", "poetry", "setup", "pdm"}
               [] o = "hooks" -> {"default", "empty", "custom"}
               [] o = "enc" -> {"utf-8", "utf-16"}
               [] OTHER -> {"off", "on"}
Default == [o \in Options |-> CASE o = "co" -> "none" [] o = "meta" -> "poetry" [] o = "hooks" -> "empty" [] o = "enc" -> "utf-8" [] o = "upp" -> "on" [] OTHER -> "off"]
\* hooks default to "empty" in the walk's start because the default hooks (ruff) reformat the whole tree; they are one value of the option

\* ------------------------------------------------------------------ Out(c): the facets
ProjName(c) == IF c["pno"] = "on" THEN "proj-o" ELSE "my-api-client"
Under(n)    == IF n = "proj-o" THEN "proj_o" ELSE "my_api_client"
PkgName(c)  == IF c["pkgo"] = "on" THEN "pkg_o" ELSE Under(ProjName(c))
ProjDir(c)  == IF c["meta"] = "none" THEN PkgName(c) ELSE ProjName(c)
PkgPath(c)  == IF c["meta"] = "none" THEN <<PkgName(c)>> ELSE <<ProjName(c), PkgName(c)>>
MetaFiles(c) == CASE c["meta"] = "none" -> {}
                  [] c["meta"] = "setup" -> {"pyproject.toml", "setup.py", "README.md", ".gitignore", "py.typed"}
                  [] OTHER -> {"pyproject.toml", "README.md", ".gitignore", "py.typed"}
Version(c)  == IF c["meta"] = "none" THEN "n/a" ELSE IF c["pvo"] = "on" THEN "9.9.9" ELSE "1.2.3"
ClassName(c) == IF c["co"] \in {"class", "both"} THEN "Renamed" ELSE "Thing"
ModName(c)   == CASE c["co"] \in {"module", "both"} -> "custom_mod" [] c["co"] = "class" -> "renamed" [] OTHER -> "thing"
\* the inline model with a title inside (the possibly renamed) Thing
TitledName(c) == IF c["upp"] = "on" THEN ClassName(c) \o "Titled" ELSE "Titled"
FieldName(c) == IF c["fp"] = "on" THEN "attr_1st" ELSE "field_1st"
\* create_thing has tags [alpha, beta], get_thing [alpha], upload_blob none ("default"); upload_blob exists only when its body's media type is known
Placements(c) == ({<<"alpha", "create_thing">>, <<"alpha", "get_thing">>, <<"v1", "list_items">>, <<"v2", "list_items">>} \cup (IF c["gat"] = "on" THEN {<<"beta", "create_thing">>} ELSE {}))
                 \cup (IF c["cto"] = "on" THEN {<<"default", "upload_blob">>} ELSE {})
Blob(c)      == IF c["cto"] = "on" THEN "octet" ELSE "omitted"        \* request body of media type application/vnd.acme.blob
HooksRun(c)  == CASE c["hooks"] = "custom" -> <<"marker">>
                  [] c["hooks"] = "empty" -> <<>>
                  [] c["meta"] = "none" -> <<"ruff check . --fix --extend-select=I", "ruff format .">>
                  [] OTHER -> <<"ruff check --fix .", "ruff format .">>
Out(c) == [projdir |-> ProjDir(c), pkgpath |-> PkgPath(c), projname |-> ProjName(c), pkgname |-> PkgName(c), metafiles |-> MetaFiles(c), version |-> Version(c),
           classname |-> ClassName(c), modname |-> ModName(c), titled |-> TitledName(c), fieldname |-> FieldName(c),
           enumrepr |-> IF c["le"] = "on" THEN "literal" ELSE "class", attrdoc |-> c["doa"], placements |-> Placements(c), blob |-> Blob(c),
           flavour |-> c["meta"], encoding |-> c["enc"], custom |-> c["tpl"], hooks |-> HooksRun(c)]
Facets == DOMAIN Out(Default)

\* ------------------------------------------------------------------ the documented effect of each option, in configuration c
Affects(o, c) ==
  CASE o = "pno"  -> {"projname"} \cup (IF c["pkgo"] = "off" THEN {"pkgname", "pkgpath"} ELSE {}) \cup (IF c["meta"] # "none" THEN {"projdir", "pkgpath"} ELSE IF c["pkgo"] = "off" THEN {"projdir"} ELSE {})
    [] o = "pkgo" -> {"pkgname", "pkgpath"} \cup (IF c["meta"] = "none" THEN {"projdir"} ELSE {})
    [] o = "pvo"  -> IF c["meta"] = "none" THEN {} ELSE {"version"}
    [] o = "co"   -> {"classname", "modname"} \cup (IF c["upp"] = "on" THEN {"titled"} ELSE {})
    [] o = "fp"   -> {"fieldname"}
    [] o = "upp"  -> {"titled"}
    [] o = "le"   -> {"enumrepr"}
    [] o = "doa"  -> {"attrdoc"}
    [] o = "gat"  -> {"placements"}
    [] o = "cto"  -> {"blob", "placements"}
    [] o = "meta" -> {"flavour", "metafiles", "projdir", "pkgpath", "version"} \cup (IF c["hooks"] = "default" THEN {"hooks"} ELSE {})
    [] o = "enc"  -> {"encoding"}
    [] o = "tpl"  -> {"custom"}
    [] o = "hooks" -> {"hooks"}

VARIABLES c, last, hist
vars == <<c, last, hist>>
Init == c = Default /\ last = "" /\ hist = <<>>
Step(o, v) == /\ v \in Domain(o) /\ v # c[o]
              /\ c' = [c EXCEPT ![o] = v] /\ last' = o /\ hist' = Append(hist, [o |-> o, v |-> v, out |-> Out([c EXCEPT ![o] = v])])
Next == \E o \in Options : \E v \in Domain(o) : Step(o, v)
Spec == Init /\ [][Next]_vars

\* ------------------------------------------------------------------ laws
\* the option changed by this step is the only one whose value differs
Changed == CHOOSE o \in Options : c'[o] # c[o]
NoOtherEffect == [][\A f \in Facets \ (Affects(Changed, c) \cup Affects(Changed, c')) : Out(c')[f] = Out(c)[f]]_c
\* a documented facet really changes (the option is not dead), judged in the source OR the target configuration
HasEffect == [][(\E f \in Affects(Changed, c) \cup Affects(Changed, c') : Out(c')[f] # Out(c)[f])
                \/ (Affects(Changed, c) \cup Affects(Changed, c') = {})]_c
\* shape laws
GAT == c["gat"] = "on" => LET d == [c EXCEPT !["gat"] = "off"] IN
                            /\ Placements(d) \subseteq Placements(c)
                            /\ \A p \in Placements(c) : \E q \in Placements(d) : q[2] = p[2]       \* same modules, under more tags
RENAMES == \A o \in {"pno", "pkgo", "pvo", "co", "fp", "upp"} : \A v \in Domain(o) :
             LET d == [c EXCEPT ![o] = v] IN Out(d).placements = Out(c).placements /\ Out(d).blob = Out(c).blob /\ Out(d).enumrepr = Out(c).enumrepr
META == \A v \in Domain("meta") : LET d == [c EXCEPT !["meta"] = v] IN
           /\ Out(d).pkgname = Out(c).pkgname /\ Out(d).classname = Out(c).classname /\ Out(d).placements = Out(c).placements
           /\ (v = "none" <=> Out(d).metafiles = {})
=============================================================================
