------------------------------ MODULE ConfigMC ------------------------------
EXTENDS Config, Json
CONSTANT Depth
\* walks through the configuration graph for replay (used with -simulate): the walk and the facets the model predicts after every step
Bound == Len(hist) <= Depth
Emit == Len(hist) = Depth => PrintT(ToJson([walk |-> hist]))
View == c
=============================================================================
