----------------------------- MODULE ConfigTrace -----------------------------
(* Code -> spec: facets extracted from real generated trees {"tid","c","f"} are validated against Config.tla: TLC recomputes Out(c) and
   lists, per observation, the facets that differ. *)
EXTENDS Config, Json, IOUtils
Obs == ndJsonDeserialize(IOEnv.TRACE_FILE)
VARIABLE l
SetOf(q) == {q[i] : i \in 1..Len(q)}
Norm(f) == [f EXCEPT !.metafiles = SetOf(@), !.placements = SetOf(@)]
Diff(e) == LET m == Out(e.c) r == Norm(e.f) IN {k \in Facets \ SetOf(e.skip) : m[k] # r[k]}
TInit == l = 1 /\ c = Default /\ last = "" /\ hist = <<>>
TNext == /\ l <= Len(Obs)
         /\ LET e == Obs[l] IN (Diff(e) # {} => TLCSet(1, Append(TLCGet(1), [tid |-> e.tid, facets |-> Diff(e)])))
         /\ l' = l + 1 /\ UNCHANGED vars
TSpec == TInit /\ [][TNext]_<<l, vars>>
Post == PrintT(ToJson([nonconforming |-> TLCGet(1), n |-> Len(Obs), consumed |-> TLCGet("stats").diameter - 1]))
ASSUME TLCSet(1, <<>>)
=============================================================================
