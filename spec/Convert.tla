------------------------------- MODULE Convert -------------------------------
(***************************************************************************)
(* Conversion of a declared `default` into a Python default               *)
(* (parser/properties: every convert_value, _property_from_ref,           *)
(* merge_properties._merge_common_attributes) as a transcribed case table. *)
(*                                                                         *)
(* V is a menu of JSON values (one representative per class, table in      *)
(* harness/props/C13.py).  Convert(k, v) is "none" (no default), "err"     *)
(* (PropertyError) or <<"val", T, c>>: a Python expression of type T whose *)
(* JSON encoding is the value class c.                                     *)
(* Declarative: WellTyped(k, v) / IllTyped(k, v) by JSON-Schema meaning;   *)
(* the band in between (a string spelling of a number, an integral float   *)
(* for an integer, any scalar for a string ...) is Lenient and not judged. *)
(***************************************************************************)
EXTENDS Naturals, Sequences, TLC
V == {"null", "true", "false", "i0", "i1", "im1", "f10", "f15", "sabc", "s1", "s15", "strue", "sTRUE", "sdate", "sdt", "suuid", "sNone",
      "arr", "obj", "sa", "szzz", "squote", "i2", "i7", "ibig", "imax"}       \* ibig = 2^53+1, imax = 2^63-1: integers a double cannot hold
JT(v) == CASE v = "null" -> "null" [] v \in {"true", "false"} -> "bool" [] v \in {"i0", "i1", "im1", "i2", "i7", "ibig", "imax"} -> "int"
           [] v \in {"f10", "f15"} -> "float" [] v = "arr" -> "arr" [] v = "obj" -> "obj" [] OTHER -> "str"
Kinds == {"string", "int", "float", "bool", "date", "datetime", "uuid", "enums", "enumi", "lits", "liti", "consts", "consti", "any", "none",
          "file", "list", "model", "uintstr", "udateint", "umodelstr", "umodelint"}
\* enums/lits: values {"a", "zz"->no}: member = sa;  enumi/liti: members {1, 2} = i1, i2;  consts = "abc" (sabc);  consti = 1 (i1)
\* uintstr = union [integer, string];  udateint = union [date, integer]

Val(T, c) == <<"val", T, c>>
NoDefault == <<"none", "", "">>
Err == <<"err", "", "">>
\* str(value) of a non-string value, as a value class of its own (the raw value StringProperty.convert_value records), and what float(...) reads back
StrOf(v) == CASE v = "i1" -> "s1" [] v = "f15" -> "s15" [] OTHER -> "s:" \o v
NumOfStr(v) == CASE v = "s1" -> "i1" [] v = "s15" -> "f15" [] v \in {"s:i0", "s:im1", "s:i2", "s:i7"} -> SubSeq(v, 3, Len(v))
                 [] v = "s:f10" -> "f10" [] v \in {"s:ibig", "s:imax"} -> SubSeq(v, 3, Len(v)) \o "-rounded"        \* int(float("9007199254740993"))
                 [] OTHER -> "nan"
IntNums == {"i0", "i1", "im1", "i2", "i7", "ibig-rounded", "imax-rounded"}

RECURSIVE Convert(_, _)
Convert(k, v) ==
  IF v = "null" THEN NoDefault
  ELSE CASE k = "string" -> Val("str", IF JT(v) = "str" THEN v ELSE "str(" \o v \o ")")          \* str(value): anything is accepted; emitted as repr(value)
    [] k = "int" -> IF JT(v) = "str" THEN (IF NumOfStr(v) \in IntNums THEN Val("int", NumOfStr(v)) ELSE IF NumOfStr(v) = "f10" THEN Val("int", "i1") ELSE Err)
                    ELSE IF v = "f10" THEN Val("int", "i1")                                       \* integral float
                    ELSE IF JT(v) = "int" THEN Val("int", v) ELSE Err                           \* bool, 1.5, containers
    [] k = "float" -> IF JT(v) = "str" THEN (IF NumOfStr(v) # "nan" THEN Val("float", NumOfStr(v)) ELSE Err)
                      ELSE IF v \in {"ibig", "imax"} THEN Val("float", v \o "-rounded")          \* float(value): the nearest double
                      ELSE IF JT(v) \in {"int", "float"} THEN Val("float", v) ELSE Err
    [] k = "bool" -> IF v \in {"strue", "sTRUE"} THEN Val("bool", "true") ELSE IF JT(v) = "bool" THEN Val("bool", v) ELSE Err
    [] k = "date" -> IF v \in {"sdate", "sdt"} THEN Val("date", "sdate") ELSE Err               \* isoparse(...).date()
    [] k = "datetime" -> IF v = "sdt" THEN Val("datetime", "sdt") ELSE IF v = "sdate" THEN Val("datetime", "sdate-midnight") ELSE Err
    [] k = "uuid" -> IF v = "suuid" THEN Val("UUID", v) ELSE Err
    [] k \in {"enums", "lits"} -> IF v = "sa" THEN Val(IF k = "enums" THEN "EnumS" ELSE "str", "sa") ELSE Err
    [] k = "enumi" -> IF v \in {"i1", "i2"} THEN Val("EnumI", v) ELSE Err                        \* booleans are not integers here
    [] k = "liti" -> IF v \in {"i1", "i2"} THEN Val("int", v) ELSE Err
    [] k = "consts" -> IF v = "sabc" THEN Val("str", "sabc") ELSE Err
    [] k = "consti" -> IF v = "i1" THEN Val("int", "i1") ELSE Err
    [] k = "any" -> IF JT(v) = "str" THEN Convert("string", v) ELSE Val("raw", v)
    [] k = "none" -> NoDefault                                           \* `type: null` builds NoneProperty with default=None: the default is ignored
    [] k = "file" -> NoDefault                                                                     \* binary strings ignore `default`
    [] k = "list" -> NoDefault                                                                     \* the default is dropped silently
    [] k = "model" -> Err                                                                          \* "ModelProperty cannot have a default value"
    [] k = "uintstr" -> IF Convert("int", v) # Err THEN Convert("int", v) ELSE Convert("string", v)
    [] k = "udateint" -> IF Convert("date", v) # Err THEN Convert("date", v) ELSE Convert("int", v)
    \* a model member declared FIRST refuses every default, so the next member decides
    [] k = "umodelstr" -> IF Convert("model", v) # Err THEN Convert("model", v) ELSE Convert("string", v)
    [] k = "umodelint" -> IF Convert("model", v) # Err THEN Convert("model", v) ELSE Convert("int", v)
    [] OTHER -> Err

\* ------------------------------------------------------------------ declarative
WellTyped(k, v) ==
  CASE k = "string" -> JT(v) = "str"
    [] k = "int" -> JT(v) = "int"
    [] k = "float" -> JT(v) \in {"int", "float"} /\ v \notin {"ibig", "imax"}
    [] k = "bool" -> JT(v) = "bool"
    [] k = "date" -> v = "sdate"
    [] k = "datetime" -> v = "sdt"
    [] k = "uuid" -> v = "suuid"
    [] k \in {"enums", "lits"} -> v = "sa"
    [] k \in {"enumi", "liti"} -> v \in {"i1", "i2"}
    [] k = "consts" -> v = "sabc"
    [] k = "consti" -> v = "i1"
    [] k = "any" -> v # "null"
    [] k = "uintstr" -> JT(v) \in {"int", "str"}
    [] k = "udateint" -> v = "sdate" \/ JT(v) = "int"
    [] k = "umodelstr" -> JT(v) = "str"
    [] k = "umodelint" -> JT(v) = "int"
    [] OTHER -> FALSE
\* a string spelling of the right value, an integral float for an integer, a date-time for a date and vice versa, any scalar for a string
Lenient(k, v) ==
  \/ (k = "int" /\ v \in {"s1", "f10"}) \/ (k = "float" /\ v \in {"s1", "s15"}) \/ (k = "bool" /\ v \in {"strue", "sTRUE"})
  \/ (k = "date" /\ v = "sdt") \/ (k = "datetime" /\ v = "sdate") \/ (k = "string" /\ JT(v) \in {"int", "float", "bool"})
  \/ (k = "float" /\ v \in {"ibig", "imax"})              \* an integer a double cannot hold, declared for `number`: beyond the type the client uses
  \/ (k = "none") \/ (k \in {"list", "model", "file"}) \/ (k = "uintstr" /\ JT(v) \in {"float", "bool"}) \/ (k = "udateint" /\ v \in {"sdt", "s1", "f10"})
  \/ (k = "uintstr" /\ JT(v) \in {"arr", "obj"} /\ FALSE)
  \/ (k = "umodelstr" /\ JT(v) \in {"int", "float", "bool", "obj"}) \/ (k = "umodelint" /\ (v \in {"s1", "f10"} \/ JT(v) = "obj"))
IllTyped(k, v) == v # "null" /\ ~WellTyped(k, v) /\ ~Lenient(k, v)
\* D1: a well-typed default becomes a Python default that encodes to the declared value
D1(k, v) == WellTyped(k, v) => (Convert(k, v) # Err /\ Convert(k, v) # NoDefault /\ Convert(k, v)[3] = v)
\* D2: a default that is not a value of the type is rejected
D2(k, v) == IllTyped(k, v) => Convert(k, v) = Err
\* ------------------------------------------------------------------ an allOf override inside one property class
\* The child re-declares an inherited property with ANOTHER declaration of the same property class (a const with another value, a union with
\* other members) and gives a default.  The child's property is built on its own first (Convert(k, v)); merge_properties then keeps the
\* BASE declaration and re-converts the raw default against it (_merge_common_attributes: current.convert_value(override.default.raw_value)).
UnionKinds == {"uintstr", "udateint", "umodelstr", "umodelint"}
SameClass == {<<"consti", "consts">>, <<"consts", "consti">>} \cup {p \in UnionKinds \X UnionKinds : p[1] # p[2]}     \* <<base kind, child kind>>
\* what is re-converted is the raw value the child's conversion RECORDED: str(value) when the string member took a non-string
Recorded(k, v) == IF Convert(k, v)[3] = "str(" \o v \o ")" THEN StrOf(v) ELSE v
ConvertOver(kp, k, v) == IF Convert(k, v) \in {Err, NoDefault} THEN Convert(k, v) ELSE Convert(kp, Recorded(k, v))
\* D3: allOf means both declarations hold, so a default that is not a value of either one is rejected
D3(kp, k, v) == (IllTyped(kp, v) \/ IllTyped(k, v)) => ConvertOver(kp, k, v) = Err
=============================================================================
