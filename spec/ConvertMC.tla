------------------------------ MODULE ConvertMC ------------------------------
EXTENDS Convert, Json
VARIABLES k, v, done
Init == k \in Kinds /\ v \in V /\ done = FALSE
Next == ~done /\ done' = TRUE /\ UNCHANGED <<k, v>>
Spec == Init /\ [][Next]_<<k, v, done>>
Emit == done => PrintT(ToJson([k |-> k, v |-> v, out |-> Convert(k, v), well |-> WellTyped(k, v), ill |-> IllTyped(k, v), d1 |-> D1(k, v), d2 |-> D2(k, v)]))
LawD1 == done => D1(k, v)
LawD2 == done => D2(k, v)
=============================================================================
