------------------------------ MODULE ConvertMC ------------------------------
EXTENDS Convert, Json
VARIABLES k, v, done
Init == k \in Kinds /\ v \in V /\ done = FALSE
Next == ~done /\ done' = TRUE /\ UNCHANGED <<k, v>>
Spec == Init /\ [][Next]_<<k, v, done>>
RECURSIVE S2Q(_)
S2Q(S) == IF S = {} THEN <<>> ELSE LET x == CHOOSE y \in S : TRUE IN <<x>> \o S2Q(S \ {x})
Over == {[kp |-> p[1], out |-> ConvertOver(p[1], k, v), ill |-> (IllTyped(p[1], v) \/ IllTyped(k, v))] : p \in {q \in SameClass : q[2] = k}}
Emit == done => PrintT(ToJson([k |-> k, v |-> v, out |-> Convert(k, v), well |-> WellTyped(k, v), ill |-> IllTyped(k, v), d1 |-> D1(k, v), d2 |-> D2(k, v), over |-> S2Q(Over)]))
LawD3 == done => \A p \in SameClass : p[2] = k => D3(p[1], k, v)
LawD1 == done => D1(k, v)
LawD2 == done => D2(k, v)
=============================================================================
