---------------------------- MODULE ConvertTrace ----------------------------
(* Code -> spec: real outcomes of default conversion {"tid","k","v","real": "val"|"err"|"none", "enc_is_v": bool} validated against Convert.tla *)
EXTENDS Convert, Json, IOUtils
Obs == ndJsonDeserialize(IOEnv.TRACE_FILE)
VARIABLE l
Conforms(e) == Convert(e.k, e.v)[1] = e.real
LawD1(e) == WellTyped(e.k, e.v) => (e.real = "val" /\ e.enc_is_v)
LawD2(e) == IllTyped(e.k, e.v) => e.real = "err"
Init == l = 1
Next == /\ l <= Len(Obs)
        /\ LET e == Obs[l] IN
             /\ ((~Conforms(e)) => TLCSet(1, Append(TLCGet(1), e.tid)))
             /\ ((~LawD1(e)) => TLCSet(2, Append(TLCGet(2), e.tid)))
             /\ ((~LawD2(e)) => TLCSet(3, Append(TLCGet(3), e.tid)))
        /\ l' = l + 1
Spec == Init /\ [][Next]_l
Post == PrintT(ToJson([nonconforming |-> TLCGet(1), d1 |-> TLCGet(2), d2 |-> TLCGet(3), n |-> Len(Obs), consumed |-> TLCGet("stats").diameter - 1]))
ASSUME TLCSet(1, <<>>) /\ TLCSet(2, <<>>) /\ TLCSet(3, <<>>)
=============================================================================
