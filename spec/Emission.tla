------------------------------ MODULE Emission ------------------------------
(***************************************************************************)
(* Emission discipline of the renderer (C12).  The generator's only        *)
(* process-level nondeterminism is the iteration order of Python sets      *)
(* (string-hash randomisation).  A template loop is an EMISSION SITE       *)
(* [tpl, attr, sorted]: template, the attribute it iterates, and whether   *)
(* the iterable goes through a sort/dictsort filter.  The spec fixes the   *)
(* container kind of every attribute the templates may iterate; the law    *)
(* is that a set-valued attribute is never emitted unsorted.               *)
(* The sites are not hand-copied: the harness extracts them from the       *)
(* CURRENT templates with Jinja2's own parser and TLC validates that       *)
(* census (code -> spec); a site over an attribute the spec does not know  *)
(* is reported as drift and decided by the multi-seed byte comparison.     *)
(***************************************************************************)
EXTENDS Naturals, Sequences, TLC, Json, IOUtils
SetValued  == {"relative_imports", "lazy_imports", "values_literal"}      \* Python sets (hash order)
ListValued == {"imports", "alls", "required_properties", "optional_properties", "inner_properties", "endpoints", "responses",
               "bodies", "path_parameters", "query_parameters", "header_parameters", "cookie_parameters", "all_parameters",
               "required_plus_optional", "attrs_info", "items", "list_all_parameters"}
DictValued == {"values", "endpoint_collections_by_tag"}                   \* insertion order = document order
Known == SetValued \cup ListValued \cup DictValued
Safe(site) == site.attr \in SetValued => site.sorted
Sites == ndJsonDeserialize(IOEnv.TRACE_FILE)
VARIABLE l
Init == l = 1
Next == /\ l <= Len(Sites)
        /\ LET s == Sites[l] IN
             /\ (s.attr \notin Known) => TLCSet(1, Append(TLCGet(1), s))
             /\ (s.attr \in Known /\ ~Safe(s)) => TLCSet(2, Append(TLCGet(2), s))
        /\ l' = l + 1
Spec == Init /\ [][Next]_l
Post == PrintT(ToJson([unknown |-> TLCGet(1), unsafe |-> TLCGet(2), n |-> Len(Sites), consumed |-> TLCGet("stats").diameter - 1]))
ASSUME TLCSet(1, <<>>) /\ TLCSet(2, <<>>)
=============================================================================
