------------------------------ MODULE Endpoint ------------------------------
(***************************************************************************)
(* One call of a generated endpoint function                               *)
(* (templates/endpoint_module.py.jinja, endpoint_macros.py.jinja,          *)
(* client.py.jinja) as a state machine:                                    *)
(*                                                                         *)
(*   call -> kwargs -> sent -> received -> parsed -> returned | raised     *)
(*                                                                         *)
(* for the variants sync_detailed / sync / asyncio_detailed / asyncio.     *)
(* An OPERATION is [ps, body, rs, secured]; ps: sequence of parameters     *)
(* [n, loc, kind, req]; an ARGUMENT PATTERN says which optional parameters *)
(* are supplied.  The request is abstract: a set of PLACEMENTS             *)
(* <<location, wire name, wire form>> plus body kind and content type.     *)
(* OPERATIONAL: mirrors the macros (header guard + per-kind transform,     *)
(* cookie guard, query transform + the final `is not UNSET and not None`   *)
(* filter, "url".format(...), body kwarg per BodyType with isinstance      *)
(* dispatch, Content-Type omitted for a single multipart body, the         *)
(* credential header of AuthenticatedClient; _parse_response as the        *)
(* ordered status chain, `parsed_responses`, the unexpected-status branch).*)
(* DECLARATIVE: laws E1-E4.                                                *)
(***************************************************************************)
EXTENDS Naturals, Sequences, FiniteSets, TLC

\* ---- wire form of one supplied argument, per location and kind (what the server sees)
\* values: str "tok", int 7, bool True, enum member "a", date 2020-01-02, uuid, float 1.5, list ["x","y"]
Form(loc, kind) ==
  CASE kind = "str" -> "tok" [] kind = "int" -> "7" [] kind = "float" -> "1.5"
    [] kind = "bool" -> IF loc = "path" THEN "True" ELSE "true"      \* str(True) in the path (sic), "true" elsewhere
    [] kind = "enum" -> "a" [] kind = "date" -> "2020-01-02" [] kind = "uuid" -> "uuid"
    [] kind \in {"list", "listform"} -> "x,y"                        \* repeated key: n=x&n=y ("listform": the default `style: form` written out -
                                                                     \* its `explode` defaults to true, so the wire form is the same)
    [] OTHER -> "?"

VARIABLES op, args,      \* the operation and the set of indices of supplied optional parameters
          variant,       \* "sync_detailed" | "sync" | "asyncio_detailed" | "asyncio"
          raiseFlag,     \* Client.raise_on_unexpected_status
          served,        \* the response the server will give: [status, how]
          stage, req, nreq, result
vars == <<op, args, variant, raiseFlag, served, stage, req, nreq, result>>

Supplied(i) == op.ps[i].req \/ i \in args
\* ---- kwargs construction
Placements == { <<op.ps[i].loc, op.ps[i].n, Form(op.ps[i].loc, op.ps[i].kind)>> : i \in {j \in 1..Len(op.ps) : Supplied(j)} }
Cred == IF op.secured THEN {<<"header", "Authorization", "Bearer token">>} ELSE {}
BodyKwarg(b) == CASE b = "json" -> <<"json", "application/json">> [] b = "jsonarr" -> <<"json", "application/json">>
                  [] b = "form" -> <<"data", "application/x-www-form-urlencoded">>
                  [] b = "multi" -> <<"files", "multipart/form-data">>          \* httpx adds the boundary; the template sets no header
                  [] b = "octet" -> <<"content", "application/octet-stream">>
                  [] b = "json|form:json" -> <<"json", "application/json">>    \* two media types, argument is the JSON model
                  [] b = "json|form:form" -> <<"data", "application/x-www-form-urlencoded">>
                  [] b = "vnd+json" -> <<"json", "application/vnd.api+json">>
                  [] b = "json;param" -> <<"json", "application/vnd.acme+json; version=2">>   \* the declared media type is sent verbatim, parameters included
                  [] OTHER -> <<"none", "">>


InitWith(o, a, v, rf, s) == /\ op = o /\ args = a /\ variant = v /\ raiseFlag = rf /\ served = s
                            /\ stage = "call" /\ req = [pl |-> {}, body |-> <<"none", "">>] /\ nreq = 0 /\ result = "pending"

Kwargs == /\ stage = "call" /\ stage' = "kwargs"
          /\ req' = [pl |-> Placements \cup Cred, body |-> BodyKwarg(op.body)]
          /\ UNCHANGED <<op, args, variant, raiseFlag, served, nreq, result>>
Send == /\ stage = "kwargs" /\ stage' = "sent" /\ nreq' = nreq + 1
        /\ UNCHANGED <<op, args, variant, raiseFlag, served, req, result>>
\* ---- _parse_response: ordered chain over the documented statuses
Documented == {op.rs[k].status : k \in 1..Len(op.rs)}
HowOf(s) == op.rs[CHOOSE k \in 1..Len(op.rs) : op.rs[k].status = s].how
\* the return type collapses to Any when no response has a typed schema: then nothing is parsed and sync()/asyncio() do not exist
Typed == \E k \in 1..Len(op.rs) : op.rs[k].how \in {"model", "text", "list", "int", "file", "const", "ndjson"}
\* "const": a JSON response whose schema is a const (decoded by cast to the Literal type); "ndjson": a text/* media type whose subtype merely ENDS in
\* the letters json (text/x-ndjson) with a string schema - text, not JSON.
\* "t0int": the response lists text/plain WITHOUT a schema first and application/json with an integer schema second.  response_from_data
\* takes the first supported media type only, and a media type without a schema documents no payload: nothing is parsed, nothing is typed.
ParsedOf(s) == IF s \in Documented THEN (IF Typed THEN (IF HowOf(s) = "t0int" THEN "none" ELSE HowOf(s)) ELSE "None") ELSE "None"
Receive == /\ stage = "sent" /\ stage' = "received"
           /\ UNCHANGED <<op, args, variant, raiseFlag, served, req, nreq, result>>
Parse == /\ stage = "received"
         /\ IF served.status \notin Documented /\ raiseFlag
              THEN stage' = "raised" /\ result' = "UnexpectedStatus"
              ELSE stage' = "returned" /\ result' = ParsedOf(served.status)
         /\ UNCHANGED <<op, args, variant, raiseFlag, served, req, nreq>>
Next == Kwargs \/ Send \/ Receive \/ Parse

\* ------------------------------------------------------------------ laws
Done == stage \in {"returned", "raised"}
\* E1: exactly one request; every supplied argument once, under its wire name, in its location; unset optionals absent
E1 == Done => /\ nreq = 1
              /\ \A i \in 1..Len(op.ps) : Supplied(i) <=> (\E p \in req.pl : p[1] = op.ps[i].loc /\ p[2] = op.ps[i].n)
              /\ \A p \in req.pl \ Cred : \E i \in 1..Len(op.ps) : p[1] = op.ps[i].loc /\ p[2] = op.ps[i].n /\ Supplied(i)
              /\ (op.body = "none") <=> (req.body[1] = "none")
\* E3: a secured operation carries the credential header
E3 == Done => (op.secured <=> <<"header", "Authorization", "Bearer token">> \in req.pl)
\* E4: a documented status yields its parsed kind, an undocumented one None or the dedicated error per flag
E4 == Done => IF served.status \in Documented THEN stage = "returned" /\ result = ParsedOf(served.status)
              ELSE (raiseFlag => stage = "raised") /\ (~raiseFlag => (stage = "returned" /\ result = "None"))
Terminates == <>Done
=============================================================================
