------------------------------ MODULE EndpointMC ------------------------------
(* Two bounded universes for Endpoint.tla: "request" (parameters x body x security x argument presence) and "response"     *)
(* (documented response sets x served status x raise flag x call variant); each terminal state is emitted as JSON.          *)
EXTENDS Endpoint, Json
CONSTANTS Universe, MaxParams, EmitJson, Part, Parts, MaxResp
PMenu == << [n |-> "id", loc |-> "path", kind |-> "str", req |-> TRUE], [n |-> "item-id", loc |-> "path", kind |-> "int", req |-> TRUE],
            [n |-> "q", loc |-> "query", kind |-> "str", req |-> FALSE], [n |-> "limit", loc |-> "query", kind |-> "int", req |-> TRUE],
            [n |-> "flag", loc |-> "query", kind |-> "bool", req |-> FALSE], [n |-> "sort-by", loc |-> "query", kind |-> "enum", req |-> FALSE],
            [n |-> "when", loc |-> "query", kind |-> "date", req |-> FALSE], [n |-> "tags", loc |-> "query", kind |-> "list", req |-> FALSE],
            [n |-> "X-Trace", loc |-> "header", kind |-> "str", req |-> FALSE], [n |-> "X-Count", loc |-> "header", kind |-> "int", req |-> TRUE],
            [n |-> "X-Flag", loc |-> "header", kind |-> "bool", req |-> FALSE], [n |-> "session", loc |-> "cookie", kind |-> "str", req |-> FALSE],
            [n |-> "id", loc |-> "query", kind |-> "str", req |-> FALSE], [n |-> "q", loc |-> "header", kind |-> "str", req |-> FALSE],
            [n |-> "f", loc |-> "query", kind |-> "float", req |-> FALSE], [n |-> "u", loc |-> "path", kind |-> "uuid", req |-> TRUE],
            [n |-> "kind", loc |-> "path", kind |-> "enum", req |-> TRUE], [n |-> "X-Kind", loc |-> "header", kind |-> "enum", req |-> FALSE],
            [n |-> "page", loc |-> "cookie", kind |-> "int", req |-> FALSE], [n |-> "dark", loc |-> "cookie", kind |-> "bool", req |-> TRUE],
            [n |-> "theme", loc |-> "cookie", kind |-> "enum", req |-> FALSE], [n |-> "ids", loc |-> "query", kind |-> "listform", req |-> FALSE] >>
MenuSet == {PMenu[i] : i \in 1..Len(PMenu)}
ParamSeqs == {q \in UNION {[1..k -> MenuSet] : k \in 0..MaxParams} : \A a, b \in 1..Len(q) : a # b => <<q[a].n, q[a].loc>> # <<q[b].n, q[b].loc>>}
BodySeq == <<"none", "json", "jsonarr", "form", "multi", "octet", "json|form:json", "json|form:form", "vnd+json", "json;param">>
MyBodies == {BodySeq[j] : j \in {k \in 1..Len(BodySeq) : k % Parts = Part}}
RMenu == << [status |-> 200, how |-> "model"], [status |-> 201, how |-> "text"], [status |-> 204, how |-> "none"], [status |-> 404, how |-> "list"],
            [status |-> 202, how |-> "int"], [status |-> 206, how |-> "file"], [status |-> 205, how |-> "none"],
            [status |-> 203, how |-> "t0int"], [status |-> 207, how |-> "const"], [status |-> 208, how |-> "ndjson"] >>
RespSeqs == {[k \in 1..Len(ix) |-> RMenu[ix[k]]] : ix \in {q \in UNION {[1..k -> 1..Len(RMenu)] : k \in 1..MaxResp} : \A a, b \in 1..Len(q) : a < b => q[a] < q[b]}}
Variants == {"sync_detailed", "sync", "asyncio_detailed", "asyncio"}
OptIdx(ps) == {i \in 1..Len(ps) : ~ps[i].req}
ReqInit == \E ps \in ParamSeqs, b \in MyBodies, sec \in BOOLEAN, v \in {"sync_detailed", "asyncio_detailed"} :
             \E a \in SUBSET OptIdx(ps) :
               InitWith([ps |-> ps, body |-> b, rs |-> << [status |-> 204, how |-> "none"] >>, secured |-> sec], a, v, FALSE, [status |-> 204, how |-> "none"])
RespInit == \E rs \in RespSeqs, v \in Variants, rf \in BOOLEAN :
              \E s \in {rs[k].status : k \in 1..Len(rs)} \cup {418} :
                InitWith([ps |-> <<>>, body |-> "none", rs |-> rs, secured |-> FALSE], {}, v, rf, [status |-> s, how |-> "x"])
MCInit == IF Universe = "request" THEN ReqInit ELSE RespInit
Spec == MCInit /\ [][Next]_vars /\ WF_vars(Next)
RECURSIVE S2Q(_)
S2Q(S) == IF S = {} THEN <<>> ELSE LET x == CHOOSE y \in S : TRUE IN <<x>> \o S2Q(S \ {x})
Emit == (Done /\ EmitJson) =>
   PrintT(ToJson([op |-> op, args |-> S2Q(args), variant |-> variant, raise |-> raiseFlag, served |-> served.status, pl |-> S2Q(req.pl), body |-> req.body,
                  stage |-> stage, result |-> result, typed |-> Typed]))
=============================================================================
