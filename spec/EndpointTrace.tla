---------------------------- MODULE EndpointTrace ----------------------------
(* Code -> spec: requests captured from REAL generated endpoint functions                                                 *)
(*  {"tid","ps","args","secured","body","nreq","locs": [[loc,name]...] placements seen,"auth": bool,"bodykind"}             *)
(* judged by the declarative laws E1 / E3 of Endpoint.tla on what was really sent.                                          *)
EXTENDS Naturals, Sequences, FiniteSets, TLC, Json, IOUtils
Obs == ndJsonDeserialize(IOEnv.TRACE_FILE)
VARIABLE l
ToSet(s) == {s[i] : i \in 1..Len(s)}
SuppliedIdx(e) == {i \in 1..Len(e.ps) : e.ps[i].req \/ i \in ToSet(e.args)}
E1(e) == /\ e.nreq = 1
         /\ ToSet(e.locs) = {<<e.ps[i].loc, e.ps[i].n>> : i \in SuppliedIdx(e)}
         /\ (e.body = "none") <=> (e.bodykind = "none")
E3(e) == e.secured <=> e.auth
Init == l = 1
Next == /\ l <= Len(Obs)
        /\ LET e == Obs[l] IN
             /\ ((~E1(e)) => TLCSet(1, Append(TLCGet(1), e.tid)))
             /\ ((~E3(e)) => TLCSet(2, Append(TLCGet(2), e.tid)))
        /\ l' = l + 1
Spec == Init /\ [][Next]_l
Post == PrintT(ToJson([e1 |-> TLCGet(1), e3 |-> TLCGet(2), n |-> Len(Obs), consumed |-> TLCGet("stats").diameter - 1]))
ASSUME TLCSet(1, <<>>) /\ TLCSet(2, <<>>)
=============================================================================
