----------------------------- MODULE FsHistory -----------------------------
(***************************************************************************)
(* Histories of `generate` commands (and user edits) against ONE output    *)
(* location (openapi_python_client/__init__.py: _get_document,             *)
(* GeneratorData.from_dict, Project.build; cli.py: handle_errors).         *)
(*                                                                         *)
(* The file tree is abstract: a function from artefact paths to content    *)
(* tags.  A command is unfolded into the real steps, in the real order:    *)
(*  load -> validate -> mkdir -> package -> metadata -> rm_models ->       *)
(*  models -> client -> rm_api -> api -> hooks -> exit                     *)
(* so that "the existing-directory check happens before any write",        *)
(* "a rejected document writes nothing" and "no stale modules survive"     *)
(* are statements about reachable intermediate states.                     *)
(***************************************************************************)
EXTENDS Naturals, Sequences, FiniteSets, TLC

CONSTANTS MaxCmds,     \* commands per history
          Docs,        \* subset of {"d1","d2","dWarn","dBad","dJunk"}
          HookKinds,   \* subset of {"ok","missing","fail"}
          Touches,     \* user paths the user may create between commands
          MaxTouches,  \* bound on user edits per history (only to keep emitted histories replayable; 99 = unbounded)
          CrashPoints  \* steps BEFORE which the generating process may die (subset of the write steps; {} = no crashes)

\* ---- documents
Rejected(d)  == d \in {"dBad", "dJunk"}            \* dJunk: unparseable bytes (load); dBad: not an OpenAPI document (validate)
Warns(d)     == d = "dWarn"                         \* generates, one schema omitted with a warning
ModelsOf(d)  == CASE d = "d1" -> {"m1"} [] d = "d2" -> {"m2"} [] d = "dWarn" -> {"m1"} [] OTHER -> {}
TagsOf(d)    == CASE d = "d1" -> {"t1"} [] d = "d2" -> {"t2"} [] d = "dWarn" -> {"t1"} [] OTHER -> {}

\* ---- paths.  Generator-owned artefacts and user files; "sib" is a sibling of the output directory.
ModelPaths == {"models/m1", "models/m2"}
ApiPaths   == {"api/t1", "api/t2"}
Owned      == {"pkg", "meta", "models/init", "api/init", "client"} \cup ModelPaths \cup ApiPaths
UserPaths  == {"u_top", "u_flav", "u_pkg", "u_models", "u_api", "sib"}   \* u_flav: a user file named like ANOTHER flavour's metadata file
Paths      == Owned \cup UserPaths
Absent     == <<"absent", "", "">>
User       == <<"user", "", "">>
Gen(d, p)  == <<"gen", d, p>>
\* what a fresh generation of d into an empty location contains
Fresh(d) == [p \in Owned |->
               IF p \in ModelPaths THEN (IF \E m \in ModelsOf(d) : p = "models/" \o m THEN Gen(d, p) ELSE Absent)
               ELSE IF p \in ApiPaths THEN (IF \E t \in TagsOf(d) : p = "api/" \o t THEN Gen(d, p) ELSE Absent)
               ELSE Gen(d, p)]
\* content of fixed files does not depend on the document (client.py, errors.py, types.py, api/__init__.py)
Same(a, b) == a = b \/ (a # Absent /\ b # Absent /\ a[1] = "gen" /\ b[1] = "gen" /\ a[3] = b[3] /\ a[3] \in {"client", "api/init"})

VARIABLES fs,        \* Paths -> content tag
          outdir,    \* does the output directory exist
          cmd,       \* current command [doc, ow, fow, hk] or the string "none"
          pc,        \* step of the current command, "idle" between commands
          fs0, out0, \* snapshot when the command started
          diag,      \* [err, warn] reported so far by the current command
          code,      \* exit status of the last finished command
          n,         \* commands started
          hist       \* history (observation only)
vars == <<fs, outdir, cmd, pc, fs0, out0, diag, code, n, hist>>

Init == /\ fs = [p \in Paths |-> Absent] /\ outdir = FALSE /\ cmd = "none" /\ pc = "idle" /\ fs0 = [p \in Paths |-> Absent]
        /\ out0 = FALSE /\ diag = [err |-> FALSE, warn |-> FALSE] /\ code = 0 /\ n = 0 /\ hist = <<>>

Cmds == [doc : Docs, ow : BOOLEAN, fow : BOOLEAN, hk : HookKinds]

Start(c) == /\ pc = "idle" /\ n < MaxCmds /\ cmd' = c /\ pc' = "load" /\ fs0' = fs /\ out0' = outdir
            /\ diag' = [err |-> FALSE, warn |-> FALSE] /\ n' = n + 1 /\ hist' = Append(hist, [ev |-> "cmd", c |-> c])
            /\ UNCHANGED <<fs, outdir, code>>

\* the user creates a file (only while no command runs).  A user file inside models/ or api/ is inside a generator-owned subtree.
NTouches == Cardinality({k \in 1..Len(hist) : hist[k].ev = "touch"})
UserTouch(p) == /\ pc = "idle" /\ n < MaxCmds /\ p \in Touches /\ (MaxTouches >= 99 \/ NTouches < MaxTouches) /\ (p = "sib" \/ outdir) /\ fs[p] = Absent
                /\ (p = "u_models" => fs["models/init"] # Absent) /\ (p = "u_api" => fs["api/init"] # Absent)
                /\ fs' = [fs EXCEPT ![p] = User] /\ hist' = Append(hist, [ev |-> "touch", p |-> p])
                /\ UNCHANGED <<outdir, cmd, pc, fs0, out0, diag, code, n>>

Goto(next) == pc' = next /\ UNCHANGED <<cmd, fs0, out0, code, n, hist>>

Load     == pc = "load" /\ IF cmd.doc = "dJunk" THEN diag' = [diag EXCEPT !.err = TRUE] /\ Goto("exit") /\ UNCHANGED <<fs, outdir>>
                           ELSE Goto("validate") /\ UNCHANGED <<fs, outdir, diag>>
Validate == pc = "validate" /\ IF cmd.doc = "dBad" THEN diag' = [diag EXCEPT !.err = TRUE] /\ Goto("exit") /\ UNCHANGED <<fs, outdir>>
                               ELSE diag' = [diag EXCEPT !.warn = Warns(cmd.doc)] /\ Goto("mkdir") /\ UNCHANGED <<fs, outdir>>
Mkdir    == pc = "mkdir" /\ IF outdir /\ ~cmd.ow
                              THEN diag' = [diag EXCEPT !.err = TRUE] /\ Goto("exit") /\ UNCHANGED <<fs, outdir>>      \* before any write
                              ELSE outdir' = TRUE /\ Goto("package") /\ UNCHANGED <<fs, diag>>
Write(p, next)   == fs' = [fs EXCEPT ![p] = Gen(cmd.doc, p)] /\ Goto(next) /\ UNCHANGED <<outdir, diag>>
Package  == pc = "package"  /\ Write("pkg", "metadata")
Metadata == pc = "metadata" /\ Write("meta", "rm_models")
RmModels == pc = "rm_models" /\ fs' = [p \in Paths |-> IF p \in ModelPaths \cup {"models/init", "u_models"} THEN Absent ELSE fs[p]]
                             /\ Goto("models") /\ UNCHANGED <<outdir, diag>>
Models   == pc = "models" /\ fs' = [p \in Paths |-> IF p = "models/init" \/ (\E m \in ModelsOf(cmd.doc) : p = "models/" \o m)
                                                     THEN Gen(cmd.doc, p) ELSE fs[p]]
                          /\ Goto("client") /\ UNCHANGED <<outdir, diag>>
Client   == pc = "client" /\ Write("client", "rm_api")
RmApi    == pc = "rm_api" /\ fs' = [p \in Paths |-> IF p \in ApiPaths \cup {"api/init", "u_api"} THEN Absent ELSE fs[p]]
                          /\ Goto("api") /\ UNCHANGED <<outdir, diag>>
Api      == pc = "api" /\ fs' = [p \in Paths |-> IF p = "api/init" \/ (\E t \in TagsOf(cmd.doc) : p = "api/" \o t)
                                                  THEN Gen(cmd.doc, p) ELSE fs[p]]
                       /\ Goto("hooks") /\ UNCHANGED <<outdir, diag>>
Hooks    == pc = "hooks" /\ diag' = [err |-> diag.err \/ cmd.hk = "fail", warn |-> diag.warn \/ cmd.hk = "missing"]
                         /\ Goto("exit") /\ UNCHANGED <<fs, outdir>>
Exit     == /\ pc = "exit" /\ pc' = "idle" /\ code' = IF diag.err \/ (cmd.fow /\ diag.warn) THEN 1 ELSE 0
            /\ hist' = Append(hist, [ev |-> "exit", code |-> IF diag.err \/ (cmd.fow /\ diag.warn) THEN 1 ELSE 0])
            /\ UNCHANGED <<fs, outdir, cmd, fs0, out0, diag, n>>

\* the process dies between two steps of Project.build: whatever was written stays, nothing is cleaned up, no exit event
Crash    == /\ pc \in CrashPoints /\ pc' = "idle" /\ code' = 2
            /\ hist' = Append(hist, [ev |-> "crash", at |-> pc])
            /\ UNCHANGED <<fs, outdir, cmd, fs0, out0, diag, n>>

Next == Crash \/ (\E c \in Cmds : Start(c)) \/ (\E p \in Touches : UserTouch(p)) \/ Load \/ Validate \/ Mkdir \/ Package \/ Metadata
        \/ RmModels \/ Models \/ Client \/ RmApi \/ Api \/ Hooks \/ Exit
Spec == Init /\ [][Next]_vars /\ WF_vars(Load \/ Validate \/ Mkdir \/ Package \/ Metadata \/ RmModels \/ Models \/ Client \/ RmApi \/ Api \/ Hooks \/ Exit)

\* ------------------------------------------------------------------ laws
Running == pc # "idle"
Generated == pc = "exit" /\ ~Rejected(cmd.doc) /\ ~(out0 /\ ~cmd.ow)      \* this command went through Project.build
\* F1: nothing outside the output directory is ever created or modified by a command
Confined == [][Running => fs'["sib"] = fs["sib"]]_vars
\* F2: without --overwrite an existing output directory is left byte-for-byte untouched and an error is reported
NoClobber == (pc = "exit" /\ out0 /\ ~cmd.ow /\ ~Rejected(cmd.doc)) => (fs = fs0 /\ diag.err)
NoClobberStep == [][(Running /\ out0 /\ ~cmd.ow) => fs' = fs]_vars
\* F3: a generating command leaves exactly a fresh generation of its document plus the untouched user files
Converges == Generated => /\ \A p \in Owned : Same(fs[p], Fresh(cmd.doc)[p])
                          /\ \A p \in {"u_top", "u_flav", "u_pkg", "sib"} : fs[p] = fs0[p]
NoStale == Generated => \A p \in ModelPaths \cup ApiPaths : fs[p] # Absent => fs[p][2] = cmd.doc
\* F4: exit status <=> diagnostics; a rejected document writes nothing (not even the directory)
ExitLaw == pc = "exit" => ((diag.err \/ (cmd.fow /\ diag.warn)) <=> (Rejected(cmd.doc) \/ (out0 /\ ~cmd.ow) \/ cmd.hk = "fail"
                              \/ (cmd.fow /\ (Warns(cmd.doc) \/ cmd.hk = "missing"))))
RejectedWritesNothing == (pc = "exit" /\ Rejected(cmd.doc)) => (fs = fs0 /\ outdir = out0)
RejectedStep == [][(Running /\ Rejected(cmd.doc)) => (fs' = fs /\ outdir' = outdir)]_vars
EveryCommandExits == [](pc = "load" => <>(pc = "idle"))
=============================================================================
