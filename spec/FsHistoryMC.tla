---------------------------- MODULE FsHistoryMC ----------------------------
EXTENDS FsHistory, Json
CONSTANT EmitJson
RECURSIVE S2Q(_)
S2Q(S) == IF S = {} THEN <<>> ELSE LET x == CHOOSE y \in S : TRUE IN <<x>> \o S2Q(S \ {x})
Present == S2Q({p \in Paths : fs[p] # Absent})
Tag(p) == IF fs[p] = User THEN "user" ELSE fs[p][2]
Emit == (pc = "exit" /\ EmitJson) =>
   PrintT(ToJson([hist |-> hist, present |-> Present, tags |-> [k \in 1..Len(Present) |-> Tag(Present[k])],
                  code |-> IF diag.err \/ (cmd.fow /\ diag.warn) THEN 1 ELSE 0, err |-> diag.err, warn |-> diag.warn,
                  outdir |-> outdir]))
\* history is an observation variable: without emission it is hidden from the fingerprint
View == <<fs, outdir, cmd, pc, fs0, out0, diag, code, n>>
=============================================================================
