---------------------------- MODULE FsHistoryUnb ----------------------------
(* FsHistory.tla without a bound on the length of histories: the command counter and the history (an observation variable) are left out of   *)
(* the state fingerprint (VIEW), MaxCmds is set beyond reach, so TLC explores the COMPLETE reachable graph of file-tree states - every law of  *)
(* FsHistory.tla then holds after command histories of any length (with user edits, and with crashes when CrashPoints is not empty).          *)
EXTENDS FsHistory
ViewU == <<fs, outdir, cmd, pc, fs0, out0, diag, code>>
=============================================================================
