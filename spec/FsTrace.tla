------------------------------ MODULE FsTrace ------------------------------
(* Code -> spec: step events recorded from the REAL Project.build / CLI (guarded hooks) for whole command histories are    *)
(* replayed against FsHistory.tla's actions: every event must be the spec action that is enabled in the current state, with *)
(* the logged outcome (so "existing-directory check before any write", "nothing after a rejection", "rmtree before the     *)
(* models are written", "exit status <=> diagnostics" are checked on real executions).  The harness adds the command line   *)
(* (cmd), user edits (touch) and an abstract projection of the real tree after each command (snap).                         *)
EXTENDS FsHistory, Json, IOUtils
TraceLog == ndJsonDeserialize(IOEnv.TRACE_FILE)
VARIABLES l, tid, mode
tvars == <<vars, l, tid, mode>>
ToSet(s) == {s[i] : i \in 1..Len(s)}
Flag(reg, why) == TLCSet(reg, Append(TLCGet(reg), <<tid, l, why>>))
IsEv(e) == l <= Len(TraceLog) /\ TraceLog[l].ev = e
Advance == l' = l + 1 /\ UNCHANGED <<tid, mode>>
Reject(why) == Flag(2, why) /\ mode' = "skip" /\ l' = l + 1 /\ UNCHANGED <<vars, tid>>

THist == /\ IsEv("hist")
         /\ (mode = "run" /\ pc # "idle") => Flag(2, "history ended inside a command (no exit event)")
         /\ fs' = [p \in Paths |-> Absent] /\ outdir' = FALSE /\ cmd' = "none" /\ pc' = "idle" /\ fs0' = [p \in Paths |-> Absent]
         /\ out0' = FALSE /\ diag' = [err |-> FALSE, warn |-> FALSE] /\ code' = 0 /\ n' = 0 /\ hist' = <<>>
         /\ tid' = TraceLog[l].tid /\ mode' = "run" /\ l' = l + 1
Skip == l <= Len(TraceLog) /\ TraceLog[l].ev # "hist" /\ mode = "skip" /\ l' = l + 1 /\ UNCHANGED <<vars, tid, mode>>

TCmd == /\ IsEv("cmd") /\ mode = "run"
        /\ LET e == TraceLog[l]  c == [doc |-> e.doc, ow |-> e.ow, fow |-> e.fow, hk |-> e.hk] IN
           IF pc = "idle" THEN Start(c) /\ Advance ELSE Reject("command started before the previous one exited")
TTouch == /\ IsEv("touch") /\ mode = "run"
          /\ IF ENABLED UserTouch(TraceLog[l].p) THEN UserTouch(TraceLog[l].p) /\ Advance ELSE Reject("user touch not possible here")

\* event -> (spec action, pc the action must leave)
Step(op, A, after) == /\ IsEv("fs") /\ mode = "run" /\ TraceLog[l].op = op
                      /\ IF ENABLED (A /\ pc' = after) THEN A /\ pc' = after /\ Advance
                         ELSE Reject("step not allowed by the spec here: " \o op)
TSteps == \/ Step("loaded", Load, "validate") \/ Step("rejected_load", Load, "exit")
          \/ Step("validated", Validate, "mkdir") \/ Step("rejected_validate", Validate, "exit")
          \/ Step("mkdir", Mkdir /\ ~outdir, "package") \/ Step("exists_overwrite", Mkdir /\ outdir, "package")
          \/ Step("exists_abort", Mkdir, "exit")
          \/ Step("package_done", Package, "metadata") \/ Step("metadata_done", Metadata, "rm_models")
          \/ Step("rmtree_models", RmModels, "models") \/ Step("models_done", Models, "client")
          \/ Step("client_done", Client, "rm_api") \/ Step("rmtree_api", RmApi, "api") \/ Step("api_done", Api, "hooks")
          \/ Step("hooks_done", Hooks, "exit")
KnownOps == {"loaded", "rejected_load", "validated", "rejected_validate", "mkdir", "exists_overwrite", "exists_abort", "package_done",
             "metadata_done", "rmtree_models", "models_done", "client_done", "rmtree_api", "api_done", "hooks_done"}
TUnknownOp == IsEv("fs") /\ mode = "run" /\ TraceLog[l].op \notin KnownOps /\ Reject("unknown fs step")
TExit == /\ IsEv("exit") /\ mode = "run"
         /\ IF pc = "exit"
              THEN /\ Exit /\ Advance
                   /\ (code' # TraceLog[l].code) => Flag(2, "exit status differs from the diagnostics law")
                   /\ ((TraceLog[l].errors > 0) # diag.err) => Flag(1, "error-level diagnostics differ")
              ELSE Reject("exit in the middle of a command")
TSnap == /\ IsEv("snap") /\ mode = "run"
         /\ ({p \in Paths : fs[p] # Absent} # ToSet(TraceLog[l].present)) => Flag(1, "abstract tree differs")
         /\ (outdir # TraceLog[l].outdir) => Flag(1, "existence of the output directory differs")
         /\ l' = l + 1 /\ UNCHANGED <<vars, tid, mode>>
Unknown == /\ l <= Len(TraceLog) /\ mode = "run" /\ TraceLog[l].ev \notin {"hist", "cmd", "touch", "fs", "exit", "snap"}
           /\ l' = l + 1 /\ UNCHANGED <<vars, tid, mode>>                     \* events of other engines

TInit == Init /\ l = 1 /\ tid = 0 /\ mode = "idle"
Idle == l <= Len(TraceLog) /\ TraceLog[l].ev # "hist" /\ mode = "idle" /\ l' = l + 1 /\ UNCHANGED <<vars, tid, mode>>
TNext == THist \/ Skip \/ Idle \/ TCmd \/ TTouch \/ TSteps \/ TUnknownOp \/ TExit \/ TSnap \/ Unknown
TSpec == TInit /\ [][TNext]_tvars
Post == PrintT(ToJson([drift |-> TLCGet(1), law |-> TLCGet(2), n |-> Len(TraceLog), consumed |-> TLCGet("stats").diameter - 1]))
ASSUME TLCSet(1, <<>>) /\ TLCSet(2, <<>>)
=============================================================================
