---------------------------- MODULE ImportsTrace ----------------------------
(***************************************************************************)
(* C01, symbol sufficiency: every name a generated module USES is bound in *)
(* that module (imported, defined, assigned, a parameter) or is a builtin, *)
(* and every relative import resolves to a generated file that defines the *)
(* imported name (nothing that was generated refers to something that was  *)
(* not).  The census {"file","used":[..],"bound":[..],"rel":[[module,      *)
(* name, resolves?]..]} is extracted from the real output trees with       *)
(* Python's ast and validated here line by line.                           *)
(***************************************************************************)
EXTENDS Naturals, Sequences, TLC, Json, IOUtils
Census == ndJsonDeserialize(IOEnv.TRACE_FILE)
VARIABLE l
ToSet(s) == {s[i] : i \in 1..Len(s)}
Sufficient(e) == ToSet(e.used) \subseteq ToSet(e.bound)
Closed(e) == \A i \in 1..Len(e.rel) : e.rel[i][3]
Init == l = 1
Next == /\ l <= Len(Census)
        /\ ((~Sufficient(Census[l])) => TLCSet(1, Append(TLCGet(1), [file |-> Census[l].file, missing |-> ToSet(Census[l].used) \ ToSet(Census[l].bound)])))
        /\ ((~Closed(Census[l])) => TLCSet(2, Append(TLCGet(2), [file |-> Census[l].file, rel |-> {Census[l].rel[i] : i \in {j \in 1..Len(Census[l].rel) : ~Census[l].rel[j][3]}}])))
        /\ l' = l + 1
Spec == Init /\ [][Next]_l
RECURSIVE S2Q(_)
S2Q(S) == IF S = {} THEN <<>> ELSE LET x == CHOOSE y \in S : TRUE IN <<x>> \o S2Q(S \ {x})
Post == PrintT(ToJson([insufficient |-> [i \in 1..Len(TLCGet(1)) |-> [file |-> TLCGet(1)[i].file, missing |-> S2Q(TLCGet(1)[i].missing)]],
                       open |-> [i \in 1..Len(TLCGet(2)) |-> [file |-> TLCGet(2)[i].file, rel |-> S2Q(TLCGet(2)[i].rel)]],
                       n |-> Len(Census), consumed |-> TLCGet("stats").diameter - 1]))
ASSUME TLCSet(1, <<>>) /\ TLCSet(2, <<>>)
=============================================================================
