-------------------------------- MODULE Lexer --------------------------------
(***************************************************************************)
(* C05: text from the document can only be data.                           *)
(*                                                                         *)
(* An interpolation SITE of a template is a pair (ctx, esc): the lexical   *)
(* context the text lands in and the transformation applied to it.  The    *)
(* payload is fed ONE CHARACTER CLASS AT A TIME through the escaper (a     *)
(* transducer) and the context's tokenizer (an automaton); the payload is  *)
(* not stored, so the reachable state space is finite and the result holds *)
(* for payloads of ANY length.  `mon` is a monitor comparing what the      *)
(* Python/TOML decoder will reconstruct with what was fed (fidelity).      *)
(*                                                                         *)
(* Classes: DQ " | SQ ' | BS \ | NL newline | CR | LB { | RB } | N the     *)
(* letter n (so that \n is an escape) | X any other character.             *)
(* Contexts: DQ "..." | SQ '...' | TDQ """ ... """ | DQFMT "...".format()  *)
(*           | DQF f"..." | TOMLB TOML basic string | IDENT identifier     *)
(* Escapers: none | rse (remove_string_escapes as written) | repr          *)
(*           | repr_rse (repr(rse(v))) | doc (safe_docstring as written:   *)
(*             leading/trailing space, raw string iff a backslash occurs)  *)
(*           | sanitize (identifier characters only)                       *)
(***************************************************************************)
EXTENDS Naturals, Sequences, TLC
CONSTANTS Ctx, Esc, RseBackslash, DocEscapes, CtlEscapes
\* RseBackslash: TRUE iff remove_string_escapes also escapes backslash / newline characters (the repaired primitive)
\* DocEscapes:   TRUE iff safe_docstring neutralises backslashes and triple quotes itself (the repaired macro)
\* CtlEscapes:   TRUE iff remove_string_escapes writes C0 control characters as \uXXXX and safe_docstring writes NUL as \x00
\* NUL: U+0000 (no Python source file and no TOML file may contain it) | CTL: another C0 control character or DEL (legal inside a Python
\* literal, illegal inside a TOML basic string)
\* AST: a character outside the BMP | LS: U+2028 (a line break for str.splitlines, not for the Python tokenizer) | FF: form feed
Classes == {"DQ", "SQ", "BS", "NL", "CR", "LB", "RB", "N", "X", "AST", "LS", "FF", "NUL", "CTL"}

U6 == <<"BS", "X", "X", "X", "X", "X">>                                 \* a \uXXXX escape
U4 == <<"BS", "X", "X", "X">>                                           \* a \xXX escape
\* ---- escapers: class -> sequence of output classes
Rse(c) == IF c = "DQ" THEN <<"BS", "DQ">>
          ELSE IF RseBackslash /\ c = "BS" THEN <<"BS", "BS">>
          ELSE IF RseBackslash /\ c = "NL" THEN <<"BS", "N">>
          ELSE IF RseBackslash /\ c = "CR" THEN <<"BS", "X">>          \* \r
          ELSE IF RseBackslash /\ c \in {"LS", "FF"} THEN U6              \* \u2028, \u000c: every character that splits lines is escaped
          ELSE IF CtlEscapes /\ c \in {"NUL", "CTL"} THEN U6
          ELSE <<c>>
\* repr(): output is a Python literal; modelled at the level of its CONTENT inside quotes chosen by repr (always consistent):
\* backslash doubled, newline as \n, the surrounding quote escaped - content never terminates the literal
Repr(c) == CASE c = "BS" -> <<"BS", "BS">> [] c = "NL" -> <<"BS", "N">> [] c = "CR" -> <<"BS", "X">> [] c = "SQ" -> <<"BS", "SQ">>
             [] c \in {"NUL", "CTL"} -> U4 [] OTHER -> <<c>>
RECURSIVE FlatMap(_, _)
FlatMap(f(_), s) == IF s = <<>> THEN <<>> ELSE f(Head(s)) \o FlatMap(f, Tail(s))
Doc(c) == IF CtlEscapes /\ c = "NUL" THEN U4
          ELSE IF DocEscapes THEN (CASE c = "BS" -> <<"BS", "BS">> [] c = "DQ" -> <<"BS", "DQ">> [] OTHER -> <<c>>) ELSE <<c>>
Out(c) == CASE Esc = "none" -> <<c>>
            [] Esc = "rse" -> Rse(c)
            [] Esc = "repr" -> Repr(c)
            [] Esc = "repr_rse" -> FlatMap(Repr, Rse(c))
            [] Esc = "doc" -> Doc(c)
            [] Esc = "doc_rse" -> FlatMap(Doc, Rse(c))
            [] Esc = "sanitize" -> IF c \in {"N", "X", "AST"} THEN <<c>> ELSE <<>>
            [] OTHER -> <<c>>

\* ---- tokenizers.  ls: "in" | "esc" (after a backslash) | "q1" | "q2" (closing quotes of a triple seen) | "out" (literal closed) | "err"
\* raw: the literal is a raw string (backslash is not an escape for the VALUE, but still protects a quote lexically)
Quote == IF Ctx \in {"SQ", "REPR"} THEN "SQ" ELSE "DQ"
Step(ls, c) ==
  IF ls \in {"out", "err"} THEN ls
  ELSE IF c = "NUL" \/ (c = "CTL" /\ Ctx = "TOMLB") THEN "err"          \* the file as a whole is refused
  ELSE IF Ctx = "IDENT" THEN (IF c \in {"N", "X", "AST"} THEN "in" ELSE "err")
  ELSE IF Ctx = "TDQ" THEN
    (CASE ls = "esc" -> "in"
       [] c = "BS" -> "esc"
       [] c = "DQ" -> (IF ls = "in" THEN "q1" ELSE IF ls = "q1" THEN "q2" ELSE "out")
       [] OTHER -> "in")
  ELSE  \* single-line literals: DQ, SQ, REPR, DQFMT, DQF, TOMLB
    (CASE ls = "esc" -> "in"                                            \* also backslash-newline (continuation)
       [] c = "BS" -> "esc"
       [] c = Quote -> "out"
       [] c \in {"NL", "CR"} -> "err"
       [] OTHER -> "in")
RECURSIVE Feed(_, _)
Feed(ls, q) == IF q = <<>> THEN ls ELSE Feed(Step(ls, Head(q)), Tail(q))

\* ---- fidelity monitor: decoded stream vs fed stream, one fed class at a time
\* Decoding of the emitted classes inside a non-raw literal: BS BS -> \ ; BS DQ -> " ; BS SQ -> ' ; BS N -> newline ; BS X -> (an escape or kept) ;
\* the step is faithful iff decoding Out(c) gives back exactly c
Decoded(q) == CASE q = <<"BS", "BS">> -> "BS" [] q = <<"BS", "DQ">> -> "DQ" [] q = <<"BS", "SQ">> -> "SQ" [] q = <<"BS", "N">> -> "NL"
                [] q = <<"BS", "X">> -> "CR" [] Len(q) = 1 /\ q[1] # "BS" -> q[1] [] OTHER -> "??"
\* a lone backslash followed by the NEXT character forms an escape: remembered in `pend`
VARIABLES ls, mon, pend, braces, hist
vars == <<ls, mon, pend, braces, hist>>
Init == ls = "in" /\ mon = "ok" /\ pend = FALSE /\ braces = "ok" /\ hist = <<>>

Faithful(c, o) ==      \* does the decoder reconstruct c from o (given no pending lone backslash)?
  IF Esc = "sanitize" THEN TRUE           \* identifiers are not meant to reproduce the text
  ELSE IF o = <<>> THEN FALSE
  ELSE IF Len(o) = 1 /\ o[1] = "BS" THEN TRUE       \* decided by the next character (pend)
  ELSE IF o = U6 THEN c \in {"LS", "FF", "NUL", "CTL"}   \* the \uXXXX escape of that very character
  ELSE IF o = U4 THEN c \in {"NUL", "CTL"}
  ELSE Decoded(o) = c

FeedClass(c) ==
  /\ ls \in {"in", "esc", "q1", "q2"}
  /\ LET o == Out(c) IN
     /\ ls' = Feed(ls, o)
     \* a lone backslash was emitted before: together with this character it forms an escape sequence, so the value changes
     \* unless the literal is raw (safe_docstring's raw variant) - raw docstrings keep text exactly
     /\ mon' = IF mon = "bad" THEN "bad"
               ELSE IF pend /\ Esc \notin {"doc", "doc_rse"} THEN "bad"      \* \x, \n, \" ... : the decoder merges two characters
               ELSE IF ~Faithful(c, o) THEN "bad" ELSE "ok"
     /\ pend' = (Len(o) = 1 /\ o[1] = "BS")
     \* format()/f-string contexts: a brace starts a replacement field
     /\ braces' = IF Ctx \in {"DQFMT", "DQF"} /\ c \in {"LB", "RB"} THEN "field" ELSE braces
     /\ hist' = IF Len(hist) < 5 THEN Append(hist, c) ELSE hist
Next == \E c \in Classes : FeedClass(c)
Spec == Init /\ [][Next]_vars

\* ---- laws
\* L1 safety: the tokenizer never leaves the literal while the payload is fed ...
Inside == ls \in {"in", "esc", "q1", "q2"}
\* ... and the site's closing delimiter returns to code with nothing left over: a pending escape would swallow the closing quote;
\* pending quotes before a closing triple quote close the literal early (safe_docstring appends a space, which resets q1/q2)
ClosesCleanly == IF Ctx = "IDENT" THEN TRUE
                 ELSE IF Esc \in {"doc", "doc_rse"} THEN Step(ls, "X") = "in"
                 ELSE ls = "in"
L1 == Inside /\ ClosesCleanly
\* no replacement field is opened in a format()/f-string context
L1b == braces = "ok"
\* L2 fidelity: the decoded constant equals the payload (runtime-meaningful sites only)
L2 == mon = "ok" /\ ~pend
View == <<ls, mon, pend, braces>>
\* every violating state prints the (bounded) payload prefix that led to it: the shortest one per law is the counterexample
Report == /\ (L1 \/ PrintT(<<"CEX", "L1", hist>>))
          /\ (L1b \/ PrintT(<<"CEX", "L1b", hist>>))
          /\ (L2 \/ PrintT(<<"CEX", "L2", hist>>))
=============================================================================
