----------------------------- MODULE LexerTrace -----------------------------
(* Code -> spec: outputs of the REAL remove_string_escapes on every word <= 3 over representative characters                *)
(*  {"tid","w":[classes],"rse":[classes of the output],"san_len": length of sanitize(w)} validated against Lexer.tla's       *)
(* transducers (Rse, and the sanitize filter: only N / X classes survive).                                                   *)
EXTENDS Lexer, Json, IOUtils
Obs == ndJsonDeserialize(IOEnv.TRACE_FILE)
VARIABLE l
RECURSIVE Count(_, _)
Count(s, S) == IF s = <<>> THEN 0 ELSE (IF Head(s) \in S THEN 1 ELSE 0) + Count(Tail(s), S)
Conforms(e) == FlatMap(Rse, e.w) = e.rse /\ Count(e.w, {"N", "X", "AST"}) = e.san_len
TInit == l = 1 /\ Init
TNext == /\ l <= Len(Obs)
         /\ ((~Conforms(Obs[l])) => TLCSet(1, Append(TLCGet(1), Obs[l].tid)))
         /\ l' = l + 1 /\ UNCHANGED vars
TSpec == TInit /\ [][TNext]_<<vars, l>>
Post == PrintT(ToJson([nonconforming |-> TLCGet(1), n |-> Len(Obs), consumed |-> TLCGet("stats").diameter - 1]))
ASSUME TLCSet(1, <<>>)
=============================================================================
