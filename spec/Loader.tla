------------------------------- MODULE Loader -------------------------------
(***************************************************************************)
(* C17, loader leg: the same document carried as JSON or YAML, from a file *)
(* path or a URL (openapi_python_client/__init__.py: _get_document,        *)
(* _load_yaml_or_json).  A CARRIER is [src, ser, label]:                   *)
(*   src   "path" | "url"                                                  *)
(*   ser   the serialisation of the bytes (JSON variants, YAML variants)   *)
(*   label path: the file suffix; url: the Content-Type header             *)
(* One load is unfolded into the code's steps                              *)
(*   fetch -> classify -> decode -> done                                   *)
(* OPERATIONAL: classify = mimetypes.guess_type for paths (only .json maps *)
(* to application/json), the header up to the first ';' for URLs; decode = *)
(* json.loads iff the class is exactly application/json, the YAML loader   *)
(* otherwise (YAML 1.2 reads JSON).                                        *)
(* DECLARATIVE: every carrier whose label does not contradict its bytes    *)
(* yields the document (L1); two such carriers yield the SAME document     *)
(* (L2, checked on the real loader by the harness: dict equality + bytes   *)
(* of the generated tree).                                                 *)
(***************************************************************************)
EXTENDS Naturals, Sequences, TLC
JsonSers == {"json", "json_pretty", "json_tabs", "json_ascii_escapes"}
YamlSers == {"yaml_block", "yaml_flow", "yaml_start"}
Sers == JsonSers \cup YamlSers
Suffixes == {".json", ".JSON", ".yaml", ".yml", ".txt", ""}
CTypes == {"application/json", "application/json; charset=utf-8", "application/yaml", "application/x-yaml", "text/yaml", "text/plain", "text/plain; charset=utf-8",
           "application/octet-stream", "application/vnd.oai.openapi+json", "application/vnd.oai.openapi",
           \* a charset parameter that does not match the (UTF-8) bytes: the loader works on the bytes, as it does for a file
           "text/yaml; charset=ISO-8859-1", "application/json; charset=ISO-8859-1"}
Carriers == [src : {"path"}, ser : Sers, label : Suffixes] \cup [src : {"url"}, ser : Sers, label : CTypes]

\* mimetypes.guess_type(strict=True) on the file URI
Guess(suffix) == CASE suffix \in {".json", ".JSON"} -> "application/json" [] suffix = ".txt" -> "text/plain" [] OTHER -> "none"
\* header.split(";")[0]
BeforeSemicolon(ct) == CASE ct \in {"application/json; charset=utf-8", "application/json; charset=ISO-8859-1"} -> "application/json" [] ct = "text/plain; charset=utf-8" -> "text/plain"
                         [] ct = "text/yaml; charset=ISO-8859-1" -> "text/yaml" [] OTHER -> ct

VARIABLES c, pc, class, decoder, result
vars == <<c, pc, class, decoder, result>>
Init == c \in Carriers /\ pc = "fetch" /\ class = "" /\ decoder = "" /\ result = ""
Fetch    == pc = "fetch" /\ pc' = "classify" /\ UNCHANGED <<c, class, decoder, result>>
Classify == pc = "classify" /\ class' = (IF c.src = "path" THEN Guess(c.label) ELSE BeforeSemicolon(c.label)) /\ pc' = "decode" /\ UNCHANGED <<c, decoder, result>>
Decode   == pc = "decode" /\ decoder' = (IF class = "application/json" THEN "json" ELSE "yaml")
                          /\ result' = (IF class = "application/json" /\ c.ser \in YamlSers THEN "error" ELSE "doc") /\ pc' = "done" /\ UNCHANGED <<c, class>>
Next == Fetch \/ Classify \/ Decode
Spec == Init /\ [][Next]_vars /\ WF_vars(Next)

\* a label contradicts the bytes only when it says JSON and the bytes are YAML
Consistent(k) == ~(k.ser \in YamlSers /\ ((k.src = "path" /\ k.label \in {".json", ".JSON"}) \/ (k.src = "url" /\ k.label \in {"application/json", "application/json; charset=utf-8", "application/json; charset=ISO-8859-1"})))
L1 == (pc = "done" /\ Consistent(c)) => result = "doc"
L1b == (pc = "done" /\ ~Consistent(c)) => result = "error"        \* and then nothing is generated (diagnostic), never a wrong document
Terminates == <>(pc = "done")
=============================================================================
