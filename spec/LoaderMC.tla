------------------------------ MODULE LoaderMC ------------------------------
EXTENDS Loader, Json
Emit == pc = "done" => PrintT(ToJson([c |-> c, class |-> class, decoder |-> decoder, result |-> result, consistent |-> Consistent(c)]))
=============================================================================
