------------------------------ MODULE MediaType ------------------------------
(***************************************************************************)
(* How a media type written in the document is classified                  *)
(* (utils.get_content_type, parser/responses.py: _source_by_content_type,  *)
(* parser/bodies.py: the body-type chain) and what is sent as Content-Type.*)
(*                                                                         *)
(* A media type is [top, sub, param, cap, ovr]:                            *)
(*   cap  "none" | "type" (a capital in type/subtype) | "param" (a capital *)
(*        only inside the parameter);                                      *)
(*   ovr  the target that content_type_overrides maps THIS EXACT STRING to *)
(*        ("none": no entry).                                              *)
(* OPERATIONAL: the look-up in the overrides comes first (exact string);   *)
(* email.message lower-cases the type and drops parameters; the result is  *)
(* rejected unless the written string starts with it (so a capital in the  *)
(* type is "invalid", a capital in the parameter is not); responses:       *)
(* text/* first, then the two exact names, then the +json suffix WHATEVER  *)
(* the top-level type; bodies: the four exact names and the +json suffix.  *)
(* DECLARATIVE: RFC 6838/8259 classes (Decl); laws M1-M4.                  *)
(***************************************************************************)
EXTENDS Naturals, Sequences, FiniteSets, TLC

Tops   == {"application", "text", "multipart", "image", "star"}
Subs   == {"json", "x-ndjson", "vnd.api+json", "problem+json", "vnd.x+xml", "xml", "plain", "html", "octet-stream", "x-www-form-urlencoded", "form-data", "png", "star",
           "json-seq", "x-json"}
Params == {"none", "charset", "version"}
Caps   == {"none", "type", "param"}
Ovrs   == {"none", "json", "octet"}
PlusJson(sub) == sub \in {"vnd.api+json", "problem+json"}            \* str.endswith("+json")
Media == {m \in [top : Tops, sub : Subs, param : Params, cap : Caps, ovr : Ovrs] : m.cap = "param" => m.param # "none"}

\* ---- utils.get_content_type: the string the rest of the parser reasons about ("invalid" = None)
Target(m) == CASE m.ovr = "json" -> [top |-> "application", sub |-> "json", cap |-> "none"]
               [] m.ovr = "octet" -> [top |-> "application", sub |-> "octet-stream", cap |-> "none"]
               [] OTHER -> [top |-> m.top, sub |-> m.sub, cap |-> m.cap]
Parsed(m) == LET t == Target(m) IN IF t.cap = "type" THEN <<"invalid", "">> ELSE <<t.top, t.sub>>

\* ---- responses: which attribute of the httpx response is decoded
Source(m) ==
  LET p == Parsed(m) IN
  IF p[1] = "invalid" THEN "unsupported"
  ELSE IF p[1] = "text" THEN "text"
  ELSE IF p = <<"application", "json">> THEN "json"
  ELSE IF p = <<"application", "octet-stream">> THEN "bytes"
  ELSE IF PlusJson(p[2]) THEN "json"
  ELSE "unsupported"

\* ---- request bodies: which httpx argument carries the body, and the Content-Type header (the string AS WRITTEN, parameters included)
BodyType(m) ==
  LET p == Parsed(m) IN
  IF p[1] = "invalid" THEN "invalid"
  ELSE IF p = <<"application", "x-www-form-urlencoded">> THEN "data"
  ELSE IF p = <<"multipart", "form-data">> THEN "files"
  ELSE IF p = <<"application", "octet-stream">> THEN "content"
  ELSE IF p = <<"application", "json">> \/ PlusJson(p[2]) THEN "json"
  ELSE "unsupported"

\* ------------------------------------------------------------------ declarative classes
\* what the media type IS (RFC 6838 section 4.2.8: the +json suffix; RFC 8259; text/*; RFC 2046 octet-stream), after the user's override
Decl(m) ==
  LET t == Target(m) IN
  IF t.cap = "type" THEN "unjudged"                                                  \* media types are case-insensitive; the generator refuses capitals with a diagnostic
  ELSE IF t.top = "text" /\ (t.sub = "json" \/ PlusJson(t.sub)) THEN "unjudged"      \* text/json, text/x+json: both readings are defensible
  ELSE IF t.top = "star" THEN "unjudged"
  ELSE IF (t.top = "application" /\ t.sub = "json") \/ PlusJson(t.sub) THEN "json"
  ELSE IF t.top = "text" THEN "text"
  ELSE IF t.top = "application" /\ t.sub = "octet-stream" THEN "bytes"
  ELSE "unsupported"
DeclBody(m) ==
  LET t == Target(m) IN
  IF t.cap = "type" \/ t.top = "star" THEN "unjudged"
  ELSE IF t.top = "application" /\ t.sub = "x-www-form-urlencoded" THEN "data"
  ELSE IF t.top = "multipart" /\ t.sub = "form-data" THEN "files"
  ELSE IF t.top = "application" /\ t.sub = "octet-stream" THEN "content"
  ELSE IF (t.top = "application" /\ t.sub = "json") \/ (PlusJson(t.sub) /\ t.top # "text") THEN "json"
  ELSE IF t.top = "text" /\ PlusJson(t.sub) THEN "unjudged"
  ELSE "unsupported"

VARIABLES m, done
vars == <<m, done>>
Init == m \in Media /\ done = FALSE
Next == ~done /\ done' = TRUE /\ UNCHANGED m
Spec == Init /\ [][Next]_vars
\* M1: a media type of a known class is decoded as that class; M2: anything else is reported, never guessed
M1 == done => (Decl(m) \in {"json", "text", "bytes"} => Source(m) = Decl(m))
M2 == done => (Decl(m) = "unsupported" => Source(m) = "unsupported")
\* M3: parameters (and capitals inside them) never change the class
M3 == done => \A q \in Params, c \in {"none", "param"} : (c = "param" => q # "none") =>
                 (m.cap # "type" => /\ Source([m EXCEPT !.param = q, !.cap = c]) = Source(m)
                                    /\ BodyType([m EXCEPT !.param = q, !.cap = c]) = BodyType(m))
\* M4: request bodies
M4 == done => (DeclBody(m) # "unjudged" => BodyType(m) = DeclBody(m))
=============================================================================
