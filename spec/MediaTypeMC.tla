----------------------------- MODULE MediaTypeMC -----------------------------
EXTENDS MediaType, Json
Emit == done => PrintT(ToJson([m |-> m, parsed |-> Parsed(m), source |-> Source(m), body |-> BodyType(m), decl |-> Decl(m), declbody |-> DeclBody(m)]))
=============================================================================
