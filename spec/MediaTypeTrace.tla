---------------------------- MODULE MediaTypeTrace ----------------------------
(* Code -> spec: what the real parser decided for a media type {"tid", "m", "source", "body"} validated against MediaType.tla        *)
(* (Conforms: the operational transcription; laws M1, M2 (register 2) and M4 (register 3) on the REAL outcome)                                                    *)
EXTENDS MediaType, Json, IOUtils
Obs == ndJsonDeserialize(IOEnv.TRACE_FILE)
VARIABLE l
TInit == l = 1 /\ m = Obs[1].m /\ done = FALSE
Conforms(e) == e.m \in Media /\ Source(e.m) = e.source /\ BodyType(e.m) = e.body
LawR(e) == /\ (Decl(e.m) \in {"json", "text", "bytes"} => e.source = Decl(e.m))
           /\ (Decl(e.m) = "unsupported" => e.source = "unsupported")
LawB(e) == DeclBody(e.m) # "unjudged" => e.body = DeclBody(e.m)
TNext == /\ l <= Len(Obs)
         /\ ((~Conforms(Obs[l])) => TLCSet(1, Append(TLCGet(1), Obs[l].tid)))
         /\ ((~LawR(Obs[l])) => TLCSet(2, Append(TLCGet(2), Obs[l].tid)))
         /\ ((~LawB(Obs[l])) => TLCSet(3, Append(TLCGet(3), Obs[l].tid)))
         /\ l' = l + 1 /\ UNCHANGED <<m, done>>
TSpec == TInit /\ [][TNext]_<<l, m, done>>
Post == PrintT(ToJson([nonconforming |-> TLCGet(1), lawR |-> TLCGet(2), lawB |-> TLCGet(3), n |-> Len(Obs), consumed |-> TLCGet("stats").diameter - 1]))
ASSUME TLCSet(1, <<>>) /\ TLCSet(2, <<>>) /\ TLCSet(3, <<>>)
=============================================================================
