-------------------------------- MODULE Merge --------------------------------
(***************************************************************************)
(* allOf merging of two declarations of one property                       *)
(* (parser/properties/merge_properties.py) as a transcribed case analysis  *)
(* over property kinds, with the declarative narrowing order.              *)
(* Kinds carry their detail in the name: enums_ab = string enum {a,b},     *)
(* list_int = array of integer, modelX / modelY = references to two        *)
(* different object schemas, consts_one / consts_two = two string consts.  *)
(***************************************************************************)
EXTENDS Naturals, Sequences, FiniteSets, TLC
EnumS == {"enums_ab", "enums_a", "enums_bc", "enums_dash", "enums_under", "enums_num3", "enums_num2"}
EnumI == {"enumi_12", "enumi_1"}
Enums == EnumS \cup EnumI
Vals(k) == CASE k = "enums_ab" -> {"a", "b"} [] k = "enums_a" -> {"a"} [] k = "enums_bc" -> {"b", "c"}
             [] k = "enums_dash" -> {"in-progress", "done"} [] k = "enums_under" -> {"in_progress", "done"}
             [] k = "enums_num3" -> {"1xx", "2xx", "3xx"} [] k = "enums_num2" -> {"4xx", "5xx"}
             [] k = "enumi_12" -> {"1", "2"} [] k = "enumi_1" -> {"1"} [] OTHER -> {}
Lists == {"list_int", "list_float", "list_string", "list_enums_ab", "list_date", "list_list_int", "list_list_float"}
Inner(k) == CASE k = "list_int" -> "int" [] k = "list_float" -> "float" [] k = "list_string" -> "string" [] k = "list_enums_ab" -> "enums_ab"
              [] k = "list_date" -> "date" [] k = "list_list_int" -> "list_int" [] k = "list_list_float" -> "list_float" [] OTHER -> "any"
Kinds == {"any", "string", "int", "float", "bool", "date", "datetime", "uuid", "file", "none", "modelX", "modelY", "consts_one", "consts_two",
          "consti_1", "union_is"} \cup Enums \cup Lists
\* the Python class of the property object (type(prop1) is type(prop2))
TypeClass(k) == IF k \in Enums THEN "Enum" ELSE IF k \in Lists \/ (Len(k) > 5 /\ SubSeq(k, 1, 5) = "list_") THEN "List"
                ELSE IF k \in {"modelX", "modelY"} THEN "Model" ELSE IF k \in {"consts_one", "consts_two", "consti_1"} THEN "Const" ELSE k
ListOf(i) == "list_" \o i
InnerOf(k) == IF k \in Lists THEN Inner(k) ELSE SubSeq(k, 6, Len(k))
ERR == "ERR"

MergeEnum(a, b) ==
  IF a \in Enums /\ b \in Enums
    THEN (IF (a \in EnumS) # (b \in EnumS) THEN ERR              \* values of different types are never subsets
          ELSE IF Vals(a) \subseteq Vals(b) THEN a ELSE IF Vals(b) \subseteq Vals(a) THEN b ELSE ERR)
  ELSE LET e == IF a \in Enums THEN a ELSE b   o == IF a \in Enums THEN b ELSE a IN
       IF (o = "int" /\ e \in EnumI) \/ (o = "string" /\ e \in EnumS) THEN e ELSE ERR

RECURSIVE Merge(_, _)
Merge(a, b) ==
  IF b = "any" THEN a
  ELSE IF a = "any" THEN b
  ELSE IF a \in Enums \/ b \in Enums THEN MergeEnum(a, b)
  ELSE IF TypeClass(a) = TypeClass(b) THEN
        (IF a = b THEN a
         ELSE IF TypeClass(a) = "List" THEN (LET i == Merge(InnerOf(a), InnerOf(b)) IN IF i = ERR THEN ERR ELSE ListOf(i))
         ELSE a)                                                 \* same class, different detail: the FIRST one is kept silently (sic)
  ELSE IF a = "int" /\ b = "float" THEN "int"
  ELSE IF b = "int" /\ a = "float" THEN "int"
  ELSE IF a = "string" /\ b \in {"date", "datetime", "file"} THEN b
  ELSE IF b = "string" /\ a \in {"date", "datetime", "file"} THEN a
  ELSE ERR

\* both members INLINE: each builds its enum under the same derived class name (composed model + property name) before anything is merged,
\* and two enums with one name and different values are refused ("same name but different values") - the composed model is dropped
MergeInline(a, b) == IF a \in Enums /\ b \in Enums /\ a # b THEN ERR ELSE Merge(a, b)

\* ------------------------------------------------------------------ declarative: the narrowing order
RECURSIVE Narrower(_, _)
IsList(k) == TypeClass(k) = "List"
Narrower(a, b) ==      \* a admits no value that b rejects
  \/ b = "any" \/ a = b
  \/ (a = "int" /\ b = "float")
  \/ (a \in {"date", "datetime", "file", "uuid"} \cup EnumS /\ b = "string")
  \/ (a \in EnumI /\ b \in {"int", "float"})
  \/ (a \in Enums /\ b \in Enums /\ ((a \in EnumS) = (b \in EnumS)) /\ Vals(a) \subseteq Vals(b))
  \/ (IsList(a) /\ IsList(b) /\ Narrower(InnerOf(a), InnerOf(b)))
\* M1: the result is the narrowest compatible type (a lower bound of both that is one of them), or an error
M1(a, b) == LET r == Merge(a, b) IN r = ERR \/ (Narrower(r, a) /\ Narrower(r, b))
\* M2: regardless of member order
M2(a, b) == Merge(a, b) = Merge(b, a)
=============================================================================
