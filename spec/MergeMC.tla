------------------------------- MODULE MergeMC -------------------------------
EXTENDS Merge, Json
VARIABLES a, b, done
Init == a \in Kinds /\ b \in Kinds /\ done = FALSE
Next == ~done /\ done' = TRUE /\ UNCHANGED <<a, b>>
Spec == Init /\ [][Next]_<<a, b, done>>
Emit == done => PrintT(ToJson([a |-> a, b |-> b, r |-> Merge(a, b), rinl |-> MergeInline(a, b), rev |-> Merge(b, a), m1 |-> M1(a, b), m2 |-> M2(a, b)]))
LawM1 == done => M1(a, b)
LawM2 == done => M2(a, b)
=============================================================================
