----------------------------- MODULE MergeTrace -----------------------------
(* Code -> spec: merged kinds observed from the real parser {"tid","a","b","r"} validated against Merge.tla; M1 evaluated on the observed result *)
EXTENDS Merge, Json, IOUtils
Obs == ndJsonDeserialize(IOEnv.TRACE_FILE)
VARIABLE l
Init == l = 1
Next == /\ l <= Len(Obs)
        /\ LET e == Obs[l] IN
             /\ ((Merge(e.a, e.b) # e.r) => TLCSet(1, Append(TLCGet(1), e.tid)))
             /\ ((~(e.r = ERR \/ (Narrower(e.r, e.a) /\ Narrower(e.r, e.b)))) => TLCSet(2, Append(TLCGet(2), e.tid)))
        /\ l' = l + 1
Spec == Init /\ [][Next]_l
Post == PrintT(ToJson([nonconforming |-> TLCGet(1), m1 |-> TLCGet(2), n |-> Len(Obs), consumed |-> TLCGet("stats").diameter - 1]))
ASSUME TLCSet(1, <<>>) /\ TLCSet(2, <<>>)
=============================================================================
