------------------------------- MODULE Names -------------------------------
(***************************************************************************)
(* Name derivation of openapi-python-client (utils.py) and the scope-level *)
(* disambiguation state machines built on it.                              *)
(*                                                                         *)
(* A name is a sequence of TOKENS.  Each token stands for one character    *)
(* and is the representative of a character-class signature (DESIGN §2):   *)
(* TLC's I/O is ASCII only, so non-ASCII characters are ASCII labels and   *)
(* harness/names.py owns the label <-> character table.                    *)
(*                                                                         *)
(* OPERATIONAL layer: literal transcriptions of sanitize, split_words,     *)
(* snake_case, pascal_case, kebab_case, fix_reserved_words,                *)
(* PythonIdentifier, ClassName and of the three conflict-resolution loops  *)
(* (_add_if_no_conflict/_resolve_naming_conflict, values_from_list,        *)
(* _check_parameters_for_conflicts).                                       *)
(* DECLARATIVE layer: ValidIdent / Norm-injectivity laws (N1-N3).          *)
(***************************************************************************)
EXTENDS Naturals, Sequences, FiniteSets, TLC

\* ---------------------------------------------------------------- characters
\* ASCII letters that can occur in inputs or in outputs (prefixes, suffixes, case maps)
ALo == {"n","o","t","e","f","i","l","d","a","g","x","p","h","r","q","u","y","c","k","s","v","b","j","m","w","z"}
AUp == {"N","T","O","E","F","I","L","D","A","G","X","P","H","R","Q","U","Y","C","K","S","V","B","J","M","W","Z"}
Dig == {"1","0","2","3","4","5","6","7","8","9"}
Delim == {"."," ","_","-"}
\* non-ASCII representatives (labels):
\*  LE  e-acute  : \w, lower, XID            UE  E-acute : \w, upper (Unicode only), XID
\*  SQ2 superscript two : \w, NOT XID_Continue, NFKC -> "2"
\*  FWA fullwidth a : \w, lower (Unicode only), XID, NFKC -> "a";  FWUA its upper
\*  AD  arabic-indic digit one : \w, XID_Continue only, not ASCII digit
UniLo == {"LE","FWA"}
UniUp == {"UE","FWUA"}
\*  BN  bengali currency numerator : \w, not XID, NFKC-stable     CM combining acute : not \w, XID_Continue
Other == {"$","/","BSL","DQ","CM"}         \* not matched by \w (BSL = backslash, DQ = double quote)
Word  == ALo \cup AUp \cup Dig \cup {"_"} \cup UniLo \cup UniUp \cup {"SQ2","AD","BN"}   \* matches \w
IsUpperCh(c) == c \in AUp \cup UniUp                 \* str.isupper() on one cased char
IsLowerCh(c) == c \in ALo \cup UniLo
IsAlphaCh(c) == c \in ALo \cup AUp \cup UniLo \cup UniUp   \* str.isalpha()
XStart == ALo \cup AUp \cup UniLo \cup UniUp \cup {"_"}
XCont  == XStart \cup Dig \cup {"AD"}

LoPairs == << <<"n","N">>, <<"o","O">>, <<"t","T">>, <<"e","E">>, <<"f","F">>, <<"i","I">>, <<"l","L">>,
              <<"d","D">>, <<"a","A">>, <<"g","G">>, <<"x","X">>, <<"p","P">>, <<"h","H">>, <<"r","R">>,
              <<"q","Q">>, <<"u","U">>, <<"y","Y">>, <<"c","C">>, <<"k","K">>, <<"s","S">>, <<"v","V">>,
              <<"b","B">>, <<"j","J">>, <<"m","M">>, <<"w","W">>, <<"z","Z">>,
              <<"LE","UE">>, <<"FWA","FWUA">> >>
Lower(c) == IF \E k \in 1..Len(LoPairs) : LoPairs[k][2] = c
            THEN LoPairs[CHOOSE k \in 1..Len(LoPairs) : LoPairs[k][2] = c][1] ELSE c
Upper(c) == IF \E k \in 1..Len(LoPairs) : LoPairs[k][1] = c
            THEN LoPairs[CHOOSE k \in 1..Len(LoPairs) : LoPairs[k][1] = c][2] ELSE c
\* NFKC image of one token (Python normalises identifiers with NFKC)
Nfkc(c) == CASE c = "FWA" -> "a" [] c = "FWUA" -> "A" [] c = "SQ2" -> "2" [] c = "AD" -> "AD" [] OTHER -> c


Map(f(_), s) == [i \in 1..Len(s) |-> f(s[i])]
Norm(s) == Map(Nfkc, s)

\* ---------------------------------------------------------------- utils.py
\* NFKC-normalise, strip what is neither \w nor a delimiter, then keep delimiters and identifier characters
Sanitize(s) == SelectSeq(SelectSeq(Norm(s), LAMBDA c : c \in Word \cup Delim), LAMBDA c : c \in Delim \cup XCont)

RECURSIVE LoRun(_, _)
LoRun(s, i) == IF i <= Len(s) /\ s[i] \in ALo THEN LoRun(s, i + 1) ELSE i

NonEmpty(w) == IF w = <<>> THEN <<>> ELSE <<w>>

\* re.split("([A-Z]?[a-z]+)", v) joined by " ", then findall("[^\. _-]+"): leftmost scan; the regex is ASCII-only.
RECURSIVE Split(_, _, _, _)
Split(s, i, cur, cased) ==
  IF i > Len(s) THEN NonEmpty(cur)
  ELSE LET c == s[i] IN
    IF cased /\ c \in AUp /\ i + 1 <= Len(s) /\ s[i + 1] \in ALo
      THEN LET j == LoRun(s, i + 1) IN NonEmpty(cur) \o <<SubSeq(s, i, j - 1)>> \o Split(s, j, <<>>, cased)
    ELSE IF cased /\ c \in ALo
      THEN LET j == LoRun(s, i) IN NonEmpty(cur) \o <<SubSeq(s, i, j - 1)>> \o Split(s, j, <<>>, cased)
    ELSE IF c \in Delim THEN NonEmpty(cur) \o Split(s, i + 1, <<>>, cased)
    ELSE Split(s, i + 1, Append(cur, c), cased)

\* "We can't guess words if there is no capital letter": gate is the *Unicode* str.isupper
SplitWords(s) == Split(s, 1, <<>>, \E i \in 1..Len(s) : IsUpperCh(s[i]))

RECURSIVE JoinW(_, _)
JoinW(ws, sep) == IF ws = <<>> THEN <<>> ELSE IF Len(ws) = 1 THEN ws[1] ELSE ws[1] \o sep \o JoinW(Tail(ws), sep)

Snake(s) == Map(Lower, JoinW(SplitWords(Sanitize(s)), <<"_">>))
Kebab(s) == Map(Lower, JoinW(SplitWords(Sanitize(s)), <<"-">>))
IsUpperWord(w) == (\E i \in 1..Len(w) : IsUpperCh(w[i])) /\ ~(\E i \in 1..Len(w) : IsLowerCh(w[i]))
Cap(w) == IF w = <<>> THEN w ELSE <<Upper(w[1])>> \o Map(Lower, Tail(w))
Pascal(s) == LET ws == SplitWords(Sanitize(s))
             IN JoinW([i \in 1..Len(ws) |-> IF IsUpperWord(ws[i]) THEN ws[i] ELSE Cap(ws[i])], <<>>)

\* transcription of utils.RESERVED_WORDS (builtins of CPython 3.12 | self, true, false, datetime | names used by the generated model classes) - {id}, plus keywords
Reserved == {
  <<"A","r","i","t","h","m","e","t","i","c","E","r","r","o","r">>, <<"A","s","s","e","r","t","i","o","n","E","r","r","o","r">>, 
  <<"A","t","t","r","i","b","u","t","e","E","r","r","o","r">>, <<"B","a","s","e","E","x","c","e","p","t","i","o","n">>, 
  <<"B","a","s","e","E","x","c","e","p","t","i","o","n","G","r","o","u","p">>, <<"B","l","o","c","k","i","n","g","I","O","E","r","r","o","r">>, 
  <<"B","r","o","k","e","n","P","i","p","e","E","r","r","o","r">>, <<"B","u","f","f","e","r","E","r","r","o","r">>, 
  <<"B","y","t","e","s","W","a","r","n","i","n","g">>, <<"C","h","i","l","d","P","r","o","c","e","s","s","E","r","r","o","r">>, 
  <<"C","o","n","n","e","c","t","i","o","n","A","b","o","r","t","e","d","E","r","r","o","r">>, 
  <<"C","o","n","n","e","c","t","i","o","n","E","r","r","o","r">>, 
  <<"C","o","n","n","e","c","t","i","o","n","R","e","f","u","s","e","d","E","r","r","o","r">>, 
  <<"C","o","n","n","e","c","t","i","o","n","R","e","s","e","t","E","r","r","o","r">>, 
  <<"D","e","p","r","e","c","a","t","i","o","n","W","a","r","n","i","n","g">>, <<"E","O","F","E","r","r","o","r">>, 
  <<"E","l","l","i","p","s","i","s">>, <<"E","n","c","o","d","i","n","g","W","a","r","n","i","n","g">>, 
  <<"E","n","v","i","r","o","n","m","e","n","t","E","r","r","o","r">>, <<"E","x","c","e","p","t","i","o","n">>, 
  <<"E","x","c","e","p","t","i","o","n","G","r","o","u","p">>, <<"F","a","l","s","e">>, 
  <<"F","i","l","e","E","x","i","s","t","s","E","r","r","o","r">>, <<"F","i","l","e","N","o","t","F","o","u","n","d","E","r","r","o","r">>, 
  <<"F","l","o","a","t","i","n","g","P","o","i","n","t","E","r","r","o","r">>, <<"F","u","t","u","r","e","W","a","r","n","i","n","g">>, 
  <<"G","e","n","e","r","a","t","o","r","E","x","i","t">>, <<"I","O","E","r","r","o","r">>, <<"I","m","p","o","r","t","E","r","r","o","r">>, 
  <<"I","m","p","o","r","t","W","a","r","n","i","n","g">>, <<"I","n","d","e","n","t","a","t","i","o","n","E","r","r","o","r">>, 
  <<"I","n","d","e","x","E","r","r","o","r">>, <<"I","n","t","e","r","r","u","p","t","e","d","E","r","r","o","r">>, 
  <<"I","s","A","D","i","r","e","c","t","o","r","y","E","r","r","o","r">>, <<"K","e","y","E","r","r","o","r">>, 
  <<"K","e","y","b","o","a","r","d","I","n","t","e","r","r","u","p","t">>, <<"L","o","o","k","u","p","E","r","r","o","r">>, 
  <<"M","e","m","o","r","y","E","r","r","o","r">>, <<"M","o","d","u","l","e","N","o","t","F","o","u","n","d","E","r","r","o","r">>, 
  <<"N","a","m","e","E","r","r","o","r">>, <<"N","o","n","e">>, <<"N","o","t","A","D","i","r","e","c","t","o","r","y","E","r","r","o","r">>, 
  <<"N","o","t","I","m","p","l","e","m","e","n","t","e","d">>, <<"N","o","t","I","m","p","l","e","m","e","n","t","e","d","E","r","r","o","r">>, 
  <<"O","S","E","r","r","o","r">>, <<"O","v","e","r","f","l","o","w","E","r","r","o","r">>, 
  <<"P","e","n","d","i","n","g","D","e","p","r","e","c","a","t","i","o","n","W","a","r","n","i","n","g">>, 
  <<"P","e","r","m","i","s","s","i","o","n","E","r","r","o","r">>, <<"P","r","o","c","e","s","s","L","o","o","k","u","p","E","r","r","o","r">>, 
  <<"R","e","c","u","r","s","i","o","n","E","r","r","o","r">>, <<"R","e","f","e","r","e","n","c","e","E","r","r","o","r">>, 
  <<"R","e","s","o","u","r","c","e","W","a","r","n","i","n","g">>, <<"R","u","n","t","i","m","e","E","r","r","o","r">>, 
  <<"R","u","n","t","i","m","e","W","a","r","n","i","n","g">>, <<"S","t","o","p","A","s","y","n","c","I","t","e","r","a","t","i","o","n">>, 
  <<"S","t","o","p","I","t","e","r","a","t","i","o","n">>, <<"S","y","n","t","a","x","E","r","r","o","r">>, 
  <<"S","y","n","t","a","x","W","a","r","n","i","n","g">>, <<"S","y","s","t","e","m","E","r","r","o","r">>, 
  <<"S","y","s","t","e","m","E","x","i","t">>, <<"T","a","b","E","r","r","o","r">>, <<"T","i","m","e","o","u","t","E","r","r","o","r">>, 
  <<"T","r","u","e">>, <<"T","y","p","e","E","r","r","o","r">>, <<"U","n","b","o","u","n","d","L","o","c","a","l","E","r","r","o","r">>, 
  <<"U","n","i","c","o","d","e","D","e","c","o","d","e","E","r","r","o","r">>, 
  <<"U","n","i","c","o","d","e","E","n","c","o","d","e","E","r","r","o","r">>, <<"U","n","i","c","o","d","e","E","r","r","o","r">>, 
  <<"U","n","i","c","o","d","e","T","r","a","n","s","l","a","t","e","E","r","r","o","r">>, 
  <<"U","n","i","c","o","d","e","W","a","r","n","i","n","g">>, <<"U","s","e","r","W","a","r","n","i","n","g">>, 
  <<"V","a","l","u","e","E","r","r","o","r">>, <<"W","a","r","n","i","n","g">>, 
  <<"Z","e","r","o","D","i","v","i","s","i","o","n","E","r","r","o","r">>, <<"_","_","b","u","i","l","d","_","c","l","a","s","s","_","_">>, 
  <<"_","_","d","e","b","u","g","_","_">>, <<"_","_","d","o","c","_","_">>, <<"_","_","i","m","p","o","r","t","_","_">>, 
  <<"_","_","l","o","a","d","e","r","_","_">>, <<"_","_","n","a","m","e","_","_">>, <<"_","_","p","a","c","k","a","g","e","_","_">>, 
  <<"_","_","s","p","e","c","_","_">>, <<"a","b","s">>, <<"a","d","d","i","t","i","o","n","a","l","_","p","r","o","p","e","r","t","i","e","s">>, <<"a","d","d","i","t","i","o","n","a","l","_","k","e","y","s">>, 
  <<"a","i","t","e","r">>, <<"a","l","l">>, <<"a","n","d">>, <<"a","n","e","x","t">>, <<"a","n","y">>, <<"a","s">>, <<"a","s","c","i","i">>, 
  <<"a","s","s","e","r","t">>, <<"a","s","y","n","c">>, <<"a","w","a","i","t">>, <<"b","i","n">>, <<"b","o","o","l">>, <<"b","r","e","a","k">>, 
  <<"b","r","e","a","k","p","o","i","n","t">>, <<"b","y","t","e","a","r","r","a","y">>, <<"b","y","t","e","s">>, <<"c","a","l","l","a","b","l","e">>, 
  <<"c","a","s","t">>, <<"c","h","r">>, <<"c","l","a","s","s">>, <<"c","l","a","s","s","m","e","t","h","o","d">>, <<"c","l","s">>, 
  <<"c","o","m","p","i","l","e">>, <<"c","o","m","p","l","e","x">>, <<"c","o","n","t","i","n","u","e">>, <<"c","o","p","y","r","i","g","h","t">>, 
  <<"c","r","e","d","i","t","s">>, <<"d">>, <<"d","a","t","e","t","i","m","e">>, <<"d","e","f">>, <<"d","e","l">>, <<"d","e","l","a","t","t","r">>, 
  <<"d","i","c","t">>, <<"d","i","r">>, <<"d","i","v","m","o","d">>, <<"e","l","i","f">>, <<"e","l","s","e">>, 
  <<"e","n","u","m","e","r","a","t","e">>, <<"e","v","a","l">>, <<"e","x","c","e","p","t">>, <<"e","x","e","c">>, <<"e","x","i","t">>, 
  <<"f","a","l","s","e">>, <<"f","i","e","l","d","_","d","i","c","t">>, <<"f","i","l","t","e","r">>, <<"f","i","n","a","l","l","y">>, 
  <<"f","l","o","a","t">>, <<"f","o","r">>, <<"f","o","r","m","a","t">>, <<"f","r","o","m">>, <<"f","r","o","m","_","d","i","c","t">>, 
  <<"f","r","o","z","e","n","s","e","t">>, <<"g","e","t","a","t","t","r">>, <<"g","l","o","b","a","l">>, <<"g","l","o","b","a","l","s">>, 
  <<"h","a","s","a","t","t","r">>, <<"h","a","s","h">>, <<"h","e","l","p">>, <<"h","e","x">>, <<"i","f">>, <<"i","m","p","o","r","t">>, <<"i","n">>, 
  <<"i","n","p","u","t">>, <<"i","n","t">>, <<"i","s">>, <<"i","s","i","n","s","t","a","n","c","e">>, <<"i","s","o","p","a","r","s","e">>, 
  <<"i","s","s","u","b","c","l","a","s","s">>, <<"i","t","e","r">>, <<"l","a","m","b","d","a">>, <<"l","e","n">>, <<"l","i","c","e","n","s","e">>, 
  <<"l","i","s","t">>, <<"l","o","c","a","l","s">>, <<"m","a","p">>, <<"m","a","x">>, <<"m","e","m","o","r","y","v","i","e","w">>, <<"m","i","n">>, 
  <<"n","e","x","t">>, <<"n","o","n","l","o","c","a","l">>, <<"n","o","t">>, <<"o","b","j","e","c","t">>, <<"o","c","t">>, <<"o","p","e","n">>, 
  <<"o","r">>, <<"o","r","d">>, <<"p","a","s","s">>, <<"p","o","w">>, <<"p","r","i","n","t">>, <<"p","r","o","p","e","r","t","y">>, 
  <<"q","u","i","t">>, <<"r","a","i","s","e">>, <<"r","a","n","g","e">>, <<"r","e","p","r">>, <<"r","e","t","u","r","n">>, 
  <<"r","e","v","e","r","s","e","d">>, <<"r","o","u","n","d">>, <<"s","e","l","f">>, <<"s","e","t">>, <<"s","e","t","a","t","t","r">>, 
  <<"s","l","i","c","e">>, <<"s","o","r","t","e","d">>, <<"s","t","a","t","i","c","m","e","t","h","o","d">>, <<"s","t","r">>, <<"s","u","m">>, 
  <<"s","u","p","e","r">>, <<"t","o","_","d","i","c","t">>, <<"t","r","u","e">>, <<"t","r","y">>, <<"t","u","p","l","e">>, <<"t","y","p","e">>, 
  <<"v","a","r","s">>, <<"w","h","i","l","e">>, <<"w","i","t","h">>, <<"y","i","e","l","d">>, <<"z","i","p">> }
Keywords == {<<"F","a","l","s","e">>, <<"N","o","n","e">>, <<"T","r","u","e">>, <<"a","n","d">>, <<"a","s">>, <<"a","s","s","e","r","t">>, <<"a","s","y","n","c">>, <<"a","w","a","i","t">>, <<"b","r","e","a","k">>, <<"c","l","a","s","s">>, <<"c","o","n","t","i","n","u","e">>, <<"d","e","f">>, <<"d","e","l">>, <<"e","l","i","f">>, <<"e","l","s","e">>, <<"e","x","c","e","p","t">>, <<"f","i","n","a","l","l","y">>, <<"f","o","r">>, <<"f","r","o","m">>, <<"g","l","o","b","a","l">>, <<"i","f">>, <<"i","m","p","o","r","t">>, <<"i","n">>, <<"i","s">>, <<"l","a","m","b","d","a">>, <<"n","o","n","l","o","c","a","l">>, <<"n","o","t">>, <<"o","r">>, <<"p","a","s","s">>, <<"r","a","i","s","e">>, <<"r","e","t","u","r","n">>, <<"t","r","y">>, <<"w","h","i","l","e">>, <<"w","i","t","h">>, <<"y","i","e","l","d">>}
FixRes(s) == IF s \in Reserved THEN Append(s, "_") ELSE s

IsIdent(s) == s # <<>> /\ s[1] \in XStart /\ \A i \in 2..Len(s) : s[i] \in XCont     \* str.isidentifier
ValidIdent(s) == IsIdent(s) /\ s \notin Keywords

PyId(s, prefix, skipSnake) ==
  LET v0 == Sanitize(s)
      v1 == IF skipSnake THEN Map(LAMBDA c : IF c \in Delim THEN "_" ELSE c, v0) ELSE Snake(v0)
      v2 == FixRes(v1)
  IN IF ~IsIdent(v2) \/ (s # <<>> /\ s[1] = "_") THEN prefix \o v2 ELSE v2

ClassName(s, prefix) ==
  LET v == FixRes(Pascal(Sanitize(s)))
  IN IF IsIdent(v) THEN v ELSE FixRes(Pascal(Sanitize(prefix \o v)))

FieldPrefix == <<"f","i","e","l","d","_">>

\* ---------------------------------------------------------------- AttrScope
\* model_property._process_properties/_add_if_no_conflict + _resolve_naming_conflict, one step per property.
\* props: sequence of [name, py]; returns [props, err]
RECURSIVE ResolveAgainst(_, _, _, _)
\* new = [name, py] being added; ps = already accepted properties (in dict order); k = loop index
ResolveAgainst(ps, new, k, prefix) ==
  IF k > Len(ps) THEN [ps |-> ps, new |-> new, err |-> FALSE]
  ELSE LET o == ps[k] IN
    IF o.name = new.name \/ o.py # new.py THEN ResolveAgainst(ps, new, k + 1, prefix)
    ELSE LET npy == PyId(new.name, prefix, TRUE)
             opy == PyId(o.name, prefix, TRUE)
         IN IF npy = opy THEN [ps |-> [ps EXCEPT ![k].py = opy], new |-> [new EXCEPT !.py = npy], err |-> TRUE]  \* both were renamed in place before the error
            ELSE ResolveAgainst([ps EXCEPT ![k].py = opy], [new EXCEPT !.py = npy], k + 1, prefix)

AttrAdd(ps, name, prefix) ==
  LET new == [name |-> name, py |-> PyId(name, prefix, FALSE)]
      r == ResolveAgainst(ps, new, 1, prefix)
      others == SelectSeq(r.ps, LAMBDA o : o.name # name)
      \* after the loop: python names of the other properties and of the new one must be pairwise distinct
      clash == \/ \E a \in 1..Len(others) : others[a].py = r.new.py
               \/ \E a, b \in 1..Len(others) : a # b /\ others[a].py = others[b].py
  IN IF r.err \/ clash THEN [ps |-> r.ps, err |-> TRUE]      \* r.ps: the shared property objects keep their new names
     ELSE IF \E k \in 1..Len(r.ps) : r.ps[k].name = name
          THEN [ps |-> [k \in 1..Len(r.ps) |-> IF r.ps[k].name = name THEN r.new ELSE r.ps[k]], err |-> FALSE]
          ELSE [ps |-> Append(r.ps, r.new), err |-> FALSE]

RECURSIVE AttrRun(_, _, _, _)
AttrRun(names, i, ps, prefix) ==
  IF i > Len(names) THEN [ps |-> ps, err |-> FALSE]
  ELSE LET r == AttrAdd(ps, names[i], prefix) IN IF r.err THEN r ELSE AttrRun(names, i + 1, r.ps, prefix)

\* ---------------------------------------------------------------- EnumKeys
\* EnumProperty.values_from_list for string values: key = upper(value) if value[0].isalpha() else VALUE_i;
\* stored key = upper(snake_case(key)); duplicate check on the stored key (raises ValueError).
UpperS(s) == Map(Upper, s)
ValueKey(i) == <<"V","A","L","U","E","_">> \o (CASE i = 0 -> <<"0">> [] i = 1 -> <<"1">> [] i = 2 -> <<"2">> [] OTHER -> <<"9">>)
\* note: the digits "0","1","2" and the letters of VALUE are tokens of the alphabet (Dig / AUp)
RECURSIVE EnumRun(_, _, _, _)
\* vals: sequence of values; raw: set of raw keys seen; out: sequence of [key, val] (dict insertion, later wins)
EnumRun(vals, i, raw, out) ==
  IF i > Len(vals) THEN [out |-> out, err |-> FALSE]
  ELSE LET v == vals[i]
           key == IF v # <<>> /\ IsAlphaCh(v[1]) THEN UpperS(v) ELSE ValueKey(i - 1)
           sk == UpperS(Snake(key))
       IN IF \E k \in 1..Len(out) : out[k].key = sk THEN [out |-> out, err |-> TRUE]
          ELSE LET out2 == IF \E k \in 1..Len(out) : out[k].key = sk
                           THEN [k \in 1..Len(out) |-> IF out[k].key = sk THEN [key |-> sk, val |-> v] ELSE out[k]]
                           ELSE Append(out, [key |-> sk, val |-> v])
               IN EnumRun(vals, i + 1, raw \cup {key}, out2)

\* ---------------------------------------------------------------- ParamScope
\* Endpoint._check_parameters_for_conflicts: one pass = loop over path, query, header, cookie parameters.
Locs == <<"path","query","header","cookie">>
LocIdx(l) == CHOOSE k \in 1..4 : Locs[k] = l
LocSuffix(l) == CASE l = "path" -> <<"_","p","a","t","h">> [] l = "query" -> <<"_","q","u","e","r","y">>
                  [] l = "header" -> <<"_","h","e","a","d","e","r">> [] OTHER -> <<"_","c","o","o","k","i","e">>
ReservedParams == { <<"c","l","i","e","n","t">>, <<"u","r","l">>, <<"h","e","a","d","e","r","s">>, <<"p","a","r","a","m","s">>,
                    <<"c","o","o","k","i","e","s">>, <<"b","o","d","y">> }
Lookup(used, py) == IF \E k \in 1..Len(used) : used[k][1] = py
                    THEN (CHOOSE k \in 1..Len(used) : used[k][1] = py) ELSE 0
Put(used, py, idx) == IF Lookup(used, py) # 0 THEN [used EXCEPT ![Lookup(used, py)] = <<py, idx>>]
                      ELSE Append(used, <<py, idx>>)
Drop(used, py) == SelectSeq(used, LAMBDA e : e[1] # py)

RECURSIVE Pass(_, _, _, _, _)
Pass(ps, i, used, m, prefix) ==
  IF i > Len(ps) THEN [ps |-> ps, m |-> m, err |-> FALSE]
  ELSE LET p == ps[i] IN
    IF p.py \in ReservedParams
      THEN Pass([ps EXCEPT ![i].py = PyId(p.py \o LocSuffix(p.loc), prefix, FALSE)], i + 1, used,
                m \cup {<<p.loc, p.name>>}, prefix)
    ELSE IF Lookup(used, p.py) = 0
      THEN Pass(ps, i + 1, Append(used, <<p.py, i>>), m, prefix)
    ELSE LET j == used[Lookup(used, p.py)][2]
             c == ps[j]
             used1 == Drop(used, p.py) IN
      IF <<c.loc, c.name>> \in m \/ <<p.loc, p.name>> \in m THEN [ps |-> ps, m |-> m, err |-> TRUE]
      ELSE LET ps2 == IF p.loc # c.loc
                        THEN [ps EXCEPT ![j].py = PyId(c.py \o LocSuffix(c.loc), prefix, FALSE),
                                        ![i].py = PyId(p.py \o LocSuffix(p.loc), prefix, FALSE)]
                      ELSE IF c.name # p.name
                        THEN [ps EXCEPT ![j].py = PyId(c.name, prefix, TRUE), ![i].py = PyId(p.name, prefix, TRUE)]
                      ELSE ps
               m2 == m \cup {<<p.loc, c.name>>, <<c.loc, c.name>>}     \* sic: (location, conflicting_prop.name)
               used2 == Put(Put(used1, ps2[i].py, i), ps2[j].py, j)
           IN Pass(ps2, i + 1, used2, m2, prefix)

RECURSIVE Resolve(_, _, _, _)
Resolve(ps, prev, fuel, prefix) ==
  LET r == Pass(ps, 1, <<>>, prev, prefix) IN
  IF r.err THEN [ps |-> r.ps, err |-> TRUE, rounds |-> fuel, stuck |-> FALSE]
  ELSE IF r.m # {} /\ r.m # prev
       THEN (IF fuel = 0 THEN [ps |-> r.ps, err |-> FALSE, rounds |-> 0, stuck |-> TRUE]
             ELSE Resolve(r.ps, r.m, fuel - 1, prefix))
  ELSE [ps |-> r.ps, err |-> FALSE, rounds |-> fuel, stuck |-> FALSE]

ParamRun(inp, prefix) ==
  Resolve([i \in 1..Len(inp) |-> [loc |-> inp[i].loc, name |-> inp[i].name, py |-> PyId(inp[i].name, prefix, FALSE)]],
          {}, 8, prefix)

\* ---------------------------------------------------------------- declarative helpers
Injective(seq) == \A a, b \in 1..Len(seq) : a # b => Norm(seq[a]) # Norm(seq[b])
=============================================================================
