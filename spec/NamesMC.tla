------------------------------ MODULE NamesMC ------------------------------
(* Model-checking wrapper for Names.tla: enumerates a bounded universe of names / name sets,          *)
(* evaluates the declarative laws in TLC, and emits each case with the model's predictions as JSON  *)
(* (spec -> code replay, DESIGN 1.2 A).  One `Mode` per scope machine.                              *)
EXTENDS Names, Json
CONSTANTS Sigma,      \* token alphabet of the universe
          MaxLen,     \* max name length
          Mode,       \* "single" | "attr" | "enum" | "param"
          SetSize,    \* number of names placed together in one scope
          EmitJson    \* TRUE: print every case (use -workers 1)
VARIABLES inp, done
vars == <<inp, done>>

Strs(n) == UNION {[1..k -> Sigma] : k \in 0..n}
NEStrs(n) == UNION {[1..k -> Sigma] : k \in 1..n}
ParamLocs == {"path", "query", "header"}

\* values that interact with the POSITIONAL member names VALUE_<index> given to values that do not start with a letter
EnumMenu == { <<"V","A","L","U","E","_","1">>, <<"v","a","l","u","e"," ","1">>, <<"V","a","l","u","e","-","2">>, <<"v","a","l","u","e","_","0">>,
              <<"1","a">>, <<"2">>, <<"-">>, <<>>, <<"a">>, <<"v","a","l","u","e">> }
Universe ==
  CASE Mode = "single" -> Strs(MaxLen)
    [] Mode = "attr"   -> {q \in [1..SetSize -> Strs(MaxLen)] : \A a, b \in 1..SetSize : a < b => q[a] # q[b]}
    [] Mode = "enum"   -> {q \in [1..SetSize -> Strs(MaxLen)] : \A a, b \in 1..SetSize : a < b => q[a] # q[b]}
    [] Mode = "enummenu" -> {q \in [1..SetSize -> EnumMenu] : \A a, b \in 1..SetSize : a < b => q[a] # q[b]}
    [] Mode = "class"  -> {q \in [1..SetSize -> NEStrs(MaxLen)] : \A a, b \in 1..SetSize : a < b => q[a] # q[b]}
    [] Mode = "ops"    -> {q \in [1..SetSize -> NEStrs(MaxLen)] : \A a, b \in 1..SetSize : a < b => q[a] # q[b]}
    [] Mode = "allof"  -> [par : {q \in [1..SetSize -> Strs(MaxLen)] : \A a, b \in 1..SetSize : a < b => q[a] # q[b]},
                           own : Strs(MaxLen)]
    [] Mode = "nested" -> [1..2 -> Strs(MaxLen)]
    [] Mode = "param"  -> {q \in [1..SetSize -> [loc : ParamLocs, name : NEStrs(MaxLen)]] :
                              /\ \A a, b \in 1..SetSize : a < b => LocIdx(q[a].loc) <= LocIdx(q[b].loc)
                              /\ \A a, b \in 1..SetSize : a # b => <<q[a].loc, q[a].name>> # <<q[b].loc, q[b].name>>}

Init == inp \in Universe /\ done = FALSE
Next == ~done /\ done' = TRUE /\ UNCHANGED inp
Spec == Init /\ [][Next]_vars


\* ------------------------------------------------------------------ single names (N1)
Py    == PyId(inp, FieldPrefix, FALSE)
PyTag == PyId(inp, <<"t","a","g">>, FALSE)
Cls   == ClassName(inp, FieldPrefix)
Mod   == PyId(Cls, FieldPrefix, FALSE)                  \* Class.from_string: module name from the class name
N1Single == (Mode = "single" /\ done) => (ValidIdent(Py) /\ ValidIdent(PyTag) /\ ValidIdent(Cls) /\ ValidIdent(Mod))
\* N4: names that become path components (project / package directory, module files, tag directories) contain no
\* separator and are never a dot segment
ProjDir == Kebab(inp) \o <<"-","c","l","i","e","n","t">>
NoSep(s) == \A i \in 1..Len(s) : s[i] \notin {"/", "BSL"}
NotDots(s) == s # <<".">> /\ s # <<".", ".">> /\ s # <<>>
N4Paths == (Mode = "single" /\ done) => \A s \in {ProjDir, Py, PyTag, Mod} : NoSep(s) /\ NotDots(s)
EmitSingle == (Mode = "single" /\ done /\ EmitJson) =>
   PrintT(ToJson([i |-> inp, sn |-> Snake(inp), pa |-> Pascal(inp), ke |-> Kebab(inp), py |-> Py, pyr |-> PyId(inp, FieldPrefix, TRUE),
                  tag |-> PyTag, cn |-> Cls, mod |-> Mod,
                  ok |-> ValidIdent(Py) /\ ValidIdent(PyTag) /\ ValidIdent(Cls) /\ ValidIdent(Mod)]))

\* ------------------------------------------------------------------ model attributes (N1 + N2)
AttrOut == AttrRun(inp, 1, <<>>, FieldPrefix)
AttrPys == [k \in 1..Len(AttrOut.ps) |-> AttrOut.ps[k].py]
AttrOk == AttrOut.err \/ (Injective(AttrPys) /\ \A k \in 1..Len(AttrPys) : ValidIdent(AttrPys[k]))
N2Attr == (Mode = "attr" /\ done) => AttrOk
EmitAttr == (Mode = "attr" /\ done /\ (EmitJson \/ ~AttrOk)) =>
   PrintT(ToJson([i |-> inp, err |-> AttrOut.err, names |-> [k \in 1..Len(AttrOut.ps) |-> AttrOut.ps[k].name],
                  py |-> AttrPys, ok |-> AttrOk]))

\* ------------------------------------------------------------------ enum member keys (N1 + N2)
EnumOut == EnumRun(inp, 1, {}, <<>>)
EnumOk == EnumOut.err \/ (Len(EnumOut.out) = Len(inp) /\ \A k \in 1..Len(EnumOut.out) : ValidIdent(EnumOut.out[k].key))
N2Enum == (Mode \in {"enum", "enummenu"} /\ done) => EnumOk
EmitEnum == (Mode \in {"enum", "enummenu"} /\ done /\ (EmitJson \/ ~EnumOk)) =>
   PrintT(ToJson([i |-> inp, err |-> EnumOut.err, keys |-> [k \in 1..Len(EnumOut.out) |-> EnumOut.out[k].key],
                  vals |-> [k \in 1..Len(EnumOut.out) |-> EnumOut.out[k].val], ok |-> EnumOk]))

\* ------------------------------------------------------------------ operation parameters (N1 + N2 + N3)
ParOut == ParamRun(inp, FieldPrefix)
ParPys == [k \in 1..Len(inp) |-> ParOut.ps[k].py]
ParOk == ParOut.err \/ (Injective(ParPys) /\ \A k \in 1..Len(ParPys) : ValidIdent(ParPys[k]))
N2Param == (Mode = "param" /\ done) => ParOk
N3Terminates == (Mode = "param" /\ done) => ~ParOut.stuck      \* the recursion ends within the fuel (measure: |m| grows)
EmitParam == (Mode = "param" /\ done /\ (EmitJson \/ ~ParOk)) =>
   PrintT(ToJson([i |-> inp, err |-> ParOut.err, py |-> ParPys, ok |-> ParOk]))

\* ------------------------------------------------------------------ model classes / modules (ClassScope)
\* Class.from_string: simple name = text after the last "/"; class = ClassName; module = PythonIdentifier(class).
\* ModelProperty.build: a class name already in classes_by_name => "duplicate models" diagnostic for the later one.
RECURSIVE LastSlash(_, _)
LastSlash(s, i) == IF i = 0 THEN 0 ELSE IF s[i] = "/" THEN i ELSE LastSlash(s, i - 1)
AfterSlash(s) == SubSeq(s, LastSlash(s, Len(s)) + 1, Len(s))
ClsOf(s) == ClassName(AfterSlash(s), FieldPrefix)
ModOf(s) == PyId(ClsOf(s), FieldPrefix, FALSE)
RECURSIVE ClassRun(_, _, _, _)
ClassRun(names, i, seen, out) ==
  IF i > Len(names) THEN out
  ELSE LET c == ClsOf(names[i]) IN
       IF c \in seen THEN ClassRun(names, i + 1, seen, Append(out, [cls |-> c, mod |-> ModOf(names[i]), dup |-> TRUE]))
       ELSE ClassRun(names, i + 1, seen \cup {c}, Append(out, [cls |-> c, mod |-> ModOf(names[i]), dup |-> FALSE]))
ClassOut == ClassRun(inp, 1, {}, <<>>)
ClassGen == SelectSeq(ClassOut, LAMBDA r : ~r.dup)
ClassOk == /\ Injective([k \in 1..Len(ClassGen) |-> ClassGen[k].mod])
           /\ \A k \in 1..Len(ClassGen) : ValidIdent(ClassGen[k].cls) /\ ValidIdent(ClassGen[k].mod)
EmitClass == (Mode = "class" /\ done /\ (EmitJson \/ ~ClassOk)) =>
   PrintT(ToJson([i |-> inp, cls |-> [k \in 1..Len(ClassOut) |-> ClassOut[k].cls], mod |-> [k \in 1..Len(ClassOut) |-> ClassOut[k].mod],
                  dup |-> [k \in 1..Len(ClassOut) |-> ClassOut[k].dup], ok |-> ClassOk]))

\* ------------------------------------------------------------------ attributes of an allOf-composed model
\* child = allOf[ref parent, inline member]: the parent's property OBJECTS (with their resolved python names) are added
\* first, then the member's own property; a redefinition refining the type (string -> date) is rebuilt from the new
\* definition, i.e. it restarts from the default python name and goes through the conflict loop again.
AllofPar == AttrRun(inp.par, 1, <<>>, FieldPrefix)
\* _process_models retries a failed model in the next round when the round made progress (the parent succeeded);
\* the parent's property objects were renamed in place by the failed attempt, so the retry sees other names.
AllofTry1 == AttrAdd(AllofPar.ps, inp.own, FieldPrefix)
AllofOut == IF AllofPar.err THEN [ps |-> <<>>, err |-> TRUE]
            ELSE IF ~AllofTry1.err THEN AllofTry1
            ELSE AttrAdd(SelectSeq(AllofTry1.ps, LAMBDA o : o.name # inp.own \/ inp.own \in {inp.par[k] : k \in 1..Len(inp.par)}), inp.own, FieldPrefix)
AllofPys == [k \in 1..Len(AllofOut.ps) |-> AllofOut.ps[k].py]
AllofOk == AllofOut.err \/ (Injective(AllofPys) /\ \A k \in 1..Len(AllofPys) : ValidIdent(AllofPys[k]))
N2Allof == (Mode = "allof" /\ done) => AllofOk
EmitAllof == (Mode = "allof" /\ done /\ (EmitJson \/ ~AllofOk)) =>
   PrintT(ToJson([par |-> inp.par, own |-> inp.own, perr |-> AllofPar.err, err |-> AllofOut.err,
                  names |-> [k \in 1..Len(AllofOut.ps) |-> AllofOut.ps[k].name], py |-> AllofPys, ok |-> AllofOk]))

\* ------------------------------------------------------------------ inline classes nested in a component (ClassScope, depth 2)
\* component A { p1: object { p2: object {...} } }: class names A, A+Pascal(p1), A+Pascal(p1)+Pascal(p2); an inline class
\* whose derived name equals an enclosing class must be diagnosed ("duplicate models"), never overwrite it.
NestA == <<"A">>
Nest1 == ClassName(Pascal(NestA) \o Pascal(inp[1]), FieldPrefix)
Nest2 == ClassName(Pascal(Nest1) \o Pascal(inp[2]), FieldPrefix)
NestDup == Nest1 = NestA \/ Nest2 = Nest1 \/ Nest2 = NestA
NestMods == << PyId(NestA, FieldPrefix, FALSE), PyId(Nest1, FieldPrefix, FALSE), PyId(Nest2, FieldPrefix, FALSE) >>
NestOk == NestDup \/ (Injective(NestMods) /\ ValidIdent(Nest1) /\ ValidIdent(Nest2))
EmitNested == (Mode = "nested" /\ done /\ (EmitJson \/ ~NestOk)) =>
   PrintT(ToJson([i |-> inp, cls |-> <<NestA, Nest1, Nest2>>, mod |-> NestMods, dup |-> NestDup, ok |-> NestOk]))

\* ------------------------------------------------------------------ one tag's operations (ModuleScope)
\* Project._build_api: file name = PythonIdentifier(endpoint.name); NO collision check exists in the code.
OpsMods == [k \in 1..Len(inp) |-> PyId(inp[k], FieldPrefix, FALSE)]
OpsOk == Injective(OpsMods) /\ \A k \in 1..Len(OpsMods) : ValidIdent(OpsMods[k])
EmitOps == (Mode = "ops" /\ done /\ (EmitJson \/ ~OpsOk)) =>
   PrintT(ToJson([i |-> inp, mod |-> OpsMods, ok |-> OpsOk]))
=============================================================================
