----------------------------- MODULE NamesTrace -----------------------------
(* Code -> spec: outputs of the REAL utils functions, recorded by the harness as ndjson             *)
(*   {"tid":n,"i":[tokens],"sn":[..],"pa":[..],"ke":[..],"py":[..],"pyr":[..],"cn":[..]}            *)
(* are validated line by line against the operational transcription, and the declarative law N1   *)
(* is evaluated on what the code really produced.  Verdicts are total: ids of non-conforming lines *)
(* and of law-violating lines are accumulated in TLC registers and printed by the POSTCONDITION.   *)
EXTENDS Names, Json, IOUtils
Trace == ndJsonDeserialize(IOEnv.TRACE_FILE)
VARIABLE l
Conforms(e) == /\ Snake(e.i) = e.sn /\ Pascal(e.i) = e.pa /\ Kebab(e.i) = e.ke
               /\ PyId(e.i, FieldPrefix, FALSE) = e.py /\ PyId(e.i, FieldPrefix, TRUE) = e.pyr
               /\ ClassName(e.i, FieldPrefix) = e.cn
LawN1(e) == ValidIdent(e.py) /\ ValidIdent(e.cn)      \* on the OBSERVED names
Init == l = 1
Next == /\ l <= Len(Trace)
        /\ LET e == Trace[l] IN
             /\ (IF Conforms(e) THEN TRUE ELSE TLCSet(1, Append(TLCGet(1), e.tid)))
             /\ (IF LawN1(e) THEN TRUE ELSE TLCSet(2, Append(TLCGet(2), e.tid)))
        /\ l' = l + 1
Spec == Init /\ [][Next]_l
Post == PrintT(ToJson([nonconforming |-> TLCGet(1), lawfail |-> TLCGet(2), n |-> Len(Trace),
                       consumed |-> TLCGet("stats").diameter - 1]))
ASSUME TLCSet(1, <<>>) /\ TLCSet(2, <<>>)
=============================================================================
