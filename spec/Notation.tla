------------------------------ MODULE Notation ------------------------------
(***************************************************************************)
(* C17: documents that say the same thing in different notation generate   *)
(* the same client.                                                        *)
(*                                                                         *)
(* A SPELLING is a schema as written in the document.  The rewrite system  *)
(* `Rew` contains exactly the notation changes the property lists, applied *)
(* at the top of a spelling or at any member of its oneOf/anyOf/allOf      *)
(* lists (to any depth):                                                   *)
(*   N1  type T + nullable:true        ->  type [T, null]                  *)
(*   N2  type [T, null]                ->  oneOf [ {type T ...}, null ]    *)
(*   N3  nullable:true + oneOf/anyOf   ->  ... with a null member appended *)
(*   N4  nullable:true + allOf         ->  oneOf [ null, {allOf ...} ]     *)
(*   E1  enum [..., null]              ->  oneOf [ null, {enum [...]} ]    *)
(*   W   $ref                          ->  allOf/oneOf/anyOf [ $ref ]      *)
(* The place of the null member is where the code's own normaliser puts    *)
(* it: member order is content (decode priority, C02), not notation.       *)
(*                                                                         *)
(* OPERATIONAL layer: `Norm` transcribes Schema.handle_nullable (pydantic  *)
(* validator, children first), `Build` the dispatch of property_from_data  *)
(* with EnumProperty.build's null rewrite (model_copy BEFORE the fields    *)
(* are reassigned), UnionProperty.build (anyOf, oneOf, then one copy per   *)
(* entry of a type list; `<name>_type_<i>` naming; one-level flattening)   *)
(* and the single-reference pass-through.  The result is a DESCRIPTOR      *)
(* [k, p, m, v]: kind, naming path (the _type_<i> indices), union members, *)
(* enum values / reference target.                                         *)
(* DECLARATIVE layer: Equiv - every spelling reachable by rewrites has the *)
(* descriptor of the spelling it started from.                             *)
(***************************************************************************)
EXTENDS Naturals, Sequences, FiniteSets, TLC

\* df: the schema declares a `default` (a value of its type: "a" for strings and string enums, 1 for integers, a date for dates)
Empty == [ref |-> "", tl |-> FALSE, ts |-> <<>>, nul |-> FALSE, en |-> <<>>, one |-> <<>>, any |-> <<>>, all |-> <<>>, fmt |-> "", props |-> FALSE, df |-> FALSE]
Ref(n) == [Empty EXCEPT !.ref = n]
T(t)   == [Empty EXCEPT !.ts = <<t>>]
NullS  == T("null")
Range(q) == {q[i] : i \in 1..Len(q)}
NonNull(en) == SelectSeq(en, LAMBDA v : v # "NULL")

\* ------------------------------------------------------------------ Schema.handle_nullable
RECURSIVE Norm(_)
Norm(s) ==
  IF s.ref # "" THEN s
  ELSE LET c == [s EXCEPT !.one = [i \in 1..Len(s.one) |-> Norm(s.one[i])],
                          !.any = [i \in 1..Len(s.any) |-> Norm(s.any[i])],
                          !.all = [i \in 1..Len(s.all) |-> Norm(s.all[i])]] IN
    IF ~c.nul THEN c
    ELSE IF c.ts # <<>> /\ ~c.tl THEN [c EXCEPT !.tl = TRUE, !.ts = <<c.ts[1], "null">>]
    ELSE IF c.tl THEN (IF "null" \in Range(c.ts) THEN c ELSE [c EXCEPT !.ts = Append(@, "null")])
    ELSE IF c.one # <<>> THEN [c EXCEPT !.one = Append(@, NullS)]
    ELSE IF c.any # <<>> THEN [c EXCEPT !.any = Append(@, NullS)]
    ELSE IF c.all # <<>> THEN [c EXCEPT !.one = <<NullS, [Empty EXCEPT !.all = c.all]>>, !.all = <<>>]
    ELSE c

\* ------------------------------------------------------------------ property_from_data
D(k, p) == [k |-> k, p |-> p, m |-> <<>>, v |-> <<>>, df |-> FALSE]          \* df: the built property carries a default
RECURSIVE Flatten(_)
Flatten(ds) == IF ds = <<>> THEN <<>> ELSE (IF Head(ds).k = "union" THEN Head(ds).m ELSE <<Head(ds)>>) \o Flatten(Tail(ds))
Scalar(s, t) == ~s.tl /\ s.ts = <<t>>

\* _process_properties: a reference member contributes the referenced model's properties, a single-reference wrapper without properties of its
\* own counts as that reference, any other inline member contributes only its own `properties` (nested compositions are not looked at)
PureWrapperM(s) == s.ref = "" /\ ~s.props /\ Len(s.all \o s.any \o s.one) = 1 /\ (s.all \o s.any \o s.one)[1].ref # ""
MemberRef(s) == IF s.ref # "" THEN s.ref ELSE IF PureWrapperM(s) THEN (s.all \o s.any \o s.one)[1].ref ELSE ""
BuildModel(s, p) ==
  LET refs == {MemberRef(s.all[i]) : i \in 1..Len(s.all)} \ {""}
      inl  == s.props \/ \E i \in 1..Len(s.all) : MemberRef(s.all[i]) = "" /\ s.all[i].props
  IN IF "E" \in refs THEN D("err", <<>>)                                                    \* Cannot take allOf a non-object
     ELSE [D("model", p) EXCEPT !.v = SelectSeq(<<"M", "N", "D", "props">>, LAMBDA x : x \in refs \/ (x = "props" /\ inl))]
RECURSIVE Build(_, _)
\* a union takes the default of ITS OWN schema (converted by the first member that accepts it); the defaults of its members are never used
NoDf(d) == [d EXCEPT !.df = FALSE]
BuildUnion(s, p) ==
  LET tld == IF s.tl THEN [i \in 1..Len(s.ts) |-> [s EXCEPT !.tl = FALSE, !.ts = <<s.ts[i]>>]] ELSE <<>>
      mem == s.any \o s.one \o tld
      subs == [i \in 1..Len(mem) |-> NoDf(Build(mem[i], Append(p, i - 1)))]
  IN IF \E i \in 1..Len(subs) : subs[i].k = "err" THEN D("err", <<>>) ELSE [D("union", p) EXCEPT !.m = Flatten(subs)]
BuildEnum(s, p) ==
  LET nn == NonNull(s.en) IN
  IF nn = <<>> THEN D("none", p)
  ELSE IF Len(nn) < Len(s.en)
    THEN BuildUnion([s EXCEPT !.one = <<NullS, [s EXCEPT !.en = nn]>>, !.en = <<>>, !.tl = FALSE, !.ts = <<>>], p)   \* the copy still carries s's own oneOf and type; the outer type is cleared
    ELSE [D("enum", p) EXCEPT !.v = nn]
Build0(s, p) ==
  IF s.ref # "" THEN [D("ref", p) EXCEPT !.v = <<s.ref>>]
  ELSE LET sub == s.all \o s.any \o s.one IN
    IF Len(sub) = 1 /\ sub[1].ref # "" /\ ~s.props THEN [D("ref", p) EXCEPT !.v = <<sub[1].ref>>]      \* a wrapper with properties of its own is a model
    ELSE IF Scalar(s, "boolean") THEN D("bool", p)
    ELSE IF s.en # <<>> THEN BuildEnum(s, p)
    ELSE IF s.any # <<>> \/ s.one # <<>> \/ s.tl THEN BuildUnion(s, p)
    ELSE IF Scalar(s, "string") THEN D(IF s.fmt = "date" THEN "date" ELSE "str", p)
    ELSE IF Scalar(s, "number") THEN D("num", p)
    ELSE IF Scalar(s, "integer") THEN D("int", p)
    ELSE IF Scalar(s, "null") THEN D("none", p)
    ELSE IF Scalar(s, "array") THEN D("list", p)
    ELSE IF Scalar(s, "object") \/ s.all # <<>> \/ (s.ts = <<>> /\ s.props) THEN BuildModel(s, p)
    ELSE D("any", p)
\* kinds whose build keeps the declared default (arrays and `type: null` drop it, a model refuses it)
DfKinds == {"str", "date", "int", "num", "bool", "enum", "union", "any"}
Build(s, p) == LET r == Build0(s, p) IN IF s.ref = "" /\ s.df /\ r.k \in DfKinds THEN [r EXCEPT !.df = TRUE] ELSE r
Outcome(s) == Build(Norm(s), <<>>)

\* ------------------------------------------------------------------ the rewrite system
NoComp(s) == s.one = <<>> /\ s.any = <<>> /\ s.all = <<>>
Top(s) ==
  IF s.ref # "" THEN {[Empty EXCEPT !.all = <<s>>], [Empty EXCEPT !.one = <<s>>], [Empty EXCEPT !.any = <<s>>]}                          \* W
  ELSE (IF s.nul /\ ~s.tl /\ s.ts # <<>> THEN {[s EXCEPT !.nul = FALSE, !.tl = TRUE, !.ts = <<s.ts[1], "null">>]} ELSE {})               \* N1
    \cup (IF ~s.nul /\ s.tl /\ Len(s.ts) = 2 /\ "null" \in Range(s.ts) /\ s.ts[1] # s.ts[2] /\ s.en = <<>> /\ NoComp(s)
            THEN {[Empty EXCEPT !.df = s.df, !.one = [i \in 1..2 |-> IF s.ts[i] = "null" THEN NullS ELSE [s EXCEPT !.tl = FALSE, !.ts = <<s.ts[i]>>, !.df = FALSE]]]} ELSE {})        \* N2 (members in the order of the type list; the default stays outside)
    \cup (IF s.nul /\ s.ts = <<>> /\ s.one # <<>> THEN {[s EXCEPT !.nul = FALSE, !.one = Append(@, NullS)]} ELSE {})                     \* N3
    \cup (IF s.nul /\ s.ts = <<>> /\ s.one = <<>> /\ s.any # <<>> THEN {[s EXCEPT !.nul = FALSE, !.any = Append(@, NullS)]} ELSE {})     \* N3
    \cup (IF s.nul /\ s.ts = <<>> /\ s.one = <<>> /\ s.any = <<>> /\ s.all # <<>>
            THEN {[s EXCEPT !.nul = FALSE, !.one = <<NullS, [Empty EXCEPT !.all = s.all]>>, !.all = <<>>]} ELSE {})                      \* N4
    \cup (IF ~s.nul /\ "NULL" \in Range(s.en) /\ NonNull(s.en) # <<>> /\ NoComp(s)
            THEN LET nt == SelectSeq(s.ts, LAMBDA t : t # "null") IN
                 {[Empty EXCEPT !.df = s.df, !.one = <<NullS, [s EXCEPT !.en = NonNull(s.en), !.ts = nt, !.tl = (Len(nt) > 1), !.df = FALSE]>>]} ELSE {})            \* E1 (the default stays outside)
\* a reference that is already the only member of a wrapper is wrapped again only when DoubleWrap is set (wrapper of a wrapper)
CONSTANTS MaxSteps, DoubleWrap
PureWrapper(s) == s.ref = "" /\ Len(s.all \o s.any \o s.one) = 1 /\ (s.all \o s.any \o s.one)[1].ref # ""
RECURSIVE Rew(_)
Rew(s) == Top(s) \cup (IF PureWrapper(s) /\ ~DoubleWrap THEN {} ELSE
       UNION {{[s EXCEPT !.one[i] = t] : t \in Rew(s.one[i])} : i \in 1..Len(s.one)}
  \cup UNION {{[s EXCEPT !.any[i] = t] : t \in Rew(s.any[i])} : i \in 1..Len(s.any)}
  \cup UNION {{[s EXCEPT !.all[i] = t] : t \in Rew(s.all[i])} : i \in 1..Len(s.all)})

VARIABLES base, cur, n
vars == <<base, cur, n>>
\* ---- the universe of starting spellings
Obj == [T("object") EXCEPT !.props = TRUE]
Nul(s) == [s EXCEPT !.nul = TRUE]
En(s, vals) == [s EXCEPT !.en = vals]
OneOf(q) == [Empty EXCEPT !.one = q]
AnyOf(q) == [Empty EXCEPT !.any = q]
AllOf(q) == [Empty EXCEPT !.all = q]
Inline == [Empty EXCEPT !.props = TRUE]
Df(s) == [s EXCEPT !.df = TRUE]
BaseTerms ==
  {Df(Nul(T("string"))), Df(Nul(T("integer"))), Df([Empty EXCEPT !.tl = TRUE, !.ts = <<"string", "null">>]), Df([Empty EXCEPT !.tl = TRUE, !.ts = <<"null", "integer">>]),
   Df(En(T("string"), <<"a", "b", "NULL">>)), Df(En(Empty, <<"a", "b", "NULL">>)), Df(Nul(En(T("string"), <<"a", "b">>))), Df(En(T("integer"), <<"i1", "i2", "NULL">>)),
   Df(Nul([T("string") EXCEPT !.fmt = "date"])), Df(Nul(En(T("string"), <<"a", "b", "NULL">>)))} \cup
  {Nul(T(t)) : t \in {"string", "integer", "number", "boolean", "array"}} \cup {Nul(Obj), Nul([T("string") EXCEPT !.fmt = "date"])}
  \cup {[Obj EXCEPT !.tl = TRUE, !.ts = <<"null", "object">>], [Empty EXCEPT !.tl = TRUE, !.ts = <<"null", "string">>, !.fmt = "date"], [Empty EXCEPT !.tl = TRUE, !.ts = <<"null", "array">>],
        [Empty EXCEPT !.tl = TRUE, !.ts = <<"object", "null">>, !.props = TRUE]}            \* 3.1 type lists written with null first / last
  \cup {Ref("M"), Ref("E"), Ref("D")}          \* D: a component model with an inline nested object
  \cup {En(T("string"), <<"a", "b">>), Nul(En(T("string"), <<"a", "b">>)), En(Empty, <<"a", "b", "NULL">>), En(T("string"), <<"a", "b", "NULL">>),
        Nul(En(T("string"), <<"a", "b", "NULL">>)), En(T("integer"), <<"i1", "i2", "NULL">>), En(Empty, <<"NULL">>), Nul(En(T("string"), <<"NULL">>))}
  \cup {Nul(OneOf(<<Ref("M"), Ref("N")>>)), Nul(AnyOf(<<Ref("M"), Ref("N")>>)), Nul(OneOf(<<Ref("M")>>)), Nul(AnyOf(<<Ref("E")>>)), Nul(AllOf(<<Ref("M")>>)), Nul(AllOf(<<Ref("E")>>)),
        Nul(AllOf(<<Ref("M"), Ref("N")>>)), Nul(AllOf(<<Ref("M"), Inline>>)),
        Nul([Obj EXCEPT !.one = <<Ref("M"), Ref("N")>>]), Nul([T("object") EXCEPT !.any = <<Ref("M"), Ref("N")>>]), Nul([T("object") EXCEPT !.all = <<Ref("M")>>]),
        OneOf(<<Ref("M"), T("string")>>), OneOf(<<Ref("M"), Ref("E")>>), AnyOf(<<Ref("M"), Nul(T("integer"))>>), OneOf(<<Nul(Obj), T("string")>>),
        OneOf(<<En(T("string"), <<"a", "b", "NULL">>), T("integer")>>), OneOf(<<OneOf(<<Ref("M"), Ref("N")>>), Nul(T("string"))>>),
        AllOf(<<Ref("M"), Ref("N")>>), AllOf(<<Ref("M"), Inline>>)}

Init == base \in BaseTerms /\ cur = base /\ n = 0
Next == n < MaxSteps /\ cur' \in Rew(cur) /\ n' = n + 1 /\ UNCHANGED base
Spec == Init /\ [][Next]_vars
\* ------------------------------------------------------------------ law
Equiv == Outcome(cur) = Outcome(base)
\* the rewrites never change what the normaliser makes of a 3.0 nullable at the SAME node (N1 is an identity on the internal representation)
N1Identity == \A t \in Top(cur) : (cur.nul /\ ~cur.tl /\ cur.ts # <<>> /\ ~t.nul /\ t.tl /\ t.one = cur.one /\ t.any = cur.any /\ t.all = cur.all)
                                    => [Norm(t) EXCEPT !.nul = TRUE] = Norm(cur)
=============================================================================
