----------------------------- MODULE NotationMC -----------------------------
EXTENDS Notation, Json
\* every reachable (base, cur) pair with the model's verdict; the law is judged on the real trees by the harness
Emit == PrintT(ToJson([base |-> base, cur |-> cur, n |-> n, db |-> Outcome(base), dc |-> Outcome(cur), eq |-> Equiv]))
View == <<base, cur>>
=============================================================================
