---------------------------- MODULE NotationTrace ----------------------------
(* Code -> spec: the property the real parser builds for a spelling, projected to the model's descriptor {"tid","s","d"}, is validated against
   Notation.tla: TLC recomputes Outcome(s) and lists the observations that differ. *)
EXTENDS Notation, Json, IOUtils
Obs == ndJsonDeserialize(IOEnv.TRACE_FILE)
VARIABLE l
TInit == l = 1 /\ base = Empty /\ cur = Empty /\ n = 0
TNext == /\ l <= Len(Obs)
         /\ LET e == Obs[l] IN ((Outcome(e.s) # e.d) => TLCSet(1, Append(TLCGet(1), e.tid)))
         /\ l' = l + 1 /\ UNCHANGED vars
TSpec == TInit /\ [][TNext]_<<l, vars>>
Post == PrintT(ToJson([nonconforming |-> TLCGet(1), n |-> Len(Obs), consumed |-> TLCGet("stats").diameter - 1]))
ASSUME TLCSet(1, <<>>)
=============================================================================
