--------------------------------- MODULE Ops ---------------------------------
(***************************************************************************)
(* Assembly of ONE operation (parser/openapi.py: Endpoint.from_data,       *)
(* add_parameters, _add_responses, body_from_data/_resolve_reference,      *)
(* sort_parameters, EndpointCollection.from_data) as a state machine:      *)
(*                                                                         *)
(*   params -> responses -> bodies -> piparams -> sort -> done | error     *)
(*                                                                         *)
(* one action per parameter / response / media type visited.               *)
(* A failing PARAMETER, an unresolvable BODY reference, "no parseable      *)
(* body" or a PATH mismatch fails the operation (diagnostic names          *)
(* METHOD path); a failing RESPONSE or one failing media type among        *)
(* several only costs that response / media type (warning names it).       *)
(***************************************************************************)
EXTENDS Naturals, Sequences, FiniteSets, TLC

\* ---- vocabulary
\* parameter: [n, loc, how]   how: ok | ref | dangling | badschema | optional | badloc | noschema
ParamFails(p) == p.how \in {"dangling", "badschema", "optional", "badloc"}
HasSchema(p) == p.how # "noschema"
\* request body kinds -> per media type outcome, in document order
BodyMedia(b) ==
  CASE b = "none" -> <<>>
    [] b = "json" -> << <<"application/json", "json">> >>
    [] b = "form" -> << <<"application/x-www-form-urlencoded", "data">> >>
    [] b = "multi" -> << <<"multipart/form-data", "files">> >>
    [] b = "octet" -> << <<"application/octet-stream", "content">> >>
    [] b = "json+unsup" -> << <<"application/json", "json">>, <<"application/xml", "bad">> >>
    [] b = "unsup" -> << <<"application/xml", "bad">> >>
    [] b = "badschema" -> << <<"application/json", "bad">> >>
    [] b = "json+badschema" -> << <<"application/vnd.x+json", "bad">>, <<"application/json", "json">> >>
    [] b = "noschema" -> << <<"application/json", "bad">> >>
    [] b = "json+mpjson" -> << <<"application/json", "json">>, <<"application/merge-patch+json", "json">> >>     \* two media types of one kind
    [] b = "ref" -> << <<"application/json", "json">> >>
    [] b = "refchain" -> << <<"application/json", "json">> >>
    [] OTHER -> <<>>                                  \* refcycle, refdangling: resolved before any media type
BodyRefFails(b) == b \in {"refcycle", "refdangling"}
\* responses: [key, how]  how: model | text | none | ref | bad | badkey | unsup | dangling
RespHandled(r) == r.how \in {"model", "text", "none", "ref"}

VARIABLES op,        \* [ps, pips, body, rs, pathvar]
          stage, i,
          accepted,  \* parameters accepted so far: sequence of [n, loc, lvl]
          seen,      \* (name, location) pairs seen in the list being processed (duplicate detection is per list)
          handled,   \* response keys handled by the generated function
          btypes,    \* body kwarg kinds generated
          warns,     \* items named in a warning: <<"status", key>> / <<"media", type>>
          berrs,     \* media types that failed (become warnings only if some body survives)
          result     \* "pending" | "ok" | "error"
vars == <<op, stage, i, accepted, seen, handled, btypes, warns, berrs, result>>

InitWith(o) == /\ op = o /\ stage = "params" /\ i = 1 /\ accepted = <<>> /\ seen = {} /\ handled = {} /\ btypes = {}
               /\ warns = {} /\ berrs = {} /\ result = "pending"

Fail == /\ stage' = "error" /\ result' = "error" /\ UNCHANGED <<op, i, accepted, seen, handled, btypes, warns, berrs>>

\* one parameter of the list being processed (operation level: lvl = "op"; path-item level: lvl = "pi")
ParamStep(list, lvl, nextStage) ==
  IF i > Len(list) THEN /\ stage' = nextStage /\ i' = 1 /\ seen' = {} /\ UNCHANGED <<op, accepted, handled, btypes, warns, berrs, result>>
  ELSE LET p == list[i] IN
    IF p.how = "dangling" THEN Fail                                             \* reference cannot be resolved
    ELSE IF ~HasSchema(p) THEN /\ i' = i + 1 /\ UNCHANGED <<op, stage, accepted, seen, handled, btypes, warns, berrs, result>>   \* skipped (sic)
    ELSE IF <<p.n, p.loc>> \in seen THEN Fail                                    \* "Parameters MUST NOT contain duplicates"
    ELSE IF \E k \in 1..Len(accepted) : accepted[k].n = p.n /\ accepted[k].loc = p.loc
         THEN /\ i' = i + 1 /\ seen' = seen \cup {<<p.n, p.loc>>}                \* defined at the operation level: ignored here
              /\ UNCHANGED <<op, stage, accepted, handled, btypes, warns, berrs, result>>
    ELSE IF ParamFails(p) THEN Fail
    ELSE /\ accepted' = Append(accepted, [n |-> p.n, loc |-> p.loc, lvl |-> lvl]) /\ seen' = seen \cup {<<p.n, p.loc>>}
         /\ i' = i + 1 /\ UNCHANGED <<op, stage, handled, btypes, warns, berrs, result>>

OpParams == stage = "params" /\ ParamStep(op.ps, "op", "responses")

OpResponses ==
  /\ stage = "responses"
  /\ IF i > Len(op.rs) THEN /\ stage' = "bodies" /\ i' = 1 /\ UNCHANGED <<op, accepted, seen, handled, btypes, warns, berrs, result>>
     ELSE LET r == op.rs[i] IN
          /\ IF RespHandled(r) THEN handled' = handled \cup {r.key} /\ UNCHANGED warns
             ELSE warns' = warns \cup {<<"status", r.key>>} /\ UNCHANGED handled
          /\ i' = i + 1 /\ UNCHANGED <<op, stage, accepted, seen, btypes, berrs, result>>

OpBodies ==
  /\ stage = "bodies"
  /\ IF BodyRefFails(op.body) THEN Fail
     ELSE LET ms == BodyMedia(op.body) IN
       IF i > Len(ms)
       THEN IF btypes = {} /\ berrs # {} THEN Fail               \* "Endpoint requires a body, but none were parseable."
            ELSE /\ warns' = warns \cup {<<"media", m>> : m \in berrs}
                 /\ stage' = "piparams" /\ i' = 1 /\ UNCHANGED <<op, accepted, seen, handled, btypes, berrs, result>>
       ELSE /\ IF ms[i][2] = "bad" THEN berrs' = berrs \cup {ms[i][1]} /\ UNCHANGED btypes
               ELSE btypes' = btypes \cup {ms[i][2]} /\ UNCHANGED berrs
            /\ i' = i + 1 /\ UNCHANGED <<op, stage, accepted, seen, handled, warns, result>>

OpPathItemParams == stage = "piparams" /\ ParamStep(op.pips, "pi", "sort")

PathParams == SelectSeq(accepted, LAMBDA a : a.loc = "path")
OpSort ==
  /\ stage = "sort"
  /\ IF (op.pathvar /\ Len(PathParams) = 1 /\ PathParams[1].n = "id") \/ (~op.pathvar /\ Len(PathParams) = 0)
       THEN /\ stage' = "done" /\ result' = "ok" /\ UNCHANGED <<op, i, accepted, seen, handled, btypes, warns, berrs>>
       ELSE Fail                                                   \* "Incorrect path templating"

Next == OpParams \/ OpResponses \/ OpBodies \/ OpPathItemParams \/ OpSort

\* ------------------------------------------------------------------ declarative layer
\* does the list fail, looking only at the document: a failing entry that is actually reached and not shadowed
ListFails(list, before) ==
  \E k \in 1..Len(list) :
     LET p == list[k] IN
     \/ p.how = "dangling"
     \/ (HasSchema(p) /\ \E j \in 1..(k - 1) : HasSchema(list[j]) /\ list[j].n = p.n /\ list[j].loc = p.loc)
     \/ (ParamFails(p) /\ ~(\E a \in before : a[1] = p.n /\ a[2] = p.loc))
OpKeys(list) == {<<list[k].n, list[k].loc>> : k \in {j \in 1..Len(list) : HasSchema(list[j]) /\ ~ParamFails(list[j])}}
Effective(o) == OpKeys(o.ps) \cup OpKeys(o.pips)
BodyFails(o) == BodyRefFails(o.body) \/ (BodyMedia(o.body) # <<>> /\ \A k \in 1..Len(BodyMedia(o.body)) : BodyMedia(o.body)[k][2] = "bad")
PathFails(o) == LET pp == {a \in Effective(o) : a[2] = "path"} IN ~((o.pathvar /\ pp = {<<"id", "path">>}) \/ (~o.pathvar /\ pp = {}))
ShouldFail(o) == ListFails(o.ps, {}) \/ BodyFails(o) \/ ListFails(o.pips, OpKeys(o.ps)) \/ PathFails(o)

\* P5 reference transparency (declarative): writing a reusable parameter / request body / response inline at the point of use
\* changes nothing about what must be generated
InlineP(p) == IF p.how = "ref" THEN [p EXCEPT !.how = "ok"] ELSE p
InlineB(b) == IF b \in {"ref", "refchain"} THEN "json" ELSE b
InlineR(r) == IF r.how = "ref" THEN [r EXCEPT !.how = "model"] ELSE r
Inline(o) == [ps |-> [k \in 1..Len(o.ps) |-> InlineP(o.ps[k])], pips |-> [k \in 1..Len(o.pips) |-> InlineP(o.pips[k])],
              body |-> InlineB(o.body), rs |-> [k \in 1..Len(o.rs) |-> InlineR(o.rs[k])], pathvar |-> o.pathvar]
RefTransparent == /\ ShouldFail(op) <=> ShouldFail(Inline(op))
                  /\ Effective(op) = Effective(Inline(op))
                  /\ {op.rs[k].key : k \in {j \in 1..Len(op.rs) : RespHandled(op.rs[j])}}
                       = {Inline(op).rs[k].key : k \in {j \in 1..Len(op.rs) : RespHandled(Inline(op).rs[j])}}
                  /\ {BodyMedia(op.body)[k][2] : k \in 1..Len(BodyMedia(op.body))} = {BodyMedia(InlineB(op.body))[k][2] : k \in 1..Len(BodyMedia(InlineB(op.body)))}
Finished == stage \in {"done", "error"}
\* O2 census: the operation is generated or fails (then the diagnostic names it); every documented status and every
\* request media type of a generated operation is handled or named in a warning
Census == stage = "done" =>
   /\ \A k \in 1..Len(op.rs) : op.rs[k].key \in handled \/ <<"status", op.rs[k].key>> \in warns
   /\ \A k \in 1..Len(BodyMedia(op.body)) : BodyMedia(op.body)[k][2] \in btypes \/ <<"media", BodyMedia(op.body)[k][1]>> \in warns
\* O3 containment: the operation fails exactly when a piece it cannot do without is bad; responses never fail it
Containment == Finished => ((result = "error") <=> ShouldFail(op))
\* a response or media-type problem is never fatal and never silently handled
Downgrades == stage = "done" => /\ handled = {op.rs[k].key : k \in {j \in 1..Len(op.rs) : RespHandled(op.rs[j])}}
                                /\ btypes = {BodyMedia(op.body)[k][2] : k \in {j \in 1..Len(BodyMedia(op.body)) : BodyMedia(op.body)[j][2] # "bad"}}
\* operation-level parameters take precedence over path-item-level ones
Precedence == stage = "done" => \A a \in 1..Len(accepted) : accepted[a].lvl = "pi" => <<accepted[a].n, accepted[a].loc>> \notin OpKeys(op.ps)
Terminates == <>Finished
Progress == [][stage' # stage \/ i' = i + 1]_vars
=============================================================================
