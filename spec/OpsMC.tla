------------------------------- MODULE OpsMC -------------------------------
(* Bounded universe of operations for Ops.tla + JSON emission of each terminal state (spec -> code replay). *)
EXTENDS Ops, Json
CONSTANTS MaxParams, MaxResps, Part, Parts, EmitJson, Bodies
PMenu == << [n |-> "a", loc |-> "query", how |-> "ok"], [n |-> "id", loc |-> "path", how |-> "ok"],
            [n |-> "h", loc |-> "header", how |-> "ok"], [n |-> "a", loc |-> "query", how |-> "ref"],
            [n |-> "z", loc |-> "query", how |-> "dangling"], [n |-> "b", loc |-> "query", how |-> "badschema"],
            [n |-> "id", loc |-> "path", how |-> "optional"], [n |-> "h2", loc |-> "header", how |-> "badloc"],
            [n |-> "c", loc |-> "query", how |-> "noschema"], [n |-> "a", loc |-> "header", how |-> "ok"] >>
PiMenu == << [n |-> "a", loc |-> "query", how |-> "ok"], [n |-> "b", loc |-> "query", how |-> "badschema"],
             [n |-> "p", loc |-> "cookie", how |-> "ok"], [n |-> "z", loc |-> "query", how |-> "dangling"],
             [n |-> "id", loc |-> "path", how |-> "ok"] >>
RMenu == << [key |-> "200", how |-> "model"], [key |-> "201", how |-> "text"], [key |-> "204", how |-> "none"],
            [key |-> "205", how |-> "ref"], [key |-> "404", how |-> "bad"], [key |-> "default", how |-> "badkey"],
            [key |-> "2XX", how |-> "badkey"], [key |-> "202", how |-> "unsup"], [key |-> "203", how |-> "dangling"] >>
SeqsUpTo(menu, n) == UNION {[1..k -> {menu[j] : j \in 1..Len(menu)}] : k \in 0..n}
\* responses: strictly increasing menu indices (a JSON object has distinct keys; order = document order)
RespSeqs(n) == {[k \in 1..Len(ix) |-> RMenu[ix[k]]] : ix \in {q \in UNION {[1..k -> 1..Len(RMenu)] : k \in 0..n} : \A a, b \in 1..Len(q) : a < b => q[a] < q[b]}}
BodySeq == <<"json+mpjson", "none", "json", "form", "multi", "octet", "json+unsup", "unsup", "badschema", "json+badschema", "noschema",
             "ref", "refchain", "refcycle", "refdangling">>
MyBodies == {BodySeq[j] : j \in {k \in 1..Len(BodySeq) : k % Parts = Part /\ BodySeq[k] \in Bodies}}
OpsU == [ps : SeqsUpTo(PMenu, MaxParams), pips : SeqsUpTo(PiMenu, 1), body : MyBodies, rs : RespSeqs(MaxResps), pathvar : BOOLEAN]
MCInit == \E o \in OpsU : InitWith(o)
Spec == MCInit /\ [][Next]_vars /\ WF_vars(Next)
RECURSIVE S2Q(_)
S2Q(S) == IF S = {} THEN <<>> ELSE LET x == CHOOSE y \in S : TRUE IN <<x>> \o S2Q(S \ {x})
Emit == (Finished /\ EmitJson) =>
   PrintT(ToJson([op |-> op, result |-> result, accepted |-> accepted, handled |-> S2Q(handled), btypes |-> S2Q(btypes),
                  warns |-> S2Q(warns), shouldfail |-> ShouldFail(op)]))
=============================================================================
