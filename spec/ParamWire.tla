------------------------------ MODULE ParamWire ------------------------------
(***************************************************************************)
(* From an ARGUMENT VALUE of a generated endpoint function to what is on   *)
(* the wire, for one path / query / header / cookie parameter - and for    *)
(* one PROPERTY of a form-urlencoded or multipart request body model       *)
(* ("form": data=body.to_dict(), encoded by httpx; "multipart":            *)
(* files=body.to_multipart(), the per-kind transform_multipart macros)     *)
(* (templates/endpoint_macros.py.jinja: header_params, cookie_params,      *)
(* query_params; endpoint_module.py.jinja: "url".format(...);              *)
(* property_templates/*: transform, transform_header; httpx's own          *)
(* encoders for header values, cookie values and query primitives).        *)
(*                                                                         *)
(*   call -> guarded -> transformed -> encoded                             *)
(*                                                                         *)
(* A PARAMETER is [loc, kind, req, nul, style]; style is the enum style    *)
(* (literal_enums).  An ATOM is one class of value that the parameter's    *)
(* annotation admits (Atoms): the law of C11 quantifies over them, the     *)
(* laws of C03 / C10 over what is placed for each.                         *)
(* OPERATIONAL: PyClass (runtime class of the value), HasHeaderTransform   *)
(* (which property templates define transform_header; a UNION template     *)
(* defines none, so a union's value reaches httpx raw), the guards, the    *)
(* query filter, httpx's encoders.  DECLARATIVE: W1-W3.                    *)
(***************************************************************************)
EXTENDS Naturals, Sequences, FiniteSets, TLC

ParamLocs == {"path", "query", "header", "cookie"}
BodyLocs  == {"form", "multipart", "json"}       \* "json": the value IS the application/json request body (json=<transformed value>)
Locs   == ParamLocs \cup BodyLocs
Kinds  == {"str", "int", "float", "bool", "enum", "enumi", "date", "datetime", "uuid", "list", "listint", "listenum",
           "null", "any", "const", "uis", "model"}
Styles == {"class", "literal"}

\* ---- which parameters the generator accepts (Property.validate_location; a union is allowed where every member is)
BaseAllowed(kind) ==
  IF kind \in {"str", "int", "float", "bool", "enum", "enumi", "uuid", "uis"} THEN ParamLocs
  ELSE IF kind = "null" THEN {"query", "header", "cookie"}
  ELSE {"path", "query", "cookie"}
IsUnion(p) == p.kind = "uis" \/ (p.nul /\ p.kind # "null")
Accepted(p) == IF p.loc = "json" THEN p.req /\ ~(p.kind = "null" /\ p.nul)                 \* a request body is always a mandatory argument
               ELSE IF p.loc \in BodyLocs THEN ~(p.kind = "null" /\ p.nul)              \* a property of a body model: every kind
               ELSE /\ p.loc \in (IF p.nul THEN BaseAllowed(p.kind) \cap BaseAllowed("null") ELSE BaseAllowed(p.kind))
                    /\ (p.loc = "path" => p.req)

\* ---- value classes admitted by the annotation
BaseAtoms(kind) ==
  CASE kind = "str" -> {"s"} [] kind = "int" -> {"i7", "i0"} [] kind = "float" -> {"f15", "fint"} [] kind = "bool" -> {"T", "F"}
    [] kind = "enum" -> {"ea", "eb"} [] kind = "enumi" -> {"e1", "e2"} [] kind = "date" -> {"d"} [] kind = "datetime" -> {"dt"}
    [] kind = "uuid" -> {"u"} [] kind \in {"list", "listint", "listenum"} -> {"l2", "l0"} [] kind = "null" -> {"N"}
    [] kind = "any" -> {"as", "ai"} [] kind = "const" -> {"k"} [] kind = "uis" -> {"i7", "i0", "s"} [] kind = "model" -> {"m"}
Atoms(p) == BaseAtoms(p.kind) \cup (IF p.nul THEN {"N"} ELSE {}) \cup (IF p.req THEN {} ELSE {"U"})

\* ---- runtime class of the argument
PyClass(p, a) ==
  CASE a \in {"s", "as", "k"} -> "str" [] a \in {"i7", "i0", "ai", "fint"} -> "int" [] a = "f15" -> "float" [] a \in {"T", "F"} -> "bool"
    [] a \in {"ea", "eb"} -> (IF p.style = "class" THEN "enumS" ELSE "str")       \* class enums of strings are `class X(str, Enum)`
    [] a \in {"e1", "e2"} -> (IF p.style = "class" THEN "enumI" ELSE "int")       \* class enums of integers are `class X(IntEnum)`
    [] a = "d" -> "date" [] a = "dt" -> "datetime" [] a = "u" -> "uuid" [] a = "l2" -> "list" [] a = "l0" -> "emptylist"
    [] a = "N" -> "none" [] a = "U" -> "unset" [] a = "m" -> "model"

\* property templates that define transform_header (boolean, int, float, enum, literal_enum, uuid, date, datetime)
HasHeaderTransform(p) == ~IsUnion(p) /\ p.kind \in {"int", "float", "bool", "enum", "enumi", "uuid", "date", "datetime"}

Placed(f) == [t |-> "placed", f |-> f]
NotSent   == [t |-> "notsent", f |-> "-"]
Raise     == [t |-> "raise", f |-> "-"]

VARIABLES p, a,         \* the parameter and the atom supplied
          stage,        \* "call" | "guarded" | "transformed" | "encoded"
          v,            \* runtime class of the value as it travels: a PyClass, or "text" after a textual transform, "dict", "skipped"
          out           \* the outcome once encoded
vars == <<p, a, stage, v, out>>

InitWith(pp, aa) == p = pp /\ a = aa /\ stage = "call" /\ v = PyClass(pp, aa) /\ out = [t |-> "pending", f |-> "-"]

\* the guard: header and cookie statements of optional parameters are skipped for UNSET; the query dict is filtered after the transform
Guard == /\ stage = "call" /\ stage' = "guarded"
         /\ v' = IF p.loc \in {"header", "cookie"} /\ ~p.req /\ v = "unset" THEN "skipped" ELSE v
         /\ UNCHANGED <<p, a, out>>

\* the per-kind transform
\* transform_multipart per kind: text parts (str(x) / isoformat()), str(bool), JSON parts for arrays and models, str(None).  (Before the repair
\* recorded in known_findings.json date / date-time / uuid were handed to httpx as bare bytes / str, which it sends as a FILE part called "upload".)
MultipartForm(c) == CASE c \in {"str", "int", "float", "enumS", "enumI", "date", "datetime", "uuid"} -> "text" [] c = "bool" -> "booltext"
                      [] c \in {"list", "emptylist", "model"} -> "jsonpart"
                      [] c = "none" -> "nonetext" [] OTHER -> c
QueryJson(c) == CASE c \in {"date", "datetime", "uuid"} -> "text" [] c = "enumS" -> "str" [] c = "enumI" -> "int"
                  [] c = "model" -> "dict" [] OTHER -> c
Transform ==
  /\ stage = "guarded" /\ stage' = "transformed"
  /\ v' = CASE v = "skipped" -> "skipped"
            [] p.loc \in {"header", "cookie"} -> (IF HasHeaderTransform(p) THEN "text" ELSE v)
            [] p.loc = "json" -> QueryJson(v)                                                           \* the property's `transform` (to_dict / isoformat / .value ...)
            [] p.loc = "form" -> QueryJson(v)                                                           \* to_dict(): the JSON forms, a model stays a dict
            [] p.loc = "multipart" -> MultipartForm(v)
            [] p.loc = "query" -> (IF p.kind = "model" /\ ~IsUnion(p) /\ v = "model" THEN "spread"     \* json_is_dict: params.update(to_dict())
                                   ELSE QueryJson(v))
            [] OTHER -> v                                                                               \* path: no transform, str.format
  /\ UNCHANGED <<p, a, out>>

\* what reaches the wire
Encode ==
  /\ stage = "transformed" /\ stage' = "encoded"
  /\ out' =
      CASE v = "skipped" -> NotSent
        [] p.loc = "header" -> (IF v \in {"text", "str", "enumS"} THEN Placed("canon") ELSE Raise)     \* httpx: header value must be str or bytes
        [] p.loc = "cookie" -> (IF v \in {"text", "str", "enumS"} THEN Placed("canon")
                                ELSE IF v = "none" THEN Placed("bare")                                 \* a cookie without a value
                                ELSE Raise)                                                            \* http.cookiejar wants a string
        [] p.loc = "json"   -> (IF v = "none" THEN NotSent                                              \* httpx reads json=None as "no JSON body": a null body is not sent
                                ELSE Placed("json"))                                                   \* httpx serialises what the transform produced
        [] p.loc = "form"   -> (IF v \in {"unset", "emptylist"} THEN NotSent                             \* the key is left out / no item, no key
                                ELSE IF v = "none" THEN Placed("empty")                                \* httpx writes None as an empty value
                                ELSE IF v = "dict" THEN Placed("pyrepr")                               \* str(dict) of a nested model
                                ELSE Placed("canon"))
        [] p.loc = "multipart" -> (IF v = "unset" THEN NotSent
                                   ELSE IF p.kind \in {"any", "const"} /\ p.nul THEN Raise             \* isinstance(x, Any) / isinstance(x, Literal[...]) in the union dispatch
                                   ELSE CASE v = "text" -> Placed("canon") [] v = "booltext" -> Placed("pycap") [] v = "rawbytes" -> Placed("filepart")
                                          [] v = "jsonpart" -> Placed("json") [] v = "nonetext" -> Placed("nonetext") [] OTHER -> Raise)
        [] p.loc = "query"  -> (IF v \in {"unset", "none", "emptylist"} THEN NotSent                    \* the final dict filter; no item, no key
                                ELSE IF v = "spread" THEN Placed("spread")
                                ELSE IF v = "dict" THEN Placed("pyrepr")                               \* str(dict) of a model inside a union
                                ELSE Placed("canon"))                                                  \* httpx: str(), "true"/"false", repeated keys
        [] OTHER -> (CASE v = "bool" -> Placed("pycap")                                                \* path: str(True)
                       [] v = "datetime" -> Placed("spacedt")                                          \* str(datetime): a space, not "T"
                       [] v \in {"list", "emptylist", "model"} -> Placed("pyrepr")
                       [] OTHER -> Placed("canon"))                                                    \* generated enums define __str__ = str(value)
  /\ UNCHANGED <<p, a, v>>

Next == Guard \/ Transform \/ Encode
Done == stage = "encoded"

\* ------------------------------------------------------------------ laws
\* forms from which a server that decodes per the schema recovers the argument
Recoverable == {"canon", "pycap", "spacedt", "spread", "json", "filepart"}
\* recorded defects of the pinned tree (known_findings.json): the laws are stated for everything else, and KnownExact says the
\* list is not wider than the defects (a repair in the code makes the model drift, which forces this list to shrink)
KnownRejected == /\ a \notin {"U"}
                 /\ \/ (p.loc \in {"header", "cookie"} /\ IsUnion(p) /\ PyClass(p, a) \notin {"str", "enumS"} /\ ~(p.loc = "cookie" /\ a = "N"))
                    \/ (p.loc = "header" /\ a = "N")
                    \/ (p.loc = "cookie" /\ p.kind \in {"list", "listint", "listenum", "model"} /\ a # "N")
                    \/ (p.loc = "multipart" /\ p.kind = "const" /\ p.nul)
KnownGarbage  == \/ (p.loc = "path" /\ p.kind \in {"list", "listint", "listenum", "model"})
                 \/ (p.loc = "query" /\ p.kind = "model" /\ IsUnion(p) /\ a = "m")
                 \/ (p.loc = "form" /\ p.kind = "model" /\ a = "m")
Judged == p.kind # "any"               \* `Any` admits everything; the statement cannot mean that everything is encodable
\* W1 (C11): every value the annotation admits is accepted by the encoder
W1 == (Done /\ Judged /\ ~KnownRejected) => out.t # "raise"
\* W2 (C03): a supplied value is placed in a form that determines it
W2 == (Done /\ Judged /\ ~KnownRejected /\ ~KnownGarbage /\ a \notin {"U", "N"} /\ ~(a = "l0" /\ p.loc # "multipart")) => (out.t = "placed" /\ out.f \in Recoverable)
\* W3 (C10): an omitted optional argument is not transmitted; None is never transmitted as a value in the query
W3 == Done => /\ (a = "U" => out = NotSent)
              /\ ((a = "N" /\ p.loc = "query") => out = NotSent)
              /\ ((a = "N" /\ p.loc \in {"form", "multipart"} /\ Judged /\ ~KnownRejected) => out.t = "placed")        \* a body property that is None is transmitted (as empty / "None"), not dropped
KnownExact == Done => /\ (KnownRejected => out.t = "raise")
                      /\ (KnownGarbage /\ ~KnownRejected /\ a \notin {"U", "N"} => out = Placed("pyrepr"))
Terminates == <>Done
=============================================================================
