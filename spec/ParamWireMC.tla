----------------------------- MODULE ParamWireMC -----------------------------
(* Every accepted parameter [loc, kind, req, nul, style] x every atom its annotation admits; terminal states are emitted as JSON. *)
EXTENDS ParamWire, Json
CONSTANT EmitJson
Params == {q \in [loc : Locs, kind : Kinds, req : BOOLEAN, nul : BOOLEAN, style : Styles] : Accepted(q)}
MCInit == \E q \in Params : \E x \in Atoms(q) : InitWith(q, x)
Spec == MCInit /\ [][Next]_vars /\ WF_vars(Next)
Emit == (Done /\ EmitJson) => PrintT(ToJson([p |-> p, a |-> a, py |-> PyClass(p, a), out |-> out, union |-> IsUnion(p), judged |-> Judged,
                                             knownRejected |-> KnownRejected, knownGarbage |-> KnownGarbage]))
\* the laws WITHOUT the recorded exceptions: TLC refutes them on the model for exactly the recorded classes (design-level counterexamples)
W1Strict == (Done /\ Judged) => out.t # "raise"
W2Strict == (Done /\ Judged /\ a \notin {"U", "N"} /\ ~(a = "l0" /\ p.loc # "multipart")) => (out.t = "placed" /\ out.f \in Recoverable)
=============================================================================
