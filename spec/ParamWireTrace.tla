---------------------------- MODULE ParamWireTrace ----------------------------
(* Code -> spec: observations of real generated endpoint functions                                                              *)
(*   {"tid", "p": [loc, kind, req, nul, style], "a": atom, "t": "placed"|"notsent"|"raise", "f": form class}                     *)
(* are replayed through ParamWire.tla's own actions: each observation starts a behaviour InitWith(p, a), the spec's Guard,       *)
(* Transform and Encode steps run, and the outcome the spec reaches is compared with the observed one (nonconforming ids in      *)
(* register 1).  Register 2 counts consumed observations.                                                                        *)
EXTENDS ParamWire, Json, IOUtils
Obs == ndJsonDeserialize(IOEnv.TRACE_FILE)
VARIABLE l
tvars == <<p, a, stage, v, out, l>>
Load(k) == /\ p' = Obs[k].p /\ a' = Obs[k].a /\ stage' = "call" /\ v' = PyClass(Obs[k].p, Obs[k].a) /\ out' = [t |-> "pending", f |-> "-"]
TraceInit == l = 1 /\ InitWith(Obs[1].p, Obs[1].a)
Step == (Guard \/ Transform \/ Encode) /\ l' = l
Compare == /\ Done /\ l <= Len(Obs)
           /\ LET e == Obs[l] IN
                ((~(Accepted(p) /\ a \in Atoms(p) /\ out = [t |-> e.t, f |-> e.f])) => TLCSet(1, Append(TLCGet(1), e.tid)))
           /\ TLCSet(2, l)
           /\ l' = l + 1
           /\ IF l < Len(Obs) THEN Load(l + 1) ELSE UNCHANGED vars
TraceNext == Step \/ Compare
TraceSpec == TraceInit /\ [][TraceNext]_tvars
Post == PrintT(ToJson([nonconforming |-> TLCGet(1), n |-> Len(Obs), consumed |-> TLCGet(2)]))
ASSUME TLCSet(1, <<>>) /\ TLCSet(2, 0)
=============================================================================
