------------------------------ MODULE Pipeline ------------------------------
(***************************************************************************)
(* The schema pipeline of openapi-python-client as a state machine         *)
(* (parser/properties/__init__.py: _create_schemas, _process_models,       *)
(* _propogate_removal; schemas.py; model_property.py).                     *)
(*                                                                         *)
(* A DOCUMENT is an ordered sequence of component schemas (order matters:  *)
(* the code iterates dicts in document order).  Each schema is an abstract *)
(* SHAPE [name, k, t]: kind k and (for kinds that reference) target t.     *)
(*   obj        object with a primitive property              -> class     *)
(*   objref     object { r: $ref t }                          -> class     *)
(*   objarr     object { r: array of $ref t }                 -> class     *)
(*   objinl     object { i: inline object }                   -> class + inline class *)
(*   allof      allOf[$ref t, inline member]                  -> class     *)
(*   wrap       allOf[$ref t]  (single-reference wrapper)     -> alias of t, no class  *)
(*   arr        array of $ref t                               -> no class  *)
(*   union      oneOf[$ref t, string]                         -> no class  *)
(*   unionarr   oneOf[array of $ref t, string]                -> no class  *)
(*   enum       string enum                                   -> class     *)
(*   prim       string                                        -> no class  *)
(*  faults:                                                                *)
(*   arrnoitems array without items        (fails in the create phase)     *)
(*   enummixed  enum of mixed types        (fails in the create phase)     *)
(*   objbadprop object { b: array without items } (fails in process phase) *)
(*   objbaddef  object { b: integer default "x" } (fails in process phase) *)
(*   objrefbad  object { r: $ref t, b: array without items }  (process)    *)
(*   topref     top-level $ref t           (rejected at once, never retried)*)
(*  a target outside the document ("Z") is a dangling reference.           *)
(*                                                                         *)
(* OPERATIONAL layer: one action per loop iteration / round end / removal, *)
(* mirroring the code (including: errors kept from the last round only,    *)
(* `dependencies` surviving failed attempts, aliases re-processing their   *)
(* target's data with the target's roots, the string test for recursive    *)
(* allOf).  DECLARATIVE layer: Affected = least fixpoint of Bad under the  *)
(* document's own reference graph; laws P1-P3.                             *)
(***************************************************************************)
EXTENDS Naturals, Sequences, FiniteSets, TLC

CONSTANTS Names,      \* names usable in a document, e.g. {"A","B","C"}
          Dangling    \* a name that is never defined, e.g. "Z"

ModelKinds == {"obj", "objref", "objarr", "objinl", "allof", "objbadprop", "objbaddef", "objrefbad"}
RefKinds   == {"objref", "objarr", "allof", "wrap", "arr", "union", "unionarr", "topref", "objrefbad"}
CreateRefKinds == {"arr", "wrap", "union", "unionarr"}     \* need their target when they are CREATED
Kinds      == ModelKinds \cup {"wrap", "arr", "union", "unionarr", "enum", "prim", "arrnoitems", "enummixed", "topref"}

VARIABLES doc,        \* the document: sequence of [name, k, t]
          phase,      \* "create" | "process" | "remove" | "done"
          queue,      \* items still to visit in this round (names)
          nextq,      \* items that failed in this round
          progress,   \* still_making_progress
          round,
          byRef,      \* classes_by_reference: set of names
          cls,        \* classes_by_name: set of <<"m"|"e"|"i", name>>
          toProc,     \* models_to_process: sequence of names (models and aliases of models)
          processed,  \* names whose property lists have been filled
          deps,       \* dependencies: name -> set of roots <<"ref",n>> / <<"cls",n>> / <<"icls",n>>
          errs,       \* names that carry a diagnostic (own error, or listed in a cascade)
          lastErr,    \* errors of the current round (only the last round's are kept)
          failed,     \* models whose removal is pending
          rsize       \* length of the work list at the start of the current round (for the ranking law)
vars == <<doc, phase, queue, nextq, progress, round, byRef, cls, toProc, processed, deps, errs, lastErr, failed, rsize>>

DocNames(d) == {d[i].name : i \in 1..Len(d)}
Shape(d, n) == d[CHOOSE i \in 1..Len(d) : d[i].name = n]
Defined(d, n) == n \in DocNames(d)

\* ------------------------------------------------------------------ document-level notions (no algorithm)
\* the schema an alias chain finally denotes ("" when the chain dangles or cycles)
RECURSIVE ResolveN(_, _, _)
ResolveN(d, n, fuel) ==
  IF ~Defined(d, n) \/ fuel = 0 THEN ""
  ELSE IF Shape(d, n).k = "wrap" THEN ResolveN(d, Shape(d, n).t, fuel - 1) ELSE n
Resolve(d, n) == ResolveN(d, n, Len(d) + 1)
IsObject(d, n) == Resolve(d, n) # "" /\ Shape(d, Resolve(d, n)).k \in ModelKinds
HasClass(d, n) == Shape(d, n).k \in ModelKinds \cup {"enum"}

\* allOf parents (through aliases); a cycle of allOf edges can never be processed ("recursive allOf")
AllofParent(d, n) == IF Shape(d, n).k = "allof" /\ Resolve(d, Shape(d, n).t) # "" THEN {Resolve(d, Shape(d, n).t)} ELSE {}
RECURSIVE AllofReach(_, _, _)
AllofReach(d, S, fuel) == LET T == S \cup UNION {AllofParent(d, m) : m \in S}
                          IN IF T = S \/ fuel = 0 THEN S ELSE AllofReach(d, T, fuel - 1)
AllofCycle(d, n) == Shape(d, n).k = "allof" /\ n \in AllofReach(d, AllofParent(d, n), Len(d))
OwnFault(d, n) == LET s == Shape(d, n) IN
  \/ s.k \in {"arrnoitems", "enummixed", "objbadprop", "objbaddef", "objrefbad", "topref"}
  \/ (s.k \in RefKinds /\ ~Defined(d, s.t))                       \* dangling reference
  \/ (s.k = "allof" /\ Defined(d, s.t) /\ ~IsObject(d, s.t))      \* allOf of a non-object
  \/ AllofCycle(d, n)                                            \* recursive allOf (any cycle length)
  \/ (s.k = "wrap" /\ Resolve(d, n) = "")                         \* wrapper chain that never reaches a schema
NeedsOf(d, n) == IF Shape(d, n).k \in RefKinds /\ Defined(d, Shape(d, n).t) THEN {Shape(d, n).t} ELSE {}
\* "arr" and "wrap" need their target when they are CREATED; a cycle through such edges can never be created
RECURSIVE CreateReach(_, _, _)
CreateReach(d, S, fuel) ==
  LET T == S \cup UNION {NeedsOf(d, n) : n \in {m \in S : Shape(d, m).k \in CreateRefKinds}}
  IN IF T = S \/ fuel = 0 THEN S ELSE CreateReach(d, T, fuel - 1)
CreateCycle(d, n) == Shape(d, n).k \in CreateRefKinds /\ n \in CreateReach(d, NeedsOf(d, n), Len(d))
Bad(d) == {n \in DocNames(d) : OwnFault(d, n) \/ CreateCycle(d, n)}
RECURSIVE Lfp(_, _, _)
Lfp(d, X, fuel) == LET Y == X \cup {n \in DocNames(d) : NeedsOf(d, n) \cap X # {}}
                   IN IF Y = X \/ fuel = 0 THEN X ELSE Lfp(d, Y, fuel - 1)
Affected(d) == Lfp(d, Bad(d), Len(d) + 1)
ExpectedClasses(d) == {n \in DocNames(d) \ Affected(d) : HasClass(d, n)}

\* ------------------------------------------------------------------ operational layer
Roots(n) == {<<"ref", n>>, <<"cls", n>>}
AddDeps(dp, t, rs) == [dp EXCEPT ![t] = @ \cup rs]

InitWith(d) ==
  /\ doc = d /\ phase = "create" /\ queue = [i \in 1..Len(d) |-> d[i].name] /\ nextq = <<>>
  /\ progress = FALSE /\ round = 1 /\ byRef = {} /\ cls = {} /\ toProc = <<>> /\ processed = {}
  /\ deps = [n \in Names \cup {Dangling} |-> {}] /\ errs = {} /\ lastErr = {} /\ failed = <<>> /\ rsize = Len(d)

\* ---- one update_schemas_with_data attempt
CreateOutcome(n) == LET s == Shape(doc, n) IN
  CASE s.k \in ModelKinds -> "model"
    [] s.k = "enum" -> "enum"
    [] s.k = "prim" -> "plain"
    [] s.k \in {"wrap", "arr"} -> IF s.t \in byRef THEN s.k ELSE "fail"
    [] s.k \in {"union", "unionarr"} -> IF s.t \in byRef THEN "union" ELSE "fail"
    [] s.k \in {"arrnoitems", "enummixed"} -> "fail"
    [] OTHER -> "topref"

CreateTry ==
  /\ phase = "create" /\ queue # <<>>
  /\ LET n == Head(queue)  s == Shape(doc, n)  o == CreateOutcome(n) IN
     /\ queue' = Tail(queue)
     /\ CASE o = "topref" -> /\ errs' = errs \cup {n}                  \* recorded at once, never retried
                             /\ UNCHANGED <<nextq, progress, byRef, cls, toProc, deps, lastErr>>
          [] o = "fail"   -> /\ nextq' = Append(nextq, n) /\ lastErr' = lastErr \cup {n}
                             /\ UNCHANGED <<progress, byRef, cls, toProc, deps, errs>>
          [] o = "model"  -> /\ byRef' = byRef \cup {n} /\ cls' = cls \cup {<<"m", n>>} /\ toProc' = Append(toProc, n)
                             /\ progress' = TRUE /\ UNCHANGED <<nextq, deps, errs, lastErr>>
          [] o = "enum"   -> /\ byRef' = byRef \cup {n} /\ cls' = cls \cup {<<"e", n>>} /\ progress' = TRUE
                             /\ UNCHANGED <<nextq, toProc, deps, errs, lastErr>>
          [] o = "plain"  -> /\ byRef' = byRef \cup {n} /\ progress' = TRUE
                             /\ UNCHANGED <<nextq, cls, toProc, deps, errs, lastErr>>
          [] o = "arr"    -> /\ byRef' = byRef \cup {n} /\ deps' = AddDeps(deps, s.t, {<<"ref", n>>}) /\ progress' = TRUE
                             /\ UNCHANGED <<nextq, cls, toProc, errs, lastErr>>
          [] o = "union"  -> /\ byRef' = byRef \cup {n} /\ deps' = AddDeps(deps, s.t, {<<"ref", n>>}) /\ progress' = TRUE
                             /\ UNCHANGED <<nextq, cls, toProc, errs, lastErr>>
          [] o = "wrap"   -> /\ byRef' = byRef \cup {n} /\ deps' = AddDeps(deps, s.t, {<<"ref", n>>}) /\ progress' = TRUE
                             \* an alias of a model is queued for processing too (its properties still need resolving)
                             /\ toProc' = IF IsObject(doc, s.t) THEN Append(toProc, n) ELSE toProc
                             /\ UNCHANGED <<nextq, cls, errs, lastErr>>
  /\ UNCHANGED <<doc, phase, round, processed, failed, rsize>>

CreateRoundEnd ==
  /\ phase = "create" /\ queue = <<>>
  /\ IF progress
       THEN /\ queue' = nextq /\ nextq' = <<>> /\ progress' = FALSE /\ lastErr' = {} /\ round' = round + 1
            /\ rsize' = Len(nextq) /\ UNCHANGED <<phase, errs>>
       ELSE /\ phase' = "process" /\ errs' = errs \cup lastErr /\ queue' = toProc /\ nextq' = <<>>
            /\ progress' = FALSE /\ lastErr' = {} /\ round' = 1 /\ rsize' = Len(toProc)
  /\ UNCHANGED <<doc, byRef, cls, toProc, processed, deps, failed>>

\* ---- one process_model attempt.  An alias re-processes the data of the schema it denotes, with that schema's roots.
Subject(n) == Resolve(doc, n)
\* An ALIAS (the copy made for a single-reference wrapper) takes over the property data of the model it denotes once that model
\* has been processed, and waits for it otherwise (since the repair of the alias-of-inline defect: it used to re-process the
\* same data and trip over the inline class it had already registered).
IsAlias(n) == Shape(doc, n).k = "wrap"
ProcOutcome(n) == LET u == Subject(n)  s == Shape(doc, u) IN
  IF IsAlias(n) THEN (IF u \in processed THEN "ok" ELSE "retry") ELSE
  CASE s.k = "obj" -> "ok"
    [] s.k = "objinl" -> IF <<"i", u>> \in cls THEN "retry" ELSE "ok"
    [] s.k \in {"objref", "objarr"} -> IF s.t \in byRef THEN "ok" ELSE "retry"
    [] s.k \in {"objbadprop", "objbaddef", "objrefbad"} -> "retry"
    [] s.k = "allof" ->
         IF s.t \notin byRef THEN "retry"                                   \* "Reference ... not found"
         ELSE IF ~IsObject(doc, s.t) THEN "retry"                           \* "Cannot take allOf a non-object"
         ELSE IF s.t \in processed THEN "ok"
         ELSE IF s.t = u THEN "final"                                       \* "...was not processed" + ref ends with own class name
         ELSE "retry"
    [] OTHER -> "retry"

ProcessTry ==
  /\ phase = "process" /\ queue # <<>>
  /\ LET n == Head(queue)  u == Subject(n)  s == Shape(doc, u)  o == ProcOutcome(n) IN
     /\ queue' = Tail(queue)
     /\ CASE o = "ok" ->
               /\ processed' = processed \cup {n} /\ progress' = TRUE
               /\ cls' = IF s.k = "objinl" THEN cls \cup {<<"i", u>>} ELSE cls
               /\ deps' = IF s.k \in {"objref", "objarr", "allof"} THEN AddDeps(deps, s.t, Roots(u))
                          ELSE IF s.k = "objinl" THEN AddDeps(deps, u, {<<"icls", u>>}) ELSE deps
               /\ UNCHANGED <<nextq, lastErr, failed>>
          [] o = "final" ->
               /\ failed' = Append(failed, n)
               /\ UNCHANGED <<nextq, lastErr, processed, progress, cls, deps>>
          [] OTHER ->
               /\ nextq' = Append(nextq, n) /\ lastErr' = lastErr \cup {n}
               \* `dependencies` is mutated in place: additions made before the failure survive the failed attempt
               /\ deps' = IF s.k = "objrefbad" /\ s.t \in byRef THEN AddDeps(deps, s.t, Roots(u)) ELSE deps
               /\ UNCHANGED <<processed, progress, cls, failed>>
  /\ UNCHANGED <<doc, phase, round, byRef, toProc, errs, rsize>>

RECURSIVE SeqOfSet(_)
SeqOfSet(S) == IF S = {} THEN <<>> ELSE LET x == CHOOSE y \in S : TRUE IN <<x>> \o SeqOfSet(S \ {x})

ProcessRoundEnd ==
  /\ phase = "process" /\ queue = <<>>
  /\ IF progress
       THEN /\ queue' = nextq /\ nextq' = <<>> /\ progress' = FALSE /\ lastErr' = {} /\ round' = round + 1
            /\ rsize' = Len(nextq) /\ UNCHANGED <<phase, failed>>
       ELSE /\ phase' = "remove" /\ failed' = failed \o nextq /\ queue' = <<>> /\ nextq' = <<>>
            /\ progress' = FALSE /\ lastErr' = {} /\ round' = 1 /\ rsize' = 0
  /\ UNCHANGED <<doc, byRef, cls, toProc, processed, deps, errs>>

\* ---- _process_model_errors: for each failed model, _propogate_removal over its roots (closure through `deps`)
RECURSIVE Cascade(_, _, _)
\* todo: set of roots still to visit; br: byRef so far; acc: [refs removed, classes removed]
Cascade(todo, br, acc) ==
  IF todo = {} THEN acc
  ELSE LET r == CHOOSE x \in todo : TRUE IN
    IF r[1] # "ref" THEN Cascade(todo \ {r}, br, [acc EXCEPT !.c = @ \cup {r}])
    ELSE IF r[2] \in br
         THEN Cascade((todo \ {r}) \cup deps[r[2]], br \ {r[2]}, [acc EXCEPT !.r = @ \cup {r[2]}])
         ELSE Cascade(todo \ {r}, br, acc)

ClassOf(root) == IF root[1] = "cls" THEN <<"m", root[2]>> ELSE <<"i", root[2]>>

RemoveOne ==
  /\ phase = "remove" /\ failed # <<>>
  /\ LET n == Head(failed)  u == Subject(n)
         res == Cascade(Roots(u), byRef, [r |-> {}, c |-> {}]) IN
     /\ byRef' = byRef \ res.r
     /\ cls' = cls \ {ClassOf(x) : x \in res.c}
     /\ errs' = errs \cup {n} \cup res.r            \* the error names the schema and lists every removed reference
     /\ failed' = Tail(failed)
  /\ UNCHANGED <<doc, phase, queue, nextq, progress, round, toProc, processed, deps, lastErr, rsize>>

Finish ==
  /\ phase = "remove" /\ failed = <<>>
  /\ phase' = "done"
  /\ UNCHANGED <<doc, queue, nextq, progress, round, byRef, cls, toProc, processed, deps, errs, lastErr, failed, rsize>>

Next == CreateTry \/ CreateRoundEnd \/ ProcessTry \/ ProcessRoundEnd \/ RemoveOne \/ Finish

\* ------------------------------------------------------------------ formerly a known design defect
\* A single-reference wrapper (alias) of an object schema that has an inline object property used to remove both with a spurious
\* "duplicate models" diagnostic although the document is valid; the laws below excluded such documents.  Repaired in the code
\* (process_model takes over the data of the registered model); the predicate is kept, constantly FALSE, so that the laws read as before.
AliasOfInline(d) == FALSE

\* ------------------------------------------------------------------ laws
Generated == {c[2] : c \in {x \in cls : x[1] \in {"m", "e"}}}
\* P2 census: every schema that describes an object or an enumeration has a class or a diagnostic
Census == phase = "done" => \A n \in DocNames(doc) : HasClass(doc, n) => (n \in Generated \/ n \in errs)
\* P3 containment: exactly the unaffected classes are generated, every affected schema is diagnosed ...
Containment == phase = "done" => /\ AliasOfInline(doc) \/ Generated = ExpectedClasses(doc)
                                 /\ Generated \subseteq ExpectedClasses(doc)
                                 /\ Affected(doc) \subseteq errs
\* ... no diagnostic without a cause, and nothing that remains refers to anything removed
NoFalseAlarm == phase = "done" => AliasOfInline(doc) \/ errs \subseteq Affected(doc)
ImportsClosed == phase = "done" =>
   \A n \in Generated : \A t \in NeedsOf(doc, n) : (HasClass(doc, Resolve(doc, t)) => Resolve(doc, t) \in Generated) /\ t \in byRef
InlineFollowsOwner == phase = "done" => \A c \in cls : c[1] = "i" => c[2] \in Generated
\* P1: each extra round strictly shrinks the work list (ranking function of the two fixpoints)
RoundRanks == [][(phase' = phase /\ round' = round + 1) => rsize' < rsize]_vars
RoundsBounded == round <= Len(doc) + 2
Terminates == <>(phase = "done")
=============================================================================
