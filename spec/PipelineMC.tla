----------------------------- MODULE PipelineMC -----------------------------
(* Bounded universe of documents for Pipeline.tla + JSON emission of each terminal state (spec -> code replay). *)
EXTENDS Pipeline, Json
CONSTANTS NNames,     \* number of component schemas (document order = AllNames order)
          KindsNoT,   \* kinds without a target used in this run
          KindsT,     \* kinds with a target used in this run
          Part, Parts,\* this JVM explores the documents whose first shape has index = Part (mod Parts)
          EmitJson
AllNames == <<"Alpha", "Beta", "Gamma", "Delta">>
NameSeq == SubSeq(AllNames, 1, NNames)
Targets == {NameSeq[i] : i \in 1..Len(NameSeq)} \cup {Dangling}
MenuSet == [k : KindsNoT, t : {""}] \cup [k : KindsT, t : Targets]
MenuSeq == SeqOfSet(MenuSet)
FirstMenu == {MenuSeq[i] : i \in {j \in 1..Len(MenuSeq) : j % Parts = Part}}
Docs == {[i \in 1..Len(NameSeq) |-> [name |-> NameSeq[i], k |-> f[i].k, t |-> f[i].t]] :
            f \in {g \in [1..Len(NameSeq) -> MenuSet] : g[1] \in FirstMenu}}
MCInit == \E d \in Docs : InitWith(d)
Spec == MCInit /\ [][Next]_vars /\ WF_vars(Next)
SetToSeq(S) == SeqOfSet(S)
Emit == (phase = "done" /\ EmitJson) =>
   PrintT(ToJson([doc |-> doc, gen |-> SetToSeq(Generated), inl |-> SetToSeq({c[2] : c \in {x \in cls : x[1] = "i"}}),
                  errs |-> SetToSeq(errs), byref |-> SetToSeq(byRef), aff |-> SetToSeq(Affected(doc)), bad |-> SetToSeq(Bad(doc))]))
=============================================================================
