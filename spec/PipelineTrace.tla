--------------------------- MODULE PipelineTrace ---------------------------
(***************************************************************************)
(* Code -> spec: traces recorded from the REAL schema pipeline (guarded    *)
(* hooks, OPC_VERIF_TRACE) validated against Pipeline.tla.                 *)
(*                                                                         *)
(* The file holds many traces (field tid).  Each starts with a "doc" event *)
(* carrying the abstract document; shapes of kind "opaque" are schemas     *)
(* outside the spec's vocabulary (repository documents, corrupted nodes):  *)
(* for them the outcome of an attempt is whatever was logged, but every    *)
(* protocol law is still checked.                                          *)
(*                                                                         *)
(* STRICT: for known shapes the logged outcome of each attempt must be the *)
(* one Pipeline.tla's operational layer computes from the current state.   *)
(* LENIENT: the state is then advanced by ADOPTING the logged projection,  *)
(* so the declarative laws keep being evaluated on what the code did.      *)
(* Verdicts are total: registers 1 (non-conforming = drift), 2 (law        *)
(* failures = violations), 3 (rejected: protocol/order broken).            *)
(***************************************************************************)
EXTENDS Pipeline, Json, IOUtils, TLCExt
TraceLog == ndJsonDeserialize(IOEnv.TRACE_FILE)
VARIABLES l,        \* next line
          mode,     \* "idle" | "run" | "skip"  (skip: rest of this trace ignored after a rejection)
          tid,
          okThis,   \* some attempt succeeded in the current round (the code's still_making_progress)
          pre       \* byRef / cls right before the removal phase
tvars == <<vars, l, mode, tid, okThis, pre>>

ToSet(s) == {s[i] : i \in 1..Len(s)}
Known(n) == Defined(doc, n) /\ Shape(doc, n).k # "opaque"
AllKnown == \A i \in 1..Len(doc) : doc[i].k # "opaque"
Flag(reg, why) == TLCSet(reg, Append(TLCGet(reg), <<tid, l, why>>))
IsEv(e) == l <= Len(TraceLog) /\ TraceLog[l].ev = e

\* ---- a new trace starts
TDoc ==
  /\ IsEv("doc")
  /\ (mode = "run") => Flag(2, "pipeline did not reach schemas_done (crash or rejection inside the pipeline)")
  /\ LET e == TraceLog[l] IN
     /\ doc' = e.doc /\ phase' = "create" /\ queue' = [i \in 1..Len(e.doc) |-> e.doc[i].name] /\ nextq' = <<>>
     /\ progress' = FALSE /\ round' = 1 /\ byRef' = {} /\ cls' = {} /\ toProc' = <<>> /\ processed' = {}
     /\ deps' = [n \in {} |-> {}] /\ errs' = {} /\ lastErr' = {} /\ failed' = <<>> /\ rsize' = Len(e.doc)
     /\ mode' = "run" /\ tid' = e.tid /\ okThis' = FALSE /\ pre' = [r |-> {}, c |-> {}]
  /\ l' = l + 1

\* after a rejection the rest of that trace is ignored; after schemas_done later events (dependencies registered while
\* endpoints are parsed) belong to other engines
Skip == /\ l <= Len(TraceLog) /\ TraceLog[l].ev # "doc" /\ mode \in {"skip", "idle"} /\ l' = l + 1
        /\ UNCHANGED <<vars, mode, tid, okThis, pre>>

Reject(why) == /\ Flag(3, why) /\ mode' = "skip" /\ l' = l + 1 /\ UNCHANGED <<vars, tid, okThis, pre>>

OutClass(o) == IF o \in {"model", "enum", "plain", "arr", "wrap", "union"} THEN "ok" ELSE o

TCreateTry ==
  /\ IsEv("create_try") /\ mode = "run"
  /\ LET e == TraceLog[l]  n == e.name IN
     IF ~(phase = "create" /\ queue # <<>> /\ Head(queue) = n) THEN Reject("create_try out of order")
     ELSE
       /\ (Known(n) /\ AllKnown /\ OutClass(CreateOutcome(n)) # e.outcome) => Flag(1, "create outcome")
       /\ queue' = Tail(queue)
       /\ CASE e.outcome = "topref" -> /\ errs' = errs \cup {n}
                                       /\ UNCHANGED <<nextq, byRef, cls, toProc, lastErr, okThis>>
            [] e.outcome = "fail"   -> /\ nextq' = Append(nextq, n) /\ lastErr' = lastErr \cup {n}
                                       /\ UNCHANGED <<byRef, cls, toProc, errs, okThis>>
            [] OTHER ->
                 /\ byRef' = ToSet(e.by_ref) /\ cls' = ToSet(e.cls) /\ toProc' = e.to_proc /\ okThis' = TRUE
                 \* protocol laws of a successful attempt
                 /\ (n \notin ToSet(e.by_ref) \/ ~(byRef \subseteq ToSet(e.by_ref))) => Flag(2, "create ok but not registered / lost entries")
                 /\ UNCHANGED <<nextq, errs, lastErr>>
       /\ mode' = mode /\ l' = l + 1
       /\ UNCHANGED <<doc, phase, progress, round, processed, deps, failed, rsize, tid, pre>>

TCreateRound ==
  /\ IsEv("create_round") /\ mode = "run"
  /\ LET e == TraceLog[l] IN
     IF ~(phase = "create" /\ queue = <<>>) THEN Reject("create_round with work left")
     ELSE
       /\ (e.progress # okThis) => Flag(2, "progress flag differs from what happened in the round")
       /\ (e.remaining # nextq) => Flag(2, "next round's work list is not the failures of this round")
       /\ (e.progress /\ ~(Len(nextq) < rsize)) => Flag(2, "round made progress but the work list did not shrink")
       /\ IF e.progress
            THEN /\ queue' = nextq /\ nextq' = <<>> /\ lastErr' = {} /\ round' = round + 1 /\ rsize' = Len(nextq)
                 /\ UNCHANGED <<phase, errs>>
            ELSE /\ phase' = "process" /\ errs' = errs \cup lastErr /\ queue' = toProc /\ nextq' = <<>>
                 /\ lastErr' = {} /\ round' = 1 /\ rsize' = Len(toProc)
       /\ okThis' = FALSE /\ mode' = mode /\ l' = l + 1
       /\ UNCHANGED <<doc, progress, byRef, cls, toProc, processed, deps, failed, tid, pre>>

TProcessTry ==
  /\ IsEv("process_try") /\ mode = "run"
  /\ LET e == TraceLog[l]  n == e.name IN
     IF ~(phase = "process" /\ queue # <<>> /\ Head(queue) = n) THEN Reject("process_try out of order")
     ELSE
       /\ (Known(n) /\ AllKnown /\ ProcOutcome(n) # e.outcome) => Flag(1, "process outcome")
       /\ queue' = Tail(queue)
       /\ CASE e.outcome = "ok"    -> /\ processed' = processed \cup {n} /\ cls' = ToSet(e.cls) /\ okThis' = TRUE
                                      /\ (~(cls \subseteq ToSet(e.cls))) => Flag(2, "a successful process_model lost classes")
                                      /\ UNCHANGED <<nextq, lastErr, failed>>
            [] e.outcome = "final" -> /\ failed' = Append(failed, n) /\ UNCHANGED <<nextq, lastErr, processed, cls, okThis>>
            [] OTHER               -> /\ nextq' = Append(nextq, n) /\ lastErr' = lastErr \cup {n}
                                      /\ UNCHANGED <<processed, cls, failed, okThis>>
       /\ mode' = mode /\ l' = l + 1
       /\ UNCHANGED <<doc, phase, progress, round, byRef, toProc, deps, errs, rsize, tid, pre>>

TProcessRound ==
  /\ IsEv("process_round") /\ mode = "run"
  /\ LET e == TraceLog[l] IN
     IF ~(phase = "process" /\ queue = <<>>) THEN Reject("process_round with work left")
     ELSE
       /\ (e.progress # okThis) => Flag(2, "progress flag differs from what happened in the round")
       /\ (e.remaining # nextq) => Flag(2, "next round's work list is not the failures of this round")
       /\ (e.progress /\ ~(Len(nextq) < rsize)) => Flag(2, "round made progress but the work list did not shrink")
       /\ IF e.progress
            THEN /\ queue' = nextq /\ nextq' = <<>> /\ lastErr' = {} /\ round' = round + 1 /\ rsize' = Len(nextq)
                 /\ UNCHANGED <<phase, failed>>
            ELSE /\ phase' = "remove" /\ failed' = failed \o nextq /\ queue' = <<>> /\ nextq' = <<>>
                 /\ lastErr' = {} /\ round' = 1 /\ rsize' = 0
       /\ okThis' = FALSE /\ mode' = mode /\ l' = l + 1
       /\ UNCHANGED <<doc, progress, byRef, cls, toProc, processed, deps, errs, tid, pre>>

\* dependencies are adopted from the log (the graph the removal cascade must follow)
DepsGet(dp, t) == IF t \in DOMAIN dp THEN dp[t] ELSE {}
TDep ==
  /\ IsEv("dep") /\ mode = "run"
  /\ LET e == TraceLog[l] IN deps' = [t \in DOMAIN deps \cup {e.ref} |-> IF t = e.ref THEN DepsGet(deps, t) \cup ToSet(e.roots) ELSE deps[t]]
  /\ l' = l + 1
  /\ UNCHANGED <<doc, phase, queue, nextq, progress, round, byRef, cls, toProc, processed, errs, lastErr, failed, rsize, mode, tid, okThis, pre>>

TRemoveBegin ==
  /\ IsEv("remove_begin") /\ mode = "run"
  /\ LET e == TraceLog[l] IN
     IF phase # "remove" THEN Reject("remove_begin before the process fixpoint ended")
     ELSE /\ ([i \in 1..Len(e.failed) |-> e.failed[i].name] # failed) => Flag(2, "models handed to removal are not the failed ones")
          /\ (AllKnown /\ \E i \in 1..Len(e.failed) : ToSet(e.failed[i].roots) # Roots(Subject(e.failed[i].name))) => Flag(1, "roots of a failed model")
          /\ pre' = [r |-> byRef, c |-> cls, roots |-> UNION {ToSet(e.failed[i].roots) : i \in 1..Len(e.failed)}]
          /\ mode' = mode /\ l' = l + 1 /\ UNCHANGED <<vars, tid, okThis>>

TRemove ==   \* single _propogate_removal steps: stuttering w.r.t. the spec (RemoveOne is the closure), checked at the end
  /\ IsEv("remove") /\ mode = "run" /\ l' = l + 1 /\ UNCHANGED <<vars, mode, tid, okThis, pre>>

\* closure of the failed roots through the LOGGED dependency graph
RECURSIVE TCascade(_, _, _)
TCascade(todo, br, acc) ==
  IF todo = {} THEN acc
  ELSE LET r == CHOOSE x \in todo : TRUE IN
    IF r[1] # "ref" THEN TCascade(todo \ {r}, br, [acc EXCEPT !.c = @ \cup {r}])
    ELSE IF r[2] \in br THEN TCascade((todo \ {r}) \cup DepsGet(deps, r[2]), br \ {r[2]}, [acc EXCEPT !.r = @ \cup {r[2]}])
         ELSE TCascade(todo \ {r}, br, acc)
ClsOfRoot(r) == IF r[1] = "cls" THEN {<<"m", r[2]>>, <<"e", r[2]>>, <<"x", r[2]>>} ELSE IF r[1] = "icls" THEN {<<"i", r[2]>>} ELSE {<<"x", r[2]>>}

TDone ==
  /\ IsEv("schemas_done") /\ mode = "run"
  /\ LET e == TraceLog[l]
         fr == ToSet(e.by_ref)   fc == ToSet(e.cls)
         exp == TCascade(pre.roots, pre.r, [r |-> {}, c |-> {}])
         gen == {c[2] : c \in {x \in fc : x[1] \in {"m", "e"}}}
     IN
     IF phase # "remove" THEN Reject("schemas_done before removal")
     ELSE
       \* R1/R2: exactly the closure of the failed roots is removed - nothing more (isolation), nothing less (no dangling survivor)
       /\ (~(fr \subseteq pre.r)) => Flag(2, "references appeared during the removal phase")
       /\ (pre.r \ fr # exp.r) => Flag(2, "removed references are not the dependency closure of the failed models")
       /\ (~(fc \subseteq pre.c) \/ ~((pre.c \ fc) \subseteq UNION {ClsOfRoot(r) : r \in exp.c})) => Flag(2, "classes removed outside the cascade")
       /\ (\E r \in exp.c : ClsOfRoot(r) \cap fc # {}) => Flag(2, "a class of a removed model survived")
       \* declarative laws of Pipeline.tla on what the code really produced (known vocabulary only)
       /\ (AllKnown /\ ~AliasOfInline(doc) /\ gen # ExpectedClasses(doc)) => Flag(2, "generated classes differ from Items minus Affected")
       /\ (AllKnown /\ ~(gen \subseteq ExpectedClasses(doc))) => Flag(2, "an affected class was generated")
       /\ byRef' = fr /\ cls' = fc /\ phase' = "done" /\ failed' = <<>>
       /\ mode' = "idle" /\ l' = l + 1
       /\ UNCHANGED <<doc, queue, nextq, progress, round, toProc, processed, deps, errs, lastErr, rsize, tid, okThis, pre>>

Unknown == /\ l <= Len(TraceLog) /\ mode = "run"
           /\ TraceLog[l].ev \notin {"doc", "create_try", "create_round", "process_try", "process_round", "dep", "remove_begin", "remove", "schemas_done"}
           /\ Reject("unknown event")

TInit == /\ l = 1 /\ mode = "idle" /\ tid = 0 /\ okThis = FALSE /\ pre = [r |-> {}, c |-> {}]
         /\ doc = <<>> /\ phase = "done" /\ queue = <<>> /\ nextq = <<>> /\ progress = FALSE /\ round = 1 /\ byRef = {}
         /\ cls = {} /\ toProc = <<>> /\ processed = {} /\ deps = [n \in {} |-> {}] /\ errs = {} /\ lastErr = {}
         /\ failed = <<>> /\ rsize = 0
TNext == TDoc \/ Skip \/ TCreateTry \/ TCreateRound \/ TProcessTry \/ TProcessRound \/ TDep \/ TRemoveBegin \/ TRemove \/ TDone \/ Unknown
TSpec == TInit /\ [][TNext]_tvars
\* a trace that stops before schemas_done (crash / hang of the pipeline) leaves mode = "run" at the end or at the next doc
Unfinished == IsEv("doc") /\ mode = "run"
Post == PrintT(ToJson([drift |-> TLCGet(1), law |-> TLCGet(2), rejected |-> TLCGet(3), n |-> Len(TraceLog),
                       consumed |-> TLCGet("stats").diameter - 1]))
ASSUME TLCSet(1, <<>>) /\ TLCSet(2, <<>>) /\ TLCSet(3, <<>>)
=============================================================================
