---------------------------- MODULE PostHooks ----------------------------
(* The post-hook list (`post_hooks` in the configuration file; C16 "the post-hook list affects only the files it is documented to       *)
(* affect", C06 "a failure is a diagnostic"): Project._run_post_hooks runs the commands IN ORDER in the project directory; a command     *)
(* whose program is not on PATH is skipped with a WARNING, a command that exits non-zero yields an ERROR, and in both cases the          *)
(* remaining hooks still run.  One behaviour = one list of hook kinds stepped through one Step action per hook (as the code's loop).     *)
(* Laws (declarative, against the operational loop):                                                                                   *)
(*   H1 every hook whose program exists ran exactly once, in list order - also after a failing or missing one                          *)
(*   H2 exactly one diagnostic per missing (WARNING) / failing (ERROR) hook, in list order, none for a succeeding hook                 *)
(*   H3 the run reports failure (exit status) iff some hook failed; missing hooks alone do not fail it                                 *)
EXTENDS Naturals, Sequences, FiniteSets, TLC, Json
CONSTANT MaxLen
Kinds == {"ok", "missing", "fail"}
Lists == UNION {[1..n -> Kinds] : n \in 0..MaxLen}

VARIABLES hooks, i, log, diags
vars == <<hooks, i, log, diags>>

Init == hooks \in Lists /\ i = 1 /\ log = <<>> /\ diags = <<>>

\* one iteration of the loop in _run_post_hooks / _run_command
StepLog(h, k, lg)   == IF h[k] = "missing" THEN lg ELSE Append(lg, k)
StepDiags(h, k, dg) == CASE h[k] = "missing" -> Append(dg, [level |-> "WARNING", idx |-> k])
                         [] h[k] = "fail"    -> Append(dg, [level |-> "ERROR", idx |-> k])
                         [] OTHER            -> dg
Step == /\ i <= Len(hooks)
        /\ log' = StepLog(hooks, i, log) /\ diags' = StepDiags(hooks, i, diags)
        /\ i' = i + 1 /\ UNCHANGED hooks
Next == Step
Spec == Init /\ [][Next]_vars

Done   == i = Len(hooks) + 1
Failed == \E d \in 1..Len(diags) : diags[d].level = "ERROR"

\* declarative expectations
RECURSIVE Filter(_, _, _)
Filter(h, k, Ks) == IF k > Len(h) THEN <<>> ELSE (IF h[k] \in Ks THEN <<k>> ELSE <<>>) \o Filter(h, k + 1, Ks)
ExpLog(h)   == Filter(h, 1, {"ok", "fail"})
ExpDiags(h) == LET ks == Filter(h, 1, {"missing", "fail"}) IN [j \in 1..Len(ks) |-> [level |-> IF h[ks[j]] = "missing" THEN "WARNING" ELSE "ERROR", idx |-> ks[j]]]
ExpFailed(h) == \E k \in 1..Len(h) : h[k] = "fail"

H1 == Done => log = ExpLog(hooks)
H2 == Done => diags = ExpDiags(hooks)
H3 == Done => (Failed <=> ExpFailed(hooks))
\* prefix monotonicity while running: what ran / was reported so far is never taken back
Mono == [][\A k \in 1..Len(log) : log'[k] = log[k]]_vars
TypeOK == i \in 1..(Len(hooks) + 1) /\ Len(log) <= Len(hooks) /\ Len(diags) <= Len(hooks)

Emit == Done => PrintT(ToJson([hooks |-> hooks, log |-> log, diags |-> diags, failed |-> Failed]))
=============================================================================
