---------------------------- MODULE PostHooksTrace ----------------------------
(* Code -> spec: one real generation per hook list {"tid", "hooks", "log", "diags", "failed", "tree_same"}; register 1 = the real log /    *)
(* diagnostics / status are not what the operational loop of PostHooks.tla gives (H1-H3 on the REAL outcome), register 2 = the generated  *)
(* files differ from a generation without hooks although every hook only appends to its log file (confinement).                           *)
EXTENDS PostHooks, IOUtils
Obs == ndJsonDeserialize(IOEnv.TRACE_FILE)
VARIABLE l
TInit == l = 1 /\ hooks = <<>> /\ i = 1 /\ log = <<>> /\ diags = <<>>
RECURSIVE RunLog(_, _, _), RunDiags(_, _, _)
RunLog(h, k, lg)   == IF k > Len(h) THEN lg ELSE RunLog(h, k + 1, StepLog(h, k, lg))
RunDiags(h, k, dg) == IF k > Len(h) THEN dg ELSE RunDiags(h, k + 1, StepDiags(h, k, dg))
Conforms(e) == /\ e.log = RunLog(e.hooks, 1, <<>>) /\ e.log = ExpLog(e.hooks)
               /\ e.diags = RunDiags(e.hooks, 1, <<>>) /\ e.diags = ExpDiags(e.hooks)
               /\ e.failed = ExpFailed(e.hooks)
TNext == /\ l <= Len(Obs)
         /\ ((~Conforms(Obs[l])) => TLCSet(1, Append(TLCGet(1), Obs[l].tid)))
         /\ ((~Obs[l].tree_same) => TLCSet(2, Append(TLCGet(2), Obs[l].tid)))
         /\ l' = l + 1 /\ UNCHANGED vars
TSpec == TInit /\ [][TNext]_<<l, vars>>
Post == PrintT(ToJson([nonconforming |-> TLCGet(1), touched |-> TLCGet(2), n |-> Len(Obs), consumed |-> TLCGet("stats").diameter - 1]))
ASSUME TLCSet(1, <<>>) /\ TLCSet(2, <<>>)
=============================================================================
