------------------------------- MODULE RefWalk -------------------------------
(***************************************************************************)
(* Following `$ref` between the entries of ONE components section.         *)
(*                                                                         *)
(* A section is a graph g: every name maps to another name of the section  *)
(* (the entry is itself a Reference), to "obj" (a real object) or to "Z"   *)
(* (a name the section does not have).  The use site references "A".       *)
(*                                                                         *)
(* OPERATIONAL, one action per loop iteration of the code:                 *)
(*   Mode = "walk"    parser/bodies.py _resolve_reference: follow          *)
(*                    references while the $ref was not seen before;       *)
(*                    still a Reference afterwards -> "circular",          *)
(*                    a name that is not there -> "dangling"               *)
(*   Mode = "onehop"  parser/responses.py response_from_data and           *)
(*                    build_parameters/parameter_from_reference: one       *)
(*                    lookup; an entry that is itself a Reference is       *)
(*                    refused ("nested"), a missing one is "dangling"      *)
(*   Mode = "fixpoint" components/schemas: an alias entry is resolved by   *)
(*                    the retry loop of _create_schemas once its target    *)
(*                    is; the loop stops when a round resolves nothing     *)
(* DECLARATIVE: Reach (the forward chain from "A") decides the outcome;    *)
(* every walk terminates within Cardinality(Names) + 1 steps (Rank).       *)
(***************************************************************************)
EXTENDS Naturals, FiniteSets, Sequences, TLC
CONSTANTS Names, Mode
Targets == Names \cup {"obj", "Z"}
VARIABLES g, cur, seen, out, steps
vars == <<g, cur, seen, out, steps>>

Init == /\ g \in [Names -> Targets] /\ cur = "A" /\ seen = {} /\ out = "pending" /\ steps = 0

\* ---- bodies.py: while isinstance(body, Reference) and body.ref not in references_seen
WalkStep ==
  /\ Mode = "walk" /\ out = "pending"
  /\ steps' = steps + 1
  /\ IF cur \in seen THEN out' = "circular" /\ UNCHANGED <<cur, seen>>
     ELSE /\ seen' = seen \cup {cur}
          /\ IF cur \notin Names THEN out' = "dangling" /\ UNCHANGED cur
             ELSE IF g[cur] = "obj" THEN out' = "resolved" /\ UNCHANGED cur
             ELSE cur' = g[cur] /\ out' = "pending"
  /\ UNCHANGED g
\* ---- responses.py / parameters: a single lookup
OneHop ==
  /\ Mode = "onehop" /\ out = "pending" /\ steps' = steps + 1 /\ seen' = {cur}
  /\ out' = (IF g[cur] = "obj" THEN "resolved" ELSE "nested")
  /\ UNCHANGED <<g, cur>>
\* ---- _create_schemas: rounds over the entries that are not resolved yet; `seen` = resolved names
Resolvable(S) == {n \in Names \ S : g[n] = "obj" \/ g[n] \in S}
FixRound ==
  /\ Mode = "fixpoint" /\ out = "pending" /\ steps' = steps + 1
  /\ IF Resolvable(seen) = {} THEN out' = (IF "A" \in seen THEN "resolved" ELSE "unresolved") /\ UNCHANGED seen
     ELSE seen' = seen \cup Resolvable(seen) /\ out' = "pending"
  /\ UNCHANGED <<g, cur>>
Next == WalkStep \/ OneHop \/ FixRound
Spec == Init /\ [][Next]_vars /\ WF_vars(Next)

\* ------------------------------------------------------------------ laws
RECURSIVE Chain(_, _, _)
Chain(gr, n, acc) == IF n \notin Names \/ n \in acc THEN <<n, acc>> ELSE IF gr[n] = "obj" THEN <<"obj", acc \cup {n}>> ELSE Chain(gr, gr[n], acc \cup {n})
End == Chain(g, "A", {})[1]               \* "obj", "Z" or the first name met twice
Done == out # "pending"
\* W1: the outcome is what the graph says
W1 == Done => CASE Mode = "walk" -> out = (IF End = "obj" THEN "resolved" ELSE IF End = "Z" THEN "dangling" ELSE "circular")
                [] Mode = "onehop" -> (out = "resolved") <=> (g["A"] = "obj")
                [] Mode = "fixpoint" -> (out = "resolved") <=> (End = "obj")
\* W2 (ranking): a walk never takes more steps than there are names, plus the closing test
Rank == steps <= Cardinality(Names) + 2
Terminates == <>Done
=============================================================================
