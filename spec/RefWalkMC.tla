------------------------------ MODULE RefWalkMC ------------------------------
(* every section graph over Names, walked to its outcome; each terminal state is emitted as JSON for the replay *)
EXTENDS RefWalk, Json
CONSTANT EmitJson
Emit == (Done /\ EmitJson) => PrintT(ToJson([mode |-> Mode, g |-> g, out |-> out, steps |-> steps, end |-> End]))
=============================================================================
