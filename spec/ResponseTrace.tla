---------------------------- MODULE ResponseTrace ----------------------------
(* Code -> spec: what REAL generated endpoint functions returned {"tid","rs","served","raise","kind"} judged by law E4 of Endpoint.tla *)
EXTENDS Naturals, Sequences, FiniteSets, TLC, Json, IOUtils
Obs == ndJsonDeserialize(IOEnv.TRACE_FILE)
VARIABLE l
Documented(e) == {e.rs[k].status : k \in 1..Len(e.rs)}
HowOf(e, s) == e.rs[CHOOSE k \in 1..Len(e.rs) : e.rs[k].status = s].how
Typed(e) == \E k \in 1..Len(e.rs) : e.rs[k].how \in {"model", "text", "list", "int", "file", "const", "ndjson"}
KindOf(how) == CASE how = "model" -> "model:Out" [] how = "text" -> "text" [] how = "list" -> "list:model:Out" [] how = "int" -> "int" [] how = "file" -> "file" [] how \in {"const", "ndjson"} -> "text" [] OTHER -> "None"
\* t0int (a schemaless text/plain listed before application/json integer): the document supports "no payload" and "the integer", never the text as an integer
E4(e) == IF e.served \in Documented(e) THEN (\/ e.kind = (IF Typed(e) THEN KindOf(HowOf(e, e.served)) ELSE "None")
                                             \/ (HowOf(e, e.served) = "t0int" /\ e.kind = "int"))
         ELSE (e.raise => e.kind = "UnexpectedStatus") /\ (~e.raise => e.kind = "None")
Init == l = 1
Next == /\ l <= Len(Obs)
        /\ ((~E4(Obs[l])) => TLCSet(1, Append(TLCGet(1), Obs[l].tid)))
        /\ l' = l + 1
Spec == Init /\ [][Next]_l
Post == PrintT(ToJson([e4 |-> TLCGet(1), n |-> Len(Obs), consumed |-> TLCGet("stats").diameter - 1]))
ASSUME TLCSet(1, <<>>)
=============================================================================
