---------------------------- MODULE TemplateLoader ----------------------------
(* The custom template directory (`--custom-template-path`, C16): Project.__init__ builds                  *)
(* ChoiceLoader([FileSystemLoader(custom), PackageLoader]) - a template name is looked up in the custom      *)
(* directory FIRST and falls back to the packaged template.  One behaviour = the rendering of ONE output     *)
(* file class f under ONE override set S (the names present in the custom directory): the root template of   *)
(* f is loaded, every template it imports / includes is loaded in turn (Load, one action per look-up, as     *)
(* jinja does it), each look-up resolved by the two-loader chain.                                            *)
(* The graph (templates, static and dynamic import edges, root templates per file class) is HARVESTED from   *)
(* the real template sources by the harness and read from IOEnv.TPL_GRAPH, so the model cannot drift from    *)
(* the templates; the override family comes from the same file.                                             *)
(* Laws:  T1 precedence   - a name present in the custom directory is never served from the package          *)
(*        T2 fall-back    - a name absent from it is served from the package (and is found)                  *)
(*        T3 confinement  - a finished rendering touched a custom template  <=>  the declarative import       *)
(*                          closure of f's root templates meets S (an override reaches exactly the files     *)
(*                          rendered through it, and no other)                                               *)
EXTENDS Naturals, Sequences, FiniteSets, TLC, Json, IOUtils

Data      == JsonDeserialize(IOEnv.TPL_GRAPH)
Range(s)  == {s[i] : i \in 1..Len(s)}
Templates == Range(Data.templates)
Deps(t)   == Range(Data.deps[t])
Classes   == Range(Data.classes)
Roots(f)  == Range(Data.roots[f])
Overrides == {Range(Data.overrides[i]) : i \in 1..Len(Data.overrides)}

VARIABLES S, f, todo, loaded
vars == <<S, f, todo, loaded>>

\* the two-loader chain: first loader that has the name wins
Chain(ov, t) == IF t \in ov THEN "custom" ELSE IF t \in Templates THEN "package" ELSE "missing"

Init == /\ S \in Overrides /\ f \in Classes
        /\ todo = Roots(f) /\ loaded = [t \in {} |-> "x"]

Load(t) == /\ t \in todo
           /\ loaded' = [u \in DOMAIN loaded \cup {t} |-> IF u = t THEN Chain(S, t) ELSE loaded[u]]
           /\ todo' = (todo \cup Deps(t)) \ (DOMAIN loaded \cup {t})
           /\ UNCHANGED <<S, f>>

\* jinja's look-ups happen in one fixed order; the final state does not depend on it (the walk is confluent), so one order is explored
Next == todo # {} /\ Load(CHOOSE t \in todo : TRUE)
Spec == Init /\ [][Next]_vars
\* every look-up order (jinja's order depends on the rendering context: which property kinds a model has); T1-T3 in every state of this
\* larger graph show that the walk is confluent - whatever the order, the same templates are loaded from the same loaders
NextAny == \E t \in todo : Load(t)
SpecAny == Init /\ [][NextAny]_vars

Finished == todo = {}
Touched  == \E t \in DOMAIN loaded : loaded[t] = "custom"

\* declarative closure: least set containing the roots and closed under Deps
RECURSIVE Close(_)
Close(X) == LET Y == X \cup UNION {Deps(t) : t \in X} IN IF Y = X THEN X ELSE Close(Y)
Affected(ov, g) == Close(Roots(g)) \cap ov # {}

T1 == \A t \in DOMAIN loaded : t \in S => loaded[t] = "custom"
T2 == \A t \in DOMAIN loaded : t \notin S => loaded[t] = "package"
T3 == Finished => (Touched <=> Affected(S, f)) /\ DOMAIN loaded = Close(Roots(f))
TypeOK == todo \subseteq Templates /\ DOMAIN loaded \subseteq Templates /\ todo \cap DOMAIN loaded = {}

\* one case per (override set, file class): emitted when the rendering is finished
Emit == Finished => PrintT(ToJson([case |-> [S |-> S, f |-> f, touched |-> Touched,
                                             custom |-> {t \in DOMAIN loaded : loaded[t] = "custom"},
                                             package |-> {t \in DOMAIN loaded : loaded[t] = "package"}]]))
=============================================================================
