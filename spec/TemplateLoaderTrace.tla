---------------------------- MODULE TemplateLoaderTrace ----------------------------
(* Code -> spec: one real generation per override set, {"tid", "S", "custom", "package", "changed", "marked", "present"}:                  *)
(* which loader served each template name (read from the jinja environment's cache after Project.build), which output file classes     *)
(* differ from the generation without a custom directory, which carry the marker of an overridden root template.                        *)
(* Conforms = the operational chain (T1, T2 on the real look-ups; register 1 = drift if the model's chain is wrong, but a look-up      *)
(* served from the wrong loader IS the violation of C16's "custom template directory", so the harness reports register 1 as such);     *)
(* Confined (register 2): a changed class is one the declarative closure says S reaches; Applied (register 3): a present class whose   *)
(* root template is overridden carries its marker.                                                                                      *)
EXTENDS TemplateLoader
Obs == ndJsonDeserialize(IOEnv.TRACE_FILE)
VARIABLE l
Set(s) == {s[i] : i \in 1..Len(s)}
TInit == l = 1 /\ S = {} /\ f = (CHOOSE g \in Classes : TRUE) /\ todo = {} /\ loaded = [t \in {} |-> "x"]
Conforms(e) == /\ \A t \in Set(e.custom) : Chain(Set(e.S), t) = "custom"
               /\ \A t \in Set(e.package) : Chain(Set(e.S), t) = "package"
               /\ Set(e.custom) \cap Set(e.package) = {}
Confined(e) == \A g \in Set(e.changed) : g \in Classes /\ Affected(Set(e.S), g)
Applied(e)  == \A g \in Set(e.present) : (Cardinality(Roots(g)) = 1 /\ Roots(g) \subseteq Set(e.S)) => g \in Set(e.marked)
TNext == /\ l <= Len(Obs)
         /\ ((~Conforms(Obs[l])) => TLCSet(1, Append(TLCGet(1), Obs[l].tid)))
         /\ ((~Confined(Obs[l])) => TLCSet(2, Append(TLCGet(2), Obs[l].tid)))
         /\ ((~Applied(Obs[l])) => TLCSet(3, Append(TLCGet(3), Obs[l].tid)))
         /\ l' = l + 1 /\ UNCHANGED vars
TSpec == TInit /\ [][TNext]_<<l, vars>>
Post == PrintT(ToJson([chain |-> TLCGet(1), confined |-> TLCGet(2), applied |-> TLCGet(3), n |-> Len(Obs), consumed |-> TLCGet("stats").diameter - 1]))
ASSUME TLCSet(1, <<>>) /\ TLCSet(2, <<>>) /\ TLCSet(3, <<>>)
=============================================================================
