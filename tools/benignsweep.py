#!/venv/bin/python
"""Soundness sweep: apply property-PRESERVING changes (benign/<name>/patch.diff, written by independent agents who were asked to keep all 20
properties true) to a scratch worktree of /repo and run every property's quick check against it.  A VIOLATION on such a tree is a false
alarm of the machinery (or the change is not benign after all - decide by reading it); SPEC-DRIFT lines are expected and fine.
usage: tools/benignsweep.py [--stream k/n] [--checks C01,C05] [name-prefix ...]
   each benign change is applied alone; --group applies all changes of one agent (B1-p..s) together where they apply.
Results: benign/RESULTS[.stream<k>].json"""
import glob, json, os, re, subprocess, sys

VERIF = os.path.dirname(os.path.dirname(os.path.abspath(__file__)))
args = sys.argv[1:]
STREAM, CHECKS, GROUP = None, [f"C{i:02d}" for i in range(1, 21)], False
while args and args[0].startswith("--"):
    if args[0] == "--stream":
        k, n = map(int, args[1].split("/")); STREAM = (k, n); args = args[2:]
    elif args[0] == "--checks":
        CHECKS = args[1].split(","); args = args[2:]
    elif args[0] == "--group":
        GROUP = True; args = args[1:]
sel = args
WT = f"/tmp/wtbenign{STREAM[0] if STREAM else ''}"
if not os.path.isdir(WT):
    subprocess.run(["git", "-C", "/repo", "worktree", "add", "-q", "--detach", WT, "HEAD"], check=True)
subprocess.run(f"cd {WT} && git checkout -q --detach $(git -C /repo rev-parse HEAD) && git checkout -q -- . && git clean -fdq openapi_python_client", shell=True, check=True)

names = sorted(os.path.basename(d) for d in glob.glob(VERIF + "/benign/B*-*"))
units = {}
for nme in names:
    units.setdefault(nme.split("-")[0] if GROUP else nme, []).append(nme)
res = {}
for idx, (unit, members) in enumerate(sorted(units.items())):
    if sel and not any(unit.startswith(s) for s in sel):
        continue
    if STREAM and idx % STREAM[1] != STREAM[0]:
        continue
    applied = []
    for m in members:
        if subprocess.run(["git", "-C", WT, "apply", f"{VERIF}/benign/{m}/patch.diff"], capture_output=True).returncode == 0:
            applied.append(m)
    out = {"applied": applied, "checks": {}}
    for cid in CHECKS:
        try:
            r = subprocess.run(["./check", cid, "--tier", "quick"], cwd=VERIF, capture_output=True, text=True, timeout=3000, env=dict(os.environ, OPC_REPO=WT))
            txt = r.stdout + r.stderr
            keys = re.findall(r"^  key=(\S.*?) ::", txt, re.M)
            out["checks"][cid] = {"rc": r.returncode, "violations": keys[:6], "drift": len(re.findall(r"^SPEC-DRIFT", txt, re.M)),
                                  "tail": txt[-600:] if r.returncode not in (0, 1) else ""}
        except subprocess.TimeoutExpired:
            out["checks"][cid] = {"rc": "timeout"}
        print(unit, cid, json.dumps(out["checks"][cid])[:400], flush=True)
    subprocess.run(f"cd {WT} && git checkout -q -- . && git clean -fdq openapi_python_client", shell=True)
    res[unit] = out
path = VERIF + "/benign/RESULTS" + (f".stream{STREAM[0]}" if STREAM else "") + ".json"
old = json.load(open(path)) if os.path.exists(path) else {}
old.update(res)
json.dump(old, open(path, "w"), indent=1)
bad = {u: {c: v for c, v in o["checks"].items() if v["rc"] != 0} for u, o in res.items()}
print("ALARMS:", json.dumps({u: b for u, b in bad.items() if b})[:3000])
