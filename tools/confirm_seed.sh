#!/bin/sh
# usage: tools/confirm_seed.sh <ID> <a|b>   -- confirm a sub-agent's seeded change in its scratch worktree, then keep it under seeded/
ID="$1"; X="$2"; WT=${WTROOT:-/tmp/wt}/$ID; S=$WT/_seed/$X
[ -f "$S/patch.diff" ] || { echo "no seed $S"; exit 3; }
cd "$WT" && git checkout -q -- . && git status --short | grep -v '^??' && { echo dirty; exit 3; }
/venv/bin/python "$S/demo.py" >/tmp/cs.$$.$ID.$X.clean 2>&1; RC_CLEAN=$?
git apply "$S/patch.diff" || { echo "patch does not apply"; exit 3; }
/verif/tools/suite.py "$WT" >/tmp/cs.$$.$ID.$X.suite 2>&1; RC_SUITE=$?
/venv/bin/python "$S/demo.py" >/tmp/cs.$$.$ID.$X.mut 2>&1; RC_MUT=$?
git checkout -q -- . ; find "$WT" -name __pycache__ -type d -prune -exec rm -rf {} + 2>/dev/null
echo "$ID/$X demo_clean_rc=$RC_CLEAN suite_rc=$RC_SUITE ($(tail -1 /tmp/cs.$$.$ID.$X.suite)) demo_mutant_rc=$RC_MUT"
if [ $RC_CLEAN -eq 0 ] && [ $RC_SUITE -eq 0 ] && [ $RC_MUT -ne 0 ]; then
  D=/verif/seeded/$ID-$X; mkdir -p "$D"; cp "$S/patch.diff" "$S/demo.py" "$D/";
  /venv/bin/python - "$S/meta.json" "$D/meta.json" "$(tail -3 /tmp/cs.$$.$ID.$X.mut | tr '\n' ' ' | cut -c1-400)" <<'PY'
import json,sys
try: m=json.load(open(sys.argv[1]))
except Exception as e: m={"property":"?","summary":"(meta unreadable)"}
m["confirmed"]={"demo_on_clean_tree":"exit 0","pinned_suite_with_change":"403/403 stable_pass tests pass (tools/suite.py in scratch worktree)","demo_with_change":"non-zero: "+sys.argv[3]}
json.dump(m,open(sys.argv[2],"w"),indent=1)
PY
  echo "kept -> $D"
else echo "NOT kept"; tail -5 /tmp/cs.$$.$ID.$X.clean /tmp/cs.$$.$ID.$X.mut; fi
rm -f /tmp/cs.$$.$ID.$X.*
