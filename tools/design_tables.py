#!/usr/bin/env python3
"""Regenerate the machine-made tables of DESIGN.md section 11 (between BEGIN/END markers) from known_findings.json, the fix: commits of
/repo and seeded/*/meta.json."""
import glob, json, os, re, subprocess
D = "/verif/DESIGN.md"
kf = json.load(open("/verif/known_findings.json"))["findings"]
log = subprocess.run(["git", "-C", "/repo", "log", "--format=%h %s", "12a0f90..HEAD"], capture_output=True, text=True).stdout.strip().splitlines()


def esc(s):
    return str(s).replace("|", "\\|").replace("\n", " ")


fixes = ["| commit | repair | properties whose check exposed it |", "|---|---|---|"]
for line in reversed(log):
    h, subj = line.split(" ", 1)
    if subj.startswith("fix:"):
        props = sorted({f["property"] for f in kf if f.get("status") == "fixed" and f.get("commit", "").startswith(h[:7])})
        fixes.append(f"| `{h}` | {esc(subj[4:].strip())} | {', '.join(props) or '-'} |")
hooks = ["| commit | hook |", "|---|---|"] + [f"| `{l.split(' ',1)[0]}` | {esc(l.split(' ',1)[1])} |" for l in reversed(log) if "verif-hook:" in l]
openf = ["| property | key (glob) | what fails |", "|---|---|---|"]
for f in kf:
    if f.get("status") == "open":
        openf.append(f"| {f['property']} | `{esc(f['key'])}` | {esc(f['what'])[:420]} |")
seeds = ["| seed | change (summary) | needs | result on HEAD (quick tier of its property's check) |", "|---|---|---|---|"]
for d in sorted(glob.glob("/verif/seeded/C*-*")):
    m = json.load(open(d + "/meta.json"))
    q = m.get("caught_by_quick") or {}
    if q.get("exit") == 1:
        r = f"**caught**: {q.get('violations')} violation keys, e.g. `{esc((q.get('first_keys') or ['?'])[0])[:150]}`"
        if q.get("spec_drift_lines"):
            r += f"; {q['spec_drift_lines']} SPEC-DRIFT lines"
    elif q:
        r = f"not caught on HEAD (exit {q.get('exit')})"
    else:
        r = "(not re-run)"
    note = m.get("caught_by")
    if note and (q.get("exit") != 1 or "after" in note or "neutralised" in note):
        r += " - " + esc(note)[:400]
    seeds.append(f"| {os.path.basename(d)} | {esc(m.get('summary',''))[:260]} | {esc(m.get('needs_to_manifest',''))[:200]} | {r} |")
s = open(D).read()
for name, rows in (("FIXES", fixes), ("HOOKS", hooks), ("OPEN", openf), ("SEEDS", seeds)):
    a, b = f"<!-- BEGIN:{name} -->", f"<!-- END:{name} -->"
    if a in s:
        s = s[:s.index(a) + len(a)] + "\n" + "\n".join(rows) + "\n" + s[s.index(b):]
open(D, "w").write(s)
print("tables regenerated")
