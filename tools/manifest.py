#!/usr/bin/env python3
"""Regenerate MANIFEST.json from the table below (single source of truth for claimed checks)."""
import json, subprocess
props = [json.loads(l) for l in open('/verif/properties.jsonl')]
ids = [p["id"] for p in props]
hooks_commits = [l.split()[0] for l in subprocess.run(["git", "-C", "/repo", "log", "--format=%h %s"], capture_output=True, text=True).stdout.splitlines() if " verif-hook:" in l or l.split(" ", 1)[1].startswith("verif-hook")]
CLAIMED = {
 "C09": dict(engine="names", design="5/C09, 3.1",
   text="Names.tla transcribes utils.py name derivation and the three conflict-resolution loops; TLC enumerates every name (<=3/4 tokens over 14 character-class representatives) and every ordered name set per scope, checks N1 (valid identifier) / N2 (NFKC-injective per scope or error) / N3 (termination) on the model, and every enumerated case is replayed through the real functions and the real parser with a model-independent oracle (isidentifier, not keyword, NFKC-distinct or diagnostic). Every Unicode code point is swept through the real functions in 3 positions; real outputs on longer random names are validated by TLC (NamesTrace.tla).",
   note="Bounded by the token alphabet/lengths for sets of names; exhaustive over single code points at function level. Trusted: CPython isidentifier/keyword, token<->character table (signature coverage is measured each run).",
   technique="TLA+ transcription + TLC exhaustive small-scope enumeration, replayed into the real code; trace validation of real outputs"),
}
checks = []
for pid, c in CLAIMED.items():
    checks.append({"property_id": pid, "quick_cmd": f"./check {pid} --tier quick", "thorough_cmd": f"./check {pid} --tier thorough",
                   "evidence_file": f"/verif/evidence/{pid}.json", "replay_cmd_template": f"./check {pid} --replay {{path}}",
                   "engine": c["engine"], "level_claimed": {"category": "model_checking", "text": c["text"], "design_ref": c["design"]},
                   "level_note": c["note"], "technique": c["technique"]})
engines = {}
for pid, c in CLAIMED.items():
    engines.setdefault(c["engine"], []).append(pid)
ENG = {"names": ("spec/Names.tla, spec/NamesMC.tla, spec/NamesTrace.tla", "TLA+ name-derivation spec + TLC + replay"),
       "pipeline": ("spec/Pipeline.tla", "TLA+ parser fixpoint/containment spec + TLC + replay + hook traces"),
       "codec": ("spec/Codec.tla", "TLA+ generated-model codec spec + TLC + sandbox replay"),
       "endpoint": ("spec/Endpoint.tla", "TLA+ endpoint call spec + TLC + MockTransport replay"),
       "lexer": ("spec/Lexer.tla", "TLA+ escaper/lexer automata + TLC + slot census replay"),
       "fshistory": ("spec/FsHistory.tla", "TLA+ output-directory history spec + TLC + CLI replay + fs hook traces"),
       "convert": ("spec/Convert.tla", "TLA+ default conversion / allOf merge tables + TLC + replay")}
m = {"version": 1, "setup_cmd": "cd /verif && ./tools/setup.sh",
     "hooks": {"guard": "OPC_VERIF_TRACE", "enable": "export OPC_VERIF_TRACE=<ndjson file>; the generator is imported from /repo's working tree (PYTHONPATH=/repo first), nothing to build",
               "baseline_off_cmd": "cd /repo && env -u OPC_VERIF_TRACE /venv/bin/python -m pytest -ra -q -p no:cacheprovider --timeout=900 --continue-on-collection-errors",
               "source_commits": hooks_commits, "add_only": True},
     "engines": [{"name": k, "path": ENG[k][0], "serves_properties": v, "kind_free_text": ENG[k][1]} for k, v in engines.items()],
     "checks": checks,
     "notes": "Model-based verification with explicit TLA+ specifications (spec/*.tla) checked by TLC and bound to the code by replay (spec->code) and trace validation (code->spec). ./check <ID> --tier quick|thorough; exit 0/1/2 (2 = machinery failure). known_findings.json lists genuine defects (open) and repaired ones (fixed). See DESIGN.md.",
     "not_applicable": [{"property_id": i, "reason": "check not built yet (build in progress, DESIGN.md section 10); the technique applies, nothing is claimed until the check exists and is green"} for i in ids if i not in CLAIMED]}
json.dump(m, open('/verif/MANIFEST.json', 'w'), indent=1)
print("claimed:", sorted(CLAIMED), "hooks:", hooks_commits)
