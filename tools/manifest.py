#!/usr/bin/env python3
"""Regenerate MANIFEST.json from the table below (single source of truth for claimed checks)."""
import json, subprocess
props = [json.loads(l) for l in open('/verif/properties.jsonl')]
ids = [p["id"] for p in props]
hooks_commits = [l.split()[0] for l in subprocess.run(["git", "-C", "/repo", "log", "--format=%h %s"], capture_output=True, text=True).stdout.splitlines() if " verif-hook:" in l or l.split(" ", 1)[1].startswith("verif-hook")]
CLAIMED = {
 "C02": dict(engine="codec", design="5/C02, 3.4",
   text="Codec.tla transcribes the generated model codec (d.pop, the Unset guard, list construction, the union _parse_ try-chain with its guarded / unguarded / cast branches, the isinstance dispatch of union transform, field_dict) over 18 leaf kinds, ordered unions of 2-3 members, nested unions, required x nullable and 27 wire classes; TLC evaluates law K1 (every schema-valid value round-trips) for every descriptor - its refutations (date vs date-time vs string unions, strict model before open model, integer-array vs model-array) are design-level counterexamples. Every descriptor becomes a real model class and every wire class a real JSON value; the real from_dict/to_dict run in a sandbox; instance validity is screened independently by jsonschema; the observations are validated against the spec by CodecTrace.tla; 23 structured families (additionalProperties of every kind, nesting, recursion, allOf chains, presence patterns) with explicit instances.",
   note="Exhaustive over the descriptor universe x wire classes (one representative value per class). File kinds are not JSON. Whole-number floats for integer kinds are not judged.",
   technique="TLA+ transcription of the generated codec + TLC law evaluation per descriptor, replayed into real generated classes in a sandbox; trace validation of observations"),
 "C10": dict(engine="codec", design="5/C10, 3.4",
   text="Codec.tla law K4 (absent <-> UNSET <-> absent, null <-> None <-> null exactly for nullable descriptors, required+absent fails) evaluated by TLC for every descriptor and replayed on the real classes together with the signature laws (mandatory constructor argument <=> required and no default; declared type admits None <=> nullable; a present falsy value - 0, '', False, {}, [] - is neither absent nor null); 14 nullable spellings (3.0 nullable, 3.1 type list, null union member, null enum member) under both OpenAPI versions; an allOf family for 'mandatory iff some member requires it' wherever `required` is written; tri-state observations validated by CodecTrace.tla.",
   note="Model-attribute positions are exhaustive over the descriptor universe; parameters and bodies ride on the endpoint checks (C03).",
   technique="TLC evaluation of the tri-state law per descriptor + replay on real generated classes (signature, annotations, decode/encode)"),
 "C06": dict(engine="pipeline", design="5/C06, 3.5, 3.7",
   text="Pipeline.tla and Ops.tla model the parser's two retry fixpoints, the removal cascade, the request-body reference walk and per-operation assembly with every action total; TLC checks termination (liveness under fairness, no state constraint) and the ranking laws on all 46,656 three-schema documents and all operations of the universe; every enumerated case is replayed through the real parser under a wall-clock limit. Every JSON-pointer node of repository + concretised documents is replaced by 20 junk values / deleted / duplicated (fault model from the spec: opaque shapes) and the recorded hook traces must be behaviours of PipelineTrace.tla; 18 byte-level loader classes x JSON/YAML x path/URL run through the real CLI and are validated against FsHistory.tla (ExitLaw, RejectedWritesNothing) by FsTrace.tla.",
   note="Exhaustive inside the universes; node corruption is sampled on the large repository documents in the quick tier. A 4-30 s wall-clock limit stands for 'hangs'. Trusted: CPython signal timers, loopback HTTP server as URL source.",
   technique="TLC model checking (safety + liveness) of the parser state machines, replay of all enumerated cases, spec-driven fault injection with trace validation"),
 "C07": dict(engine="pipeline", design="5/C07, 3.5",
   text="Law Census of Pipeline.tla (every object/enum component has a class or a diagnostic) and of Ops.tla (an operation is generated or named METHOD path in a diagnostic; every documented status and request media type of a generated operation is handled or named in a warning) checked by TLC on the operational models; every enumerated document/operation is replayed through the real parser with a census oracle on GeneratorData+diagnostics, and a one-factor-at-a-time sample is rendered and the census repeated on the output tree (exports, files, status branches); name-collision pairs found by Names.tla are checked for two-into-one on the tree.",
   note="Exhaustive inside the universes (3 schemas x 15 kinds x targets; <=1-2 parameters x 6 path-item parameters x 14 bodies x <=2 responses). 'Identifies' = reference path / METHOD path / status key / media type occurs in header, detail or printed data.",
   technique="TLC model checking of census laws + exhaustive replay of enumerated cases into the real parser and renderer"),
 "C08": dict(engine="pipeline", design="5/C08, 3.5",
   text="Pipeline.tla: declarative Affected = least fixpoint of Bad under the document's own $ref graph; TLC checks Containment / ImportsClosed / NoFalseAlarm on the operational model (which reproduces dependencies surviving failed attempts, alias re-processing, etc.) for every fault combination over 3 schemas. Every document is replayed faulty vs repaired through the real parser (unaffected items must survive, affected ones must be absent and diagnosed); a stratified sample is rendered, compared byte-wise per module and every remaining module is imported in a fresh interpreter; hook traces of the real removal cascade (TLC documents + larger random ones) are validated by PipelineTrace.tla (removed set = dependency closure of the failed roots).",
   note="Exhaustive over the 46,656-document universe at parser level; rendering sampled (quick 160 pairs). 'Document without the bad piece' = bad schemas replaced by good twins.",
   technique="TLC model checking of containment laws + differential replay (faulty vs repaired) + trace validation of the removal cascade"),
 "C09": dict(engine="names", design="5/C09, 3.1",
   text="Names.tla transcribes utils.py name derivation and the conflict-resolution loops (model attributes incl. allOf inheritance and the retry-with-mutation quirk, enum member keys, operation parameters, class/module scope incl. nested inline classes, one tag's operations); TLC enumerates every name (<=3/4 tokens over 14 character-class representatives) and every ordered name set per scope, checks N1 (valid identifier) / N2 (NFKC-injective per scope or error) / N3 (termination) on the model, and every enumerated case is replayed through the real functions and the real parser with a model-independent oracle (isidentifier, not keyword, NFKC-distinct or diagnostic). Every Unicode code point is swept through the real functions in 3 positions; real outputs on longer random names are validated by TLC (NamesTrace.tla).",
   note="Bounded by the token alphabet/lengths for sets of names; exhaustive over single code points at function level. Trusted: CPython isidentifier/keyword, token<->character table (signature coverage is measured each run).",
   technique="TLA+ transcription + TLC exhaustive small-scope enumeration replayed into the real code; trace validation of real outputs"),
 "C12": dict(engine="pipeline", design="5/C12, 3.5",
   text="Pipeline.tla: the operational outcome is proved by TLC (all 46,656 documents = all declaration orders) to equal ExpectedClasses/Affected, which do not mention document order, so the parser's result is order-free on the model; Emission.tla states the emission discipline (a set-valued attribute is never emitted unsorted) and TLC validates the census of template loops extracted from the current templates by Jinja2's parser. Diagnostics-free documents of the universe, a rich synthetic document and the repository's documents are generated in fresh interpreters under 4-6 PYTHONHASHSEED values (two with the ruff post-hooks) and under random permutations of components.schemas and paths; oracle = sha256 equality of every file.",
   note="Seed/permutation comparison is sampled (hash seeds are a finite sample of 2^32). Python-side set iteration outside templates is covered only dynamically.",
   technique="TLC-checked order-free law + TLC-validated emission-site census + multi-seed / permutation byte comparison"),
 "C20": dict(engine="pipeline", design="5/C20, 3.5",
   text="Ops.tla law RefTransparent (declarative outcome invariant under Inline(op); with Containment this transfers to the operational layer) and Pipeline.tla (valid references resolve through the retry rounds in every declaration order, through arrays, unions, aliases and allOf; malformed ones affect exactly Affected). Every operation of the universe with reference sites is generated next to a context operation using the same components in a conflicting way, by reference and with every subset of sites inlined: descriptors compared for all, endpoint modules byte-wise for a stratified sample; all diagnostics-free 3-schema documents must generate without diagnostics with one class per schema; 12 malformed reference strings at 12 site kinds must be diagnosed and leave unrelated modules byte-identical; hook traces validated by PipelineTrace.tla.",
   note="Exhaustive in the thorough tier inside the universes; quick samples 6,000 operations. Wire behaviour of schema references rides on the codec checks.",
   technique="TLC model checking of reference transparency + differential replay (by reference vs inline) + trace validation"),
 "C19": dict(engine="fshistory", design="5/C19, 3.7",
   text="FsHistory.tla unfolds each generate command into the real steps (load, validate, mkdir, package, metadata, rmtree+write models, client, rmtree+write api, hooks, exit) over an abstract tree with user files and a sibling; TLC checks Confined, NoClobber(+Step), Converges, NoStale, ExitLaw, RejectedWritesNothing(+Step) and EveryCommandExits on every history of <=2/3 commands over 5 documents x overwrite x fail-on-warning x 3 hook outcomes. A stratified sample of TLC-emitted histories is replayed through the real CLI under all four metadata flavours inside a sentinel-filled sandbox with whole-sandbox byte snapshots (the oracle is the property statement: fresh generation + untouched user files, incl. user files named like another flavour's metadata); the real step events (hooks) are validated against the spec's actions by FsTrace.tla; hostile titles/tags/schema/operation names (separators, dot segments, absolute paths) with a derived output path; Names.tla law N4 on path components.",
   note="TLC exhaustive to the history depth; replay is a stratified sample (quick 140 histories). Convergence only for same names and flavour, as stated.",
   technique="TLC model checking of command histories + replay of emitted histories into the real CLI with snapshot oracles + step-trace validation"),
}
checks = []
for pid, c in CLAIMED.items():
    checks.append({"property_id": pid, "quick_cmd": f"./check {pid} --tier quick", "thorough_cmd": f"./check {pid} --tier thorough",
                   "evidence_file": f"/verif/evidence/{pid}.json", "replay_cmd_template": f"./check {pid} --replay {{path}}",
                   "engine": c["engine"], "level_claimed": {"category": "model_checking", "text": c["text"], "design_ref": c["design"]},
                   "level_note": c["note"], "technique": c["technique"]})
engines = {}
for pid, c in CLAIMED.items():
    engines.setdefault(c["engine"], []).append(pid)
ENG = {"names": ("spec/Names.tla, spec/NamesMC.tla, spec/NamesTrace.tla", "TLA+ name-derivation spec + TLC + replay"),
       "pipeline": ("spec/Pipeline.tla", "TLA+ parser fixpoint/containment spec + TLC + replay + hook traces"),
       "codec": ("spec/Codec.tla", "TLA+ generated-model codec spec + TLC + sandbox replay"),
       "endpoint": ("spec/Endpoint.tla", "TLA+ endpoint call spec + TLC + MockTransport replay"),
       "lexer": ("spec/Lexer.tla", "TLA+ escaper/lexer automata + TLC + slot census replay"),
       "fshistory": ("spec/FsHistory.tla", "TLA+ output-directory history spec + TLC + CLI replay + fs hook traces"),
       "convert": ("spec/Convert.tla", "TLA+ default conversion / allOf merge tables + TLC + replay")}
m = {"version": 1, "setup_cmd": "cd /verif && ./tools/setup.sh",
     "hooks": {"guard": "OPC_VERIF_TRACE", "enable": "export OPC_VERIF_TRACE=<ndjson file>; the generator is imported from /repo's working tree (PYTHONPATH=/repo first), nothing to build",
               "baseline_off_cmd": "cd /repo && env -u OPC_VERIF_TRACE /venv/bin/python -m pytest -ra -q -p no:cacheprovider --timeout=900 --continue-on-collection-errors",
               "source_commits": hooks_commits, "add_only": True},
     "engines": [{"name": k, "path": ENG[k][0], "serves_properties": v, "kind_free_text": ENG[k][1]} for k, v in engines.items()],
     "checks": checks,
     "notes": "Model-based verification with explicit TLA+ specifications (spec/*.tla) checked by TLC and bound to the code by replay (spec->code) and trace validation (code->spec). ./check <ID> --tier quick|thorough; exit 0/1/2 (2 = machinery failure). known_findings.json lists genuine defects (open) and repaired ones (fixed). See DESIGN.md.",
     "not_applicable": [{"property_id": i, "reason": "check not built yet (build in progress, DESIGN.md section 10); the technique applies, nothing is claimed until the check exists and is green"} for i in ids if i not in CLAIMED]}
json.dump(m, open('/verif/MANIFEST.json', 'w'), indent=1)
print("claimed:", sorted(CLAIMED), "hooks:", hooks_commits)
