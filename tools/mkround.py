#!/usr/bin/env python3
"""Prepare a seeding round: one scratch worktree of /repo's HEAD per property plus a prompt file for a fresh sub-agent.
The prompt holds ONLY the property text and the worktree path (nothing from /verif).
usage: tools/mkround.py <wtroot> <x> <y> [ID ...]      e.g. tools/mkround.py /tmp/wt6 i j C01 C02
       tools/mkround.py --benign <wtroot> <n>          n worktrees <wtroot>/B1..Bn with a prompt asking for property-PRESERVING changes
Each agent is then started with: "Read <wtroot>/<ID>.prompt.txt and carry out the task it describes exactly."
Afterwards: WTROOT=<wtroot> tools/confirm_seed.sh <ID> <x>; git -C /repo worktree remove --force <wtroot>/<ID>"""
import json, os, subprocess, sys

PROPS = {}
for line in open(os.path.join(os.path.dirname(os.path.abspath(__file__)), "..", "properties.jsonl")):
    p = json.loads(line)
    PROPS[p["id"]] = p

COMMON = """You are working in a scratch git worktree of the open-source project openapi-python-client (a code generator that turns OpenAPI
3.0/3.1 documents into typed Python httpx client packages via Jinja2 templates). The worktree is {wt} - work ONLY there (cwd = the worktree).
Do not read or touch anything under /verif or /repo. There is no network. Run Python with /venv/bin/python (it has the project's dependencies,
pytest, httpx, attrs, mypy). IMPORTANT: the package is installed in /venv as an editable install of ANOTHER checkout, so any script you write
must do `sys.path.insert(0, "{wt}")` before `import openapi_python_client` (and check `openapi_python_client.__file__` starts with {wt});
pytest run from the worktree root picks up the worktree by itself. The module openapi_python_client/_verif_trace.py and the calls
`_verif_trace.emit(...)` are inert tracing hooks - leave them alone.

The existing test-suite is run with:
    cd {wt} && /venv/bin/python -m pytest -q -p no:cacheprovider --timeout=900 tests end_to_end_tests
On the UNMODIFIED tree a handful of end-to-end tests fail or error because `ruff` is not on PATH (golden-record / snapshot tests); that is expected.
"The suite stays green" below means: the set of failing/erroring test ids with your change is identical to that of the unmodified tree.
"""

SEED = COMMON + """
The project promises this property to its users:

    {pid}: {title}
    {statement}

YOUR TASK: produce TWO independent changes to the project's source code (anything under openapi_python_client/, templates included) - call them
`{x}` and `{y}` - each of which

 1. BREAKS the property above for some inputs (on the unmodified tree the property must HOLD for the input your demonstration uses),
 2. looks like a realistic, good-faith commit a maintainer could plausibly merge (refactor, optimisation, tidy-up, small feature, attempted bug fix,
    spec-compliance tweak) - not sabotage, no dead code, no suspicious special-casing,
 3. still imports/compiles and keeps the existing suite green (see above - run it before and after),
 4. needs something SPECIFIC to manifest: an unusual-but-legal document construct, a particular combination of features or configuration options,
    a multi-step sequence of commands, a particular ordering, a fault at a particular point, or two cooperating code sites that each look fine
    alone. It must NOT be something ordinary use (the documents in the repository's tests, a plain petstore-like document) would expose at once.
 5. The two changes must use different mechanisms in different areas of the code ({hint}).

For EACH change deliver a directory {wt}/_seed/<{x}|{y}>/ containing:
 - patch.diff : `git diff` of the change against the unmodified worktree (must apply with `git apply` on a clean worktree),
 - demo.py    : a self-contained demonstration (inserts the worktree root into sys.path[0] as explained; writes scratch output only under a
                tempfile directory that it removes) that exits 0 on the unmodified tree and NON-ZERO with the change applied, printing what
                went wrong. It should test the property as a user would experience it (generate a client from a document, import / call /
                compare the generated code, inspect diagnostics and files), not internals.
 - meta.json  : {{"property": "{pid}", "summary": "<what the change is and why it looks reasonable>", "needs_to_manifest": "<exactly what
                input / sequence / combination is needed>", "why_tests_pass": "<why the suite does not notice>", "ran": ["<commands you ran
                and their results>"]}}

Verify yourself, for each change: demo.py exits 0 on the clean tree; with the patch applied the suite's failing set is unchanged and demo.py exits
non-zero. Finish with the worktree clean (`git checkout -- .`; the untracked _seed/ directory stays). Report briefly what the two changes are and
your verification results.
"""

BENIGN = COMMON + """
The project promises the following 20 properties to its users:

{allprops}

YOUR TASK: produce FOUR independent, realistic, good-faith changes to the project's source code (under openapi_python_client/, templates included)
- call them `p`, `q`, `r`, `s` - each of which PRESERVES ALL of the properties above for every input (and does not make any already-failing corner
worse), keeps the suite green (see above), and yet is a real change of the kind that lands in such a project all the time. Your focus area:
{focus}.
Wanted kinds (mix them): refactoring internals (extract/inline helpers, rename internal variables, replace loops by comprehensions, reorder
independent steps), rewording or restructuring diagnostic message TEXT (keeping what item each diagnostic identifies and its level), cosmetic changes
to the GENERATED code (comments, docstring wording, blank lines, local variable names inside generated functions - but then keep the generator's
reserved-name handling consistent so that no document name can collide with a renamed local), performance tweaks that keep results identical,
stricter internal typing, defensive copies. At least two of the four must change the text of generated files or of diagnostics in some visible way
(so that a fragile checker comparing against frozen expectations would trip) while keeping every property true.
Be careful and honest: if you are not sure a change preserves a property for every input, do not deliver it.

For EACH change deliver {wt}/_seed/<p|q|r|s>/ with:
 - patch.diff : `git diff` against the unmodified worktree (applies with `git apply` on a clean worktree),
 - meta.json  : {{"summary": "<what changed>", "visible_effect": "<what changes in generated output / diagnostics, if anything>",
                "why_properties_hold": "<argument, naming the properties that come closest to being affected>", "ran": ["<commands and results>"]}}
Verify for each: the suite's failing set is unchanged with the patch applied; generate a client from
end_to_end_tests/baseline_openapi_3.0.json (and 3.1) with the change and check that every generated module imports.
Finish with the worktree clean (`git checkout -- .`). Report briefly.
"""

HINTS = ["one of them in the Jinja templates or the code they generate, the other in the parser",
         "one of them in how names / references / dependencies are handled, the other in how values / types / media types are handled"]
FOCI2 = ["how request parameters and bodies are turned into httpx arguments in the generated endpoint functions (endpoint_macros.py.jinja, property templates' transform / transform_header macros): restructure, rename generated locals consistently with the reserved-name handling, change comments",
         "the generated Client / AuthenticatedClient (client.py.jinja) and the errors / types modules: docstrings, attribute ordering, helper extraction - behaviour of every public method unchanged",
         "diagnostics: every message text produced under parser/ (errors.py, openapi.py, responses.py, bodies.py, properties/*): reword, add context such as the offending value, restructure how details are built - levels and which item each diagnostic identifies unchanged",
         "Project.build and its helpers in openapi_python_client/__init__.py and cli.py: refactor the order-insensitive parts, extract helpers, improve messages - the order of file-system effects that matters (existing-directory check before any write, what is removed before regeneration) unchanged",
         "utils.py naming helpers and parser/properties/schemas.py / model_property.py internals: faster or clearer implementations with IDENTICAL results for every input (prove or exhaustively test equivalence)"]
FOCI = ["the model templates (templates/model.py.jinja, templates/property_templates/*, types.py.jinja, enum templates)",
        "the endpoint and client templates (endpoint_module.py.jinja, endpoint_macros.py.jinja, client.py.jinja, errors, package __init__ files, README/pyproject templates)",
        "parser/properties/* (schemas.py, model_property.py, merge_properties.py, union.py, enum/literal enum, list, scalar kinds, __init__.py)",
        "parser/openapi.py, parser/responses.py, parser/bodies.py, parser/errors.py (operations, parameters, responses, bodies, diagnostics)",
        "openapi_python_client/__init__.py (Project.build and helpers), cli.py, config.py, utils.py and the schema/ pydantic classes"]


def worktree(path):
    if os.path.isdir(path):
        subprocess.run(["git", "-C", "/repo", "worktree", "remove", "--force", path])
    os.makedirs(os.path.dirname(path), exist_ok=True)
    subprocess.run(["git", "-C", "/repo", "worktree", "add", "-q", "--detach", path, "HEAD"], check=True)


def main():
    a = sys.argv[1:]
    if a[0] == "--benign":
        root, n = a[1], int(a[2])
        allprops = "\n".join(f"  {p['id']}: {p['title']}\n      {p['statement']}" for p in PROPS.values())
        first = int(a[3]) if len(a) > 3 else 1          # tools/mkround.py --benign <wtroot> <n> [first index]
        for i in range(first, first + n):
            wt = f"{root}/B{i}"
            worktree(wt)
            open(f"{root}/B{i}.prompt.txt", "w").write(BENIGN.format(wt=wt, allprops=allprops, focus=(FOCI + FOCI2)[(i - 1) % len(FOCI + FOCI2)]))
            print(f"{root}/B{i}.prompt.txt")
        return
    root, x, y, ids = a[0], a[1], a[2], a[3:] or sorted(PROPS)
    for k, pid in enumerate(ids):
        p = PROPS[pid]
        wt = f"{root}/{pid}"
        worktree(wt)
        open(f"{root}/{pid}.prompt.txt", "w").write(SEED.format(wt=wt, pid=pid, title=p["title"], statement=p["statement"], x=x, y=y, hint=HINTS[k % 2]))
        print(f"{root}/{pid}.prompt.txt")


main()
