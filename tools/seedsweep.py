#!/venv/bin/python
"""Apply every confirmed seeded change to /repo in turn, run the check of its property (quick tier), restore /repo, and record what caught it
in seeded/<id>/meta.json (caught_by) and seeded/RESULTS.json.  usage: tools/seedsweep.py [ID-prefix ...]"""
import json, subprocess, sys, glob, os, re
# --stream k/n : handle only the properties with (number % n == k) on a scratch worktree /tmp/wtsweep<k> (OPC_REPO), so that n streams can run at once
STREAM = None
args = sys.argv[1:]
if args and args[0] == "--stream":
    k, n = map(int, args[1].split("/")); STREAM = (k, n); args = args[2:]
sel = args
REPO = "/repo"
VERIF = os.path.dirname(os.path.dirname(os.path.abspath(__file__)))     # the checkout this script lives in (a `vp run` snapshot works too)
if STREAM:
    REPO = f"/tmp/wtsweep{STREAM[0]}"
    if not os.path.isdir(REPO):
        subprocess.run(["git", "-C", "/repo", "worktree", "add", "-q", "--detach", REPO, "HEAD"], check=True)
    subprocess.run(f"cd {REPO} && git checkout -q --detach $(git -C /repo rev-parse HEAD) && git checkout -q -- .", shell=True, check=True)
res = {}
for d in sorted(glob.glob(VERIF + "/seeded/C*-*")):
    name = os.path.basename(d)
    if sel and not any(name.startswith(s) for s in sel):
        continue
    pid = name.split("-")[0]
    if os.environ.get("SEED_SUFFIX") and name.split("-")[1] not in os.environ["SEED_SUFFIX"]:      # e.g. SEED_SUFFIX=gh: one seeding round only
        continue
    if STREAM and int(pid[1:]) % STREAM[1] != STREAM[0]:
        continue
    if subprocess.run(["git", "-C", REPO, "diff", "--quiet"]).returncode != 0:
        print("/repo dirty, abort"); sys.exit(3)
    patch = d + "/patch.head.diff" if os.path.exists(d + "/patch.head.diff") else d + "/patch.diff"
    ok = subprocess.run(["git", "-C", REPO, "apply", patch], capture_output=True).returncode == 0
    if not ok:
        ok = subprocess.run(f"cd {REPO} && patch -p1 --fuzz=3 --no-backup-if-mismatch -s < {patch}", shell=True, capture_output=True).returncode == 0
    if not ok:
        subprocess.run(f"cd {REPO} && find . -name '*.rej' -delete; find . -name '*.orig' -delete; git checkout -q -- .", shell=True)
        res[name] = {"applied": False}
        print(name, "DOES NOT APPLY"); continue
    try:
        r = subprocess.run(["./check", pid, "--tier", "quick"], cwd=VERIF, capture_output=True, text=True, timeout=3000, env=dict(os.environ, OPC_REPO=REPO))
        out = r.stdout + r.stderr
        keys = re.findall(r"^  key=(\S.*?) ::", out, re.M)
        drift = len(re.findall(r"^SPEC-DRIFT", out, re.M))
        res[name] = {"applied": True, "rc": r.returncode, "violations": len(keys), "first_keys": keys[:4], "spec_drift_lines": drift}
    except subprocess.TimeoutExpired:
        res[name] = {"applied": True, "rc": "timeout"}
    finally:
        subprocess.run(f"cd {REPO} && git checkout -q -- . && git clean -fdq openapi_python_client", shell=True)
    print(name, json.dumps(dict(res[name], first_keys=[k[:90] for k in res[name].get("first_keys", [])])), flush=True)
    mp = d + "/meta.json"
    m = json.load(open(mp))
    if res[name].get("rc") == 1:
        prev = m.get("caught_by")
        m["caught_by_quick"] = {"check": pid, "exit": 1, "violations": res[name]["violations"], "first_keys": res[name]["first_keys"], "spec_drift_lines": res[name]["spec_drift_lines"]}
        if not prev:
            m["caught_by"] = f"caught by {pid} quick: " + "; ".join(res[name]["first_keys"][:3])
    else:
        m["caught_by_quick"] = {"check": pid, "exit": res[name].get("rc"), "note": "not caught on HEAD (see caught_by / DESIGN.md 11.6)"}
    json.dump(m, open(mp, "w"), indent=1)
out = VERIF + "/seeded/RESULTS.json" if not STREAM else VERIF + f"/seeded/RESULTS.stream{STREAM[0]}.json"
old = {}
if os.path.exists(out):
    old = json.load(open(out))
old.update(res)
json.dump(old, open(out, "w"), indent=1)
