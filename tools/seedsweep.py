#!/venv/bin/python
"""Apply every confirmed seeded change to /repo in turn, run the check of its property (quick tier), restore /repo, and record what caught it
in seeded/<id>/meta.json (caught_by) and seeded/RESULTS.json.  usage: tools/seedsweep.py [ID-prefix ...]"""
import json, subprocess, sys, glob, os, re
sel = sys.argv[1:]
res = {}
for d in sorted(glob.glob("/verif/seeded/C*-*")):
    name = os.path.basename(d)
    if sel and not any(name.startswith(s) for s in sel):
        continue
    pid = name.split("-")[0]
    if subprocess.run(["git", "-C", "/repo", "diff", "--quiet"]).returncode != 0:
        print("/repo dirty, abort"); sys.exit(3)
    patch = d + "/patch.head.diff" if os.path.exists(d + "/patch.head.diff") else d + "/patch.diff"
    ok = subprocess.run(["git", "-C", "/repo", "apply", patch], capture_output=True).returncode == 0
    if not ok:
        ok = subprocess.run(f"cd /repo && patch -p1 --fuzz=3 --no-backup-if-mismatch -s < {patch}", shell=True, capture_output=True).returncode == 0
    if not ok:
        subprocess.run("cd /repo && find . -name '*.rej' -delete; find . -name '*.orig' -delete; git checkout -q -- .", shell=True)
        res[name] = {"applied": False}
        print(name, "DOES NOT APPLY"); continue
    try:
        r = subprocess.run(["./check", pid, "--tier", "quick"], cwd="/verif", capture_output=True, text=True, timeout=3000)
        out = r.stdout + r.stderr
        keys = re.findall(r"^  key=(\S.*?) ::", out, re.M)
        drift = len(re.findall(r"^SPEC-DRIFT", out, re.M))
        res[name] = {"applied": True, "rc": r.returncode, "violations": len(keys), "first_keys": keys[:4], "spec_drift_lines": drift}
    except subprocess.TimeoutExpired:
        res[name] = {"applied": True, "rc": "timeout"}
    finally:
        subprocess.run("cd /repo && git checkout -q -- . && git clean -fdq openapi_python_client", shell=True)
    print(name, json.dumps(res[name])[:300], flush=True)
    mp = d + "/meta.json"
    m = json.load(open(mp))
    if res[name].get("rc") == 1:
        prev = m.get("caught_by")
        m["caught_by_quick"] = {"check": pid, "exit": 1, "violations": res[name]["violations"], "first_keys": res[name]["first_keys"], "spec_drift_lines": res[name]["spec_drift_lines"]}
        if not prev:
            m["caught_by"] = f"caught by {pid} quick: " + "; ".join(res[name]["first_keys"][:3])
    else:
        m["caught_by_quick"] = {"check": pid, "exit": res[name].get("rc"), "note": "not caught on HEAD (see caught_by / DESIGN.md 11.6)"}
    json.dump(m, open(mp, "w"), indent=1)
old = {}
if os.path.exists("/verif/seeded/RESULTS.json"):
    old = json.load(open("/verif/seeded/RESULTS.json"))
old.update(res)
json.dump(old, open("/verif/seeded/RESULTS.json", "w"), indent=1)
