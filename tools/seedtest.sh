#!/bin/sh
# usage: tools/seedtest.sh <seed dir or patch> <ID> [tier]  -- applies the patch to /repo, runs the check, restores /repo
P="$1"; ID="$2"; TIER="${3:-quick}"
P=$(realpath "$P"); if [ -d "$P" ]; then if [ -f "$P/patch.head.diff" ]; then P="$P/patch.head.diff"; else P="$P/patch.diff"; fi; fi
cd /repo && git diff --quiet || { echo "/repo dirty"; exit 3; }
git -C /repo apply "$P" 2>/dev/null || { (cd /repo && patch -p1 --fuzz=3 --no-backup-if-mismatch -s < "$P" >/dev/null 2>&1) && [ -z "$(find /repo -name '*.rej' | head -1)" ] && echo "(applied with fuzz)"; } || { echo "patch does not apply to HEAD: $P (port it to patch.head.diff)"; find /repo -name '*.rej' -delete; find /repo -name '*.orig' -delete; git -C /repo checkout -q -- .; exit 3; }
cd /verif && ./check "$ID" --tier "$TIER" > /tmp/seedtest.$$.out 2>&1; RC=$?
grep -E "^VIOLATION|^\[C|MACHINERY|^  key=" /tmp/seedtest.$$.out | cut -c1-260 | head -12; rm -f /tmp/seedtest.$$.out
git -C /repo checkout -q -- . ; git -C /repo status --short | head -3
echo "seedtest $P rc=$RC"
