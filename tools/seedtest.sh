#!/bin/sh
# usage: tools/seedtest.sh <patch.diff> <ID> [tier]  -- applies the patch to /repo, runs the check, restores /repo
P="$1"; ID="$2"; TIER="${3:-quick}"
cd /repo && git diff --quiet || { echo "/repo dirty"; exit 3; }
git -C /repo apply "$P" || git -C /repo apply --3way "$P" || { echo "patch does not apply"; git -C /repo checkout -- .; exit 3; }
cd /verif && ./check "$ID" --tier "$TIER" > /tmp/seedtest.$$.out 2>&1; RC=$?
grep -E "^VIOLATION|^KNOWN-FINDING|^\[C|MACHINERY|^  key=" /tmp/seedtest.$$.out | cut -c1-300; rm -f /tmp/seedtest.$$.out
git -C /repo checkout -- . ; git -C /repo status --short | head -3
echo "seedtest rc=$RC"
