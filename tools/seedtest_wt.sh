#!/bin/sh
# usage: tools/seedtest_wt.sh <seed dir|patch> <ID> [tier]  -- like seedtest.sh but applies the patch to a scratch worktree (/tmp/wtseed, created on
# demand at /repo's HEAD) and runs the check with OPC_REPO pointing at it: /repo is not touched (usable while /repo is busy)
P="$1"; ID="$2"; TIER="${3:-quick}"; WT=/tmp/wtseed
P=$(realpath "$P"); if [ -d "$P" ]; then if [ -f "$P/patch.head.diff" ]; then P="$P/patch.head.diff"; else P="$P/patch.diff"; fi; fi
[ -d $WT ] || git -C /repo worktree add -q --detach $WT HEAD
git -C $WT checkout -q --detach $(git -C /repo rev-parse HEAD) && git -C $WT checkout -q -- . 
git -C $WT apply "$P" 2>/dev/null || { (cd $WT && patch -p1 --fuzz=3 --no-backup-if-mismatch -s < "$P" >/dev/null 2>&1) && echo "(applied with fuzz)"; } || { echo "patch does not apply to HEAD: $P"; git -C $WT checkout -q -- .; exit 3; }
cd /verif && OPC_REPO=$WT ./check "$ID" --tier "$TIER" > /tmp/seedtestwt.$$.out 2>&1; RC=$?
grep -E "^VIOLATION|^\[C|MACHINERY|^  key=" /tmp/seedtestwt.$$.out | cut -c1-260 | head -10; grep -c "^SPEC-DRIFT" /tmp/seedtestwt.$$.out | sed 's/^/spec-drift lines: /'; rm -f /tmp/seedtestwt.$$.out
git -C $WT checkout -q -- . ; git -C $WT clean -fdq openapi_python_client
echo "seedtest_wt $P rc=$RC"
