#!/bin/sh
# Offline setup: nothing to build. Verify the toolchain the checks rely on.
set -e
java -version >/dev/null 2>&1
test -f /opt/veriftools/tla/tla2tools.jar
/venv/bin/python -c "import sys; sys.path.insert(0,'/repo'); import openapi_python_client, httpx, attrs, dateutil"
mkdir -p /verif/evidence /verif/replays
echo setup-ok
