#!/venv/bin/python
"""Run the repository's pinned suite (guard off) in a given tree and compare with BASELINE.json's stable_pass set.
usage: tools/suite.py [repo_dir]   exit 0 iff every stable_pass test passed"""
import json, os, subprocess, sys, tempfile
import xml.etree.ElementTree as ET
repo = sys.argv[1] if len(sys.argv) > 1 else "/repo"
base = json.load(open("/root/.vp/BASELINE.json"))
want = set(base["stable_pass"])
fd, xml = tempfile.mkstemp(suffix=".xml"); os.close(fd)
env = dict(os.environ); env.pop("OPC_VERIF_TRACE", None)
r = subprocess.run(["/venv/bin/python", "-m", "pytest", "-ra", "-q", "-p", "no:cacheprovider", "--timeout=900",
                    "--continue-on-collection-errors", f"--junitxml={xml}"], cwd=repo, capture_output=True, text=True, env=env)
passed = set()
for tc in ET.parse(xml).getroot().iter("testcase"):
    if not any(ch.tag in ("failure", "error", "skipped") for ch in tc):
        passed.add(f"{tc.get('classname')}::{tc.get('name')}")
os.unlink(xml)
missing = sorted(want - passed)
print(r.stdout.strip().splitlines()[-1])
print(f"stable_pass: {len(want & passed)}/{len(want)} passed; newly failing: {missing[:10]}")
sys.exit(0 if not missing else 1)
